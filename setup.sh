#!/bin/bash
# offline setup: hypothesis into /venv if missing; warm caches; create output dirs
set -e
cd "$(dirname "$0")"
/venv/bin/python -c "import hypothesis" 2>/dev/null || /venv/bin/pip install --no-index --find-links /opt/veriftools/wheels hypothesis
mkdir -p evidence failures
PYTHONPATH=/repo /venv/bin/python -W ignore -c "
import pandapower as pp, pandapower.networks as nw
net = nw.simple_four_bus_system(); pp.runpp(net); print('setup ok', pp.__version__)"
