#!/bin/bash
# tools/mutant.sh <patchfile> <prop> [check args...]  : applies a patch to a scratch worktree of /repo HEAD, runs ./check <prop> against it, removes the worktree
P=$(realpath "$1"); shift; PROP=$1; shift
WT=$(mktemp -d /tmp/mutXXXX); rmdir $WT
git -C /repo worktree add -f $WT HEAD -q || exit 2
if ! git -C $WT apply --whitespace=nowarn "$P"; then echo "patch failed"; git -C /repo worktree remove --force $WT; exit 2; fi
cd /verif && PBT_REPO=$WT ./check $PROP "$@" 2>&1 | grep -E "^property=|VIOLATION|failure signature|HARNESS" | head -12
git -C /repo worktree remove --force $WT
