"""Confirm a seeded change and run checks against it.
usage: tools/seeded.py <candidate dir with patch.diff, demo.py, meta.json> <name> <Cxx> [<Cyy> ...] [--examples N] [--shards K] [--tests "pytest paths"]
Steps: demo passes on /repo; patch applies to a scratch worktree; demo fails there; (optional) selected existing tests pass there;
run ./check for each property against the worktree (PBT_REPO) and record which signatures are reported.
Result is stored in /verif/seeded/<name>/ (patch.diff, demo.py, meta.json)."""
import json, os, shutil, subprocess, sys, tempfile, time
args = sys.argv[1:]
cand, name = args[0], args[1]
props = [a for a in args[2:] if a.startswith("C") and len(a) == 3]
def opt(flag, default=None):
    return args[args.index(flag) + 1] if flag in args else default
examples, shards, tests = opt("--examples"), opt("--shards", "8"), opt("--tests")
def run(cmd, env=None, cwd=None, timeout=3600):
    e = dict(os.environ); e.update(env or {})
    p = subprocess.run(cmd, shell=True, env=e, cwd=cwd, capture_output=True, text=True, timeout=timeout)
    return p.returncode, (p.stdout + p.stderr)
meta = json.load(open(os.path.join(cand, "meta.json"))) if os.path.exists(os.path.join(cand, "meta.json")) else {}
rc0, out0 = run("/venv/bin/python -W ignore %s/demo.py" % cand, env={"PYTHONPATH": "/repo"}, cwd="/tmp")
wt = tempfile.mkdtemp(prefix="seedwt", dir="/tmp"); os.rmdir(wt)
run("git -C /repo worktree add -f %s HEAD -q" % wt)
try:
    rca, outa = run("git -C %s apply --whitespace=nowarn %s/patch.diff" % (wt, os.path.abspath(cand)))
    rc1, out1 = run("/venv/bin/python -W ignore %s/demo.py" % os.path.abspath(cand), env={"PYTHONPATH": wt}, cwd="/tmp")
    confirmed = rc0 == 0 and rca == 0 and rc1 != 0
    result = {"demo_on_repo_rc": rc0, "patch_applies": rca == 0, "demo_on_patched_rc": rc1, "confirmed": confirmed}
    if tests and confirmed:
        rct, outt = run("/venv/bin/python -m pytest -q -p no:cacheprovider -n 4 %s 2>&1 | tail -3" % tests, env={"PYTHONPATH": wt}, cwd=wt)
        result["existing_tests"] = {"paths": tests, "tail": outt.strip().splitlines()[-1:] }
    checks = {}
    if confirmed:
        for p in props:
            t0 = time.time()
            cmd = "./check %s --shards %s %s" % (p, shards, ("--examples %s" % examples) if examples else "")
            rc, out = run(cmd, env={"PBT_REPO": wt}, cwd="/verif", timeout=5400)
            sigs = [l.split("failure signature:", 1)[1].strip() for l in out.splitlines() if l.startswith("failure signature:")]
            summ = [l for l in out.splitlines() if l.startswith("property=")]
            checks[p] = {"exit": rc, "detected": rc == 1, "signatures": sigs[:8], "summary": summ[-1:] , "wall_s": round(time.time() - t0)}
            shutil.rmtree("/verif/failures/%s" % p, ignore_errors=True)
    result["checks"] = checks
finally:
    run("git -C /repo worktree remove --force %s" % wt)
dst = "/verif/seeded/%s" % name
os.makedirs(dst, exist_ok=True)
for f in ("patch.diff", "demo.py"):
    if os.path.exists(os.path.join(cand, f)) and os.path.abspath(cand) != os.path.abspath(dst):
        shutil.copy(os.path.join(cand, f), dst)
try:
    prev = json.load(open(os.path.join(dst, "meta.json")))["verification"]["checks"]
    for p, v in prev.items():
        if p not in result["checks"]:
            v["from_earlier_run"] = True
            result["checks"][p] = v
except Exception:
    pass
meta.update({"verification": result, "ran": "tools/seeded.py (demo on /repo and on patched scratch worktree; ./check with PBT_REPO=<worktree>)"})
json.dump(meta, open(os.path.join(dst, "meta.json"), "w"), indent=1)
print(json.dumps(result, indent=1))
