"""greedy element deletion on a failing replay: tools/ddmin.py Cxx file.json -> prints reduced case"""
import sys, json, copy
sys.path.insert(0, '/verif')
from pbt.runner import quiet, load_module
quiet()
prop, fn = sys.argv[1], sys.argv[2]
mod = load_module(prop)
d = json.load(open(fn)); case = d['case']; sig = d['signature']
def fails(c):
    try:
        r = mod.check(c)
    except Exception:
        return False
    return any(s == sig for s, _ in r.failures)
assert fails(case)
changed = True
while changed:
    changed = False
    els = case['recipe']['el']
    for i in range(len(els) - 1, -1, -1):
        c2 = copy.deepcopy(case)
        e = c2['recipe']['el'].pop(i)
        # fix switch ordinals
        ok = True
        if e['t'] in ('line', 'trafo', 'trafo3w'):
            et = {'line': 'l', 'trafo': 't', 'trafo3w': 't3'}[e['t']]
            k = sum(1 for x in els[:i] if x['t'] == e['t'])
            new = []
            for x in c2['recipe']['el']:
                if x['t'] == 'switch' and x['et'] == et:
                    if x['element'] == k: continue
                    if x['element'] > k: x['element'] -= 1
                new.append(x)
            c2['recipe']['el'] = new
        if fails(c2):
            case = c2; changed = True; break
    if not changed:
        for i, b in enumerate(case['recipe']['buses']):
            if b.get('in_service') is False:
                c2 = copy.deepcopy(case); c2['recipe']['buses'][i].pop('in_service')
                if fails(c2): case = c2; changed = True; break
print(json.dumps(case))
