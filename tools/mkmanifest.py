"""Regenerates /verif/MANIFEST.json from the property modules present under pbt/props (python tools/mkmanifest.py)."""
import json, os, sys, importlib
ROOT = os.path.dirname(os.path.dirname(os.path.abspath(__file__)))
sys.path.insert(0, ROOT)
sys.path.insert(0, "/repo")
props = [json.loads(l) for l in open(os.path.join(ROOT, "properties.jsonl"))]
NA_REASONS = {}
if os.path.exists(os.path.join(ROOT, "tools", "not_applicable.json")):
    NA_REASONS = json.load(open(os.path.join(ROOT, "tools", "not_applicable.json")))
checks, na = [], []
for p in props:
    pid = p["id"]
    path = os.path.join(ROOT, "pbt", "props", pid.lower() + ".py")
    CLAIMED = json.load(open(os.path.join(ROOT, "tools", "claimed.json")))
    if not os.path.exists(path) or pid in NA_REASONS or pid not in CLAIMED:
        na.append({"property_id": pid, "reason": NA_REASONS.get(pid, "no check registered yet in this revision of /verif (design in DESIGN.md sec. 2)")})
        continue
    mod = importlib.import_module("pbt.props." + pid.lower())
    checks.append({
        "property_id": pid,
        "quick_cmd": "./check %s --tier quick" % pid,
        "thorough_cmd": "./check %s --tier thorough" % pid,
        "evidence_file": "/verif/evidence/%s.json" % pid,
        "replay_cmd_template": "./check %s --replay {path}" % pid,
        "engine": "pbt",
        "level_claimed": {"category": getattr(mod, "LEVEL", "exploration"),
                          "text": getattr(mod, "LEVEL_TEXT", "Generated-input search (seeded, sharded Hypothesis) against an explicit oracle; "
                                          "no absence claim beyond the cases explored and reported in the evidence file."),
                          "design_ref": "DESIGN.md sec. 2 (%s)" % pid},
        "level_note": "; ".join(getattr(mod, "ASSUMPTIONS", [])) or "see DESIGN.md sec. 1.6 / 5",
        "technique": getattr(mod, "TECHNIQUE", "property-based testing: Hypothesis structured generation + explicit oracle"),
    })
man = {
    "version": 1,
    "setup_cmd": "bash /verif/setup.sh",
    "hooks": {"guard": "E2NIEE_PANDAPOWER_VERIF",
              "enable": "no source hooks: checks wrap pandapower functions at run time (fault injection, call recording); ./check exports E2NIEE_PANDAPOWER_VERIF=1 for completeness",
              "baseline_off_cmd": "cd /repo && /venv/bin/python -m pytest -ra -q -p no:cacheprovider --timeout=900 --continue-on-collection-errors",
              "source_commits": [], "add_only": True},
    "engines": [{"name": "pbt", "path": "/verif/pbt", "serves_properties": [c["property_id"] for c in checks],
                 "kind_free_text": "Hypothesis 6.168 property-based testing: recipe generators (pbt/netgen.py), independent reference models and oracles, "
                                   "sharded seeded runner with replay tier, collect-then-classify by root-cause signature, known_findings.json protocol"}],
    "checks": checks,
    "not_applicable": na,
    "notes": "All checks: exit 0 held / 1 VIOLATION / 2 harness error. VERIF_SEED and VERIF_TIER are honoured. Known findings: /verif/known_findings.json.",
}
json.dump(man, open(os.path.join(ROOT, "MANIFEST.json"), "w"), indent=1)
print("checks:", [c["property_id"] for c in checks]); print("not_applicable:", len(na))
