"""newline-preserving replace: edit.py file <<< json [[old,new],...]  (old/new use \n; translated to the file's EOL)"""
import sys, json
fn = sys.argv[1]
raw = open(fn, newline='').read()
crlf = '\r\n' in raw
pairs = json.load(sys.stdin)
for old, new in pairs:
    if crlf:
        old = old.replace('\n', '\r\n'); new = new.replace('\n', '\r\n')
    if raw.count(old) != 1:
        sys.exit("pattern count %d != 1 in %s: %r" % (raw.count(old), fn, old[:80]))
    raw = raw.replace(old, new)
open(fn, 'w', newline='').write(raw)
