#!/bin/bash
# Fast baseline: pinned pytest command with xdist (-n 16); then serial re-run of any stable_pass test that did not pass.
# usage: tools/baseline.sh [repo_dir]   -> prints missing stable_pass tests, exit 0 iff none
REPO=${1:-/repo}
OUT=$(mktemp -d /var/tmp/baseline.XXXXXX)
cd "$REPO" || exit 2
unset E2NIEE_PANDAPOWER_VERIF
PYTHONPATH="$REPO" /venv/bin/python -m pytest -q -p no:cacheprovider --timeout=900 --continue-on-collection-errors -n 16 \
   --junitxml="$OUT/a.xml" pandapower > "$OUT/a.log" 2>&1
PYTHONPATH="$REPO" /venv/bin/python - "$OUT" "$REPO" <<'PY'
import json, sys, subprocess, xml.etree.ElementTree as ET, os
out, repo = sys.argv[1], sys.argv[2]
def parse(fn):
    ok=set()
    for tc in ET.parse(fn).getroot().iter("testcase"):
        cn=tc.get("classname") or ""
        if not cn.startswith("pandapower.test."):
            cn="pandapower.test."+cn        # re-run with file paths reports class names relative to the test directory
        tid=cn+"::"+(tc.get("name") or "")
        if tc.find("failure") is None and tc.find("error") is None and tc.find("skipped") is None: ok.add(tid)
    return ok
stable=set(json.load(open("/root/.vp/BASELINE.json"))["stable_pass"])
ok=parse(out+"/a.xml")
missing=sorted(stable-ok)
print("xdist run: passed %d, stable missing %d"%(len(ok),len(missing)))
if missing:
    files=sorted({m.split("::")[0].replace(".","/")+".py" for m in missing})
    subprocess.run(["/venv/bin/python","-m","pytest","-q","-p","no:cacheprovider","--timeout=900","--junitxml="+out+"/b.xml"]+files,
                   cwd=repo, stdout=open(out+"/b.log","w"), stderr=subprocess.STDOUT, env=dict(os.environ, PYTHONPATH=repo))
    ok|=parse(out+"/b.xml")
    missing=sorted(stable-ok)
print("BASELINE stable_pass=%d missing=%d"%(len(stable),len(missing)))
for m in missing: print("  MISSING",m)
sys.exit(1 if missing else 0)
PY
rc=$?
[ $rc -eq 0 ] && rm -rf "$OUT" || echo "logs kept in $OUT"
exit $rc
