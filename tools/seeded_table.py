"""(re)writes the table between <!-- SEEDED-TABLE --> markers in DESIGN.md from seeded/*/meta.json"""
import json, glob, os, re
rows = []
for f in sorted(glob.glob('/verif/seeded/*/meta.json')):
    m = json.load(open(f)); v = m.get('verification', {}); ch = v.get('checks', {})
    name = os.path.basename(os.path.dirname(f))
    what = (m.get('what_changed') or '').replace('\n', ' ').replace('|', '/')
    what = what[:170] + ('…' if len(what) > 170 else '')
    det = [p for p, c in ch.items() if c.get('detected')]
    mis = [p for p, c in ch.items() if not c.get('detected')]
    sig = '; '.join('%s: `%s`' % (p, ch[p]['signatures'][0]) for p in det if ch[p].get('signatures'))
    rows.append('| %s | %s | %s | %s | %s |' % (name, what, ', '.join(det) or '–', ', '.join(mis) or '–', sig or '–'))
table = '\n'.join(['| seeded change | what was changed (agent\'s description, shortened) | caught by | run but missed by | first signature |',
                   '|---|---|---|---|---|'] + rows)
s = open('/verif/DESIGN.md').read()
s = re.sub(r'<!-- SEEDED-TABLE -->.*<!-- /SEEDED-TABLE -->', '<!-- SEEDED-TABLE -->\n' + table.replace('\\', '\\\\') + '\n<!-- /SEEDED-TABLE -->', s, flags=re.S)
open('/verif/DESIGN.md', 'w').write(s)
print(len(rows), 'rows')
