"""print which check detects which seeded change (from seeded/*/meta.json)"""
import json, glob, os
for f in sorted(glob.glob('/verif/seeded/*/meta.json')):
    m = json.load(open(f)); v = m.get('verification', {})
    ch = v.get('checks', {})
    print(os.path.basename(os.path.dirname(f)), 'confirmed' if v.get('confirmed') else 'UNCONFIRMED',
          '; '.join('%s:%s%s' % (p, 'DETECTED' if c.get('detected') else 'missed', (' ' + ','.join(c.get('signatures', [])[:3])) if c.get('detected') else '') for p, c in ch.items()))
