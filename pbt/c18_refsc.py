"""Independent short-circuit impedance model for C18 (IEC 60909-0 / pandapower doc/shortcircuit).

Built only from the *input* tables of a pandapowerNet, in physical units (kV, ohm, siemens): every element is
replaced by its documented short-circuit model, the nodal admittance matrix is assembled in siemens with ideal
transformers of the rated ratio vn_hv_kv / vn_lv_kv, and the driving-point (Thevenin) impedance of a bus is the
diagonal element of the dense inverse, in ohm at the voltage level of that bus.  No per-unit system, no
pandapower function is used.

Element models (doc/shortcircuit/voltage_source.rst, branch_elements.rst, IEC 60909-0:2016):
* voltage factor c: c_max = 1.1 (1.05 below 1 kV with lv_tol_percent=6), c_min = 1.0 (0.95 below 1 kV)
* ext_grid:  Z = c * Un^2 / S''k  (c, Un of the connection bus; S''k = s_sc_max_mva / s_sc_min_mva),
             X = Z / sqrt(1 + (R/X)^2), R = (R/X) * X
* line:      R = r_ohm_per_km * length / parallel * K_L, X = x_ohm_per_km * length / parallel,
             K_L = 1 + 0.004 * (endtemp_degree - 20) for case "min", 1 for case "max"; shunt admittance neglected
* trafo:     z = vk/100 * vn_lv_kv^2 / sn_mva * K_T / parallel (referred to the LV side), r with vkr, x = sqrt(z^2 - r^2),
             K_T = 0.95 * c_max / (1 + 0.6 * x_T), x_T = sqrt(vk^2 - vkr^2)/100, c_max of the LV bus, both cases;
             nominal ratio vn_hv_kv / vn_lv_kv, tap position ignored, magnetising branch neglected
* trafo3w:   star of three branches behind an internal node at the HV voltage level (doc/elements/trafo3w.rst):
             pairwise vk/vkr (hv-mv, mv-lv, hv-lv) referred to sn_hv_mva via the min-rated-power rule, each pair multiplied
             by its own K_T = 0.95 * 1.1 / (1 + 0.6 x_T,pair) *before* the delta-star conversion (branch_elements.rst),
             real and imaginary parts converted separately; ratios vn_hv : vn_mv / vn_lv, taps ignored
* impedance: as in the power flow (branch_elements.rst): z_ft / z_tf (p.u. on its own sn_mva and the bus voltage) with
             the shunt parts gf+jbf / gt+jbt
* gen:       Z = K_G * (rdss_ohm + j * xdss_pu * vn_kv^2 / sn_mva), K_G = Un/vn_kv * c_max / (1 + xdss_pu * sin(phi))
* motor:     (case "max" only) Z = 1/lrc_pu * vn_kv^2 / S_rM, S_rM = pn_mech_mw / (efficiency_n/100 * cos_phi_n),
             X = Z / sqrt(1 + rx^2), R = rx * X
* sgen (generator_type "async", current_source False): asynchronous machine (doc/shortcircuit/current_source.rst,
             voltage_source.rst "Asynchronous Motor"): Z = 1/lrc_pu * Un^2 / sn_mva with Un = rated voltage of the bus,
             X = Z / sqrt(1 + rx^2), R = rx * X
* sgen (full converter): ideal current source, no admittance; case "max" only; I_kC = k * sn_mva / (sqrt(3) * Un) injected
             with the angle of the driving-point impedance at its connection bus (doc/shortcircuit/current_source.rst),
             contribution at fault bus j: I''kII = |1/(Z_jj + Z_fault) * sum_m Z_jm * I_kC,m| (doc/shortcircuit/ikss.rst)
* load, shunt, storage: neglected
* switch:    closed bus-bus switch without impedance fuses its buses; with z_ohm > 0 it is a branch R + jX, |Z| = z_ohm,
             R/X = 2 (the documented default switch_rx_ratio); an open switch at a line / trafo terminal disconnects
             that terminal (the branch then carries no current: removed; a trafo3w keeps its other two windings)
"""
import math

import numpy as np

KINDS = ("ext_grid", "line", "trafo", "gen", "motor")


def c_factors(vn_kv, lv_tol_percent=10):
    """(c_max, c_min) of a bus with nominal voltage vn_kv"""
    if vn_kv < 1.0:
        return (1.05 if lv_tol_percent == 6 else 1.10), 0.95
    return 1.10, 1.00


def _rx_split(z, rx):
    x = z / math.sqrt(1.0 + rx * rx)
    return complex(rx * x, x)


class RefSC:
    """nodes = fused in-service buses; Y in siemens; zk(bus) = driving point impedance in ohm (None: not supplied)"""

    def __init__(self, net, case="max", lv_tol_percent=10, peak=False):
        """peak=True: network for the peak factor of IEC 60909-0 method (c): every reactance at the equivalent frequency
        fc = 0.4 * f, generators with the fictitious resistance R_Gf instead of rdss_ohm"""
        self.fscale = 0.4 if peak else 1.0
        self.case = case
        self.lv_tol = lv_tol_percent
        bus = net.bus
        self.vn = {int(b): float(v) for b, v in zip(bus.index, bus.vn_kv)}
        self.in_service = {int(b): bool(s) for b, s in zip(bus.index, bus.in_service)}
        par = {b: b for b in self.vn}

        def find(a):
            while par[a] != a:
                par[a] = par[par[a]]
                a = par[a]
            return a
        self.find = find
        open_at = {"l": set(), "t": set(), "t3": set()}
        zswitch = []
        sw = net.switch
        for i in sw.index:
            et, b, e, closed = sw.at[i, "et"], int(sw.at[i, "bus"]), int(sw.at[i, "element"]), bool(sw.at[i, "closed"])
            if et == "b":
                z = sw.at[i, "z_ohm"] if "z_ohm" in sw.columns else 0.0
                if closed and not (z > 0) and self.in_service[b] and self.in_service[e]:
                    ra, rb = find(b), find(e)
                    if ra != rb:
                        par[max(ra, rb)] = min(ra, rb)
                elif closed and z > 0:
                    zswitch.append((int(i), b, e, float(z)))
            elif et == "t3" and not closed:
                open_at["t3"].add((e, b))
            elif et in open_at and not closed:
                open_at[et].add(e)
        self.nodes = sorted({find(b) for b in self.vn if self.in_service[b]})
        self.pos = {n: k for k, n in enumerate(self.nodes)}
        n = len(self.nodes)
        n3 = len(net.trafo3w)
        self.n_bus_nodes = n
        self.Y = np.zeros((n + n3, n + n3), dtype=complex)      # one internal node per three-winding transformer
        self.sources = set()       # nodes with a voltage source (ext_grid / gen): only those energise an island
        self.parts = []            # (kind, index, node(s), Z ohm) for diagnosis
        self.gen_nodes = {}
        self.gen_kg = {}           # node -> K_G of its in-service generators
        self.has = set()

        def node(b):
            b = int(b)
            return self.pos[find(b)] if self.in_service[b] else None

        def shunt(kind, idx, b, z, source):
            k = node(b)
            if k is None:
                return
            z = complex(z.real, z.imag * self.fscale)
            self.Y[k, k] += 1.0 / z
            self.parts.append((kind, int(idx), k, z))
            self.has.add(kind)
            if source:
                self.sources.add(k)

        # external grids
        eg = net.ext_grid
        for i in eg.index:
            if not eg.at[i, "in_service"]:
                continue
            b = int(eg.at[i, "bus"])
            cmax, cmin = c_factors(self.vn[b], lv_tol_percent)
            if case == "max":
                c, s, rx = cmax, eg.at[i, "s_sc_max_mva"], eg.at[i, "rx_max"]
            else:
                c, s, rx = cmin, eg.at[i, "s_sc_min_mva"], eg.at[i, "rx_min"]
            shunt("ext_grid", i, b, _rx_split(c * self.vn[b] ** 2 / float(s), float(rx)), True)

        # synchronous generators
        g = net.gen
        for i in g.index:
            if not g.at[i, "in_service"]:
                continue
            b = int(g.at[i, "bus"])
            cmax, _ = c_factors(self.vn[b], lv_tol_percent)
            vng, sng, xd, rd, cosphi = (float(g.at[i, c]) for c in ("vn_kv", "sn_mva", "xdss_pu", "rdss_ohm", "cos_phi"))
            sinphi = math.sqrt(max(0.0, 1.0 - cosphi ** 2))
            kg = self.vn[b] / vng * cmax / (1.0 + xd * sinphi)
            xg = xd * vng ** 2 / sng
            if peak:   # IEC 60909-0: R_Gf = 0.05 X''d (UrG > 1 kV, SrG >= 100 MVA), 0.07 X''d (UrG > 1 kV, SrG < 100 MVA), 0.15 X''d (UrG <= 1 kV)
                rd = (0.15 if vng <= 1.0 else (0.05 if sng >= 100.0 else 0.07)) * xg
            shunt("gen", i, b, kg * complex(rd, xg), True)
            if node(b) is not None:
                self.gen_nodes.setdefault(node(b), []).append(int(i))
                self.gen_kg.setdefault(node(b), []).append(kg)

        # asynchronous motors (only maximum short-circuit currents)
        if case == "max" and len(net.motor):
            m = net.motor
            for i in m.index:
                if not m.at[i, "in_service"]:
                    continue
                s_rm = float(m.at[i, "pn_mech_mw"]) / (float(m.at[i, "efficiency_n_percent"]) / 100.0 * float(m.at[i, "cos_phi_n"]))
                z = 1.0 / float(m.at[i, "lrc_pu"]) * float(m.at[i, "vn_kv"]) ** 2 / s_rm
                shunt("motor", i, int(m.at[i, "bus"]), _rx_split(z, float(m.at[i, "rx"])), False)

        # sgens modelled as asynchronous machines
        sg = net.sgen
        if len(sg) and "generator_type" in sg.columns:
            for i in sg.index:
                if not sg.at[i, "in_service"] or sg.at[i, "generator_type"] != "async":
                    continue
                b = int(sg.at[i, "bus"])
                z = 1.0 / float(sg.at[i, "lrc_pu"]) * self.vn[b] ** 2 / float(sg.at[i, "sn_mva"])
                shunt("async", i, b, _rx_split(z, float(sg.at[i, "rx"])), False)

        # lines
        ln = net.line
        for i in ln.index:
            if not ln.at[i, "in_service"] or int(i) in open_at["l"]:
                continue
            a, b = node(ln.at[i, "from_bus"]), node(ln.at[i, "to_bus"])
            if a is None or b is None:
                continue
            length, parallel = float(ln.at[i, "length_km"]), float(ln.at[i, "parallel"])
            r = float(ln.at[i, "r_ohm_per_km"]) * length / parallel
            x = float(ln.at[i, "x_ohm_per_km"]) * length / parallel
            if case == "min":
                r *= 1.0 + 0.004 * (float(ln.at[i, "endtemp_degree"]) - 20.0)
            self._branch("line", i, a, b, complex(r, x), 1.0)

        # two-winding transformers
        tr = net.trafo
        for i in tr.index:
            if not tr.at[i, "in_service"] or int(i) in open_at["t"]:
                continue
            hb, lb = int(tr.at[i, "hv_bus"]), int(tr.at[i, "lv_bus"])
            a, b = node(hb), node(lb)
            if a is None or b is None:
                continue
            vk, vkr, sn = float(tr.at[i, "vk_percent"]), float(tr.at[i, "vkr_percent"]), float(tr.at[i, "sn_mva"])
            vh, vl, parallel = float(tr.at[i, "vn_hv_kv"]), float(tr.at[i, "vn_lv_kv"]), float(tr.at[i, "parallel"])
            cmax, _ = c_factors(self.vn[lb], lv_tol_percent)
            x_t = math.sqrt(vk ** 2 - vkr ** 2) / 100.0
            kt = 0.95 * cmax / (1.0 + 0.6 * x_t)
            zb = vl ** 2 / sn * kt / parallel
            z = complex(vkr / 100.0 * zb, x_t * zb)          # referred to the LV side
            self._branch("trafo", i, a, b, z, vh / vl)

        # three-winding transformers
        t3 = net.trafo3w
        for k3, i in enumerate(t3.index):
            if not t3.at[i, "in_service"]:
                continue
            star = n + k3
            sn = {sd: float(t3.at[i, "sn_%s_mva" % sd]) for sd in ("hv", "mv", "lv")}
            vnr = {sd: float(t3.at[i, "vn_%s_kv" % sd]) for sd in ("hv", "mv", "lv")}
            pairs = {"hv": ("hv", "mv"), "mv": ("mv", "lv"), "lv": ("hv", "lv")}     # vk_hv: hv-mv, vk_mv: mv-lv, vk_lv: hv-lv
            vr_d, vx_d = {}, {}
            for key, (s1, s2) in pairs.items():
                vk, vkr = float(t3.at[i, "vk_%s_percent" % key]), float(t3.at[i, "vkr_%s_percent" % key])
                x_pair = math.sqrt(vk ** 2 - vkr ** 2) / 100.0                        # on the rating of the pair
                kt = 0.95 * 1.1 / (1.0 + 0.6 * x_pair)
                conv = sn["hv"] / min(sn[s1], sn[s2]) * kt
                vr_d[key] = vkr * conv
                vx_d[key] = math.sqrt((vk * conv) ** 2 - (vkr * conv) ** 2)
            star_pct = {}
            for part, d in (("r", vr_d), ("x", vx_d)):
                star_pct["hv", part] = 0.5 * (d["hv"] + d["lv"] - d["mv"])
                star_pct["mv", part] = 0.5 * (d["mv"] + d["hv"] - d["lv"])
                star_pct["lv", part] = 0.5 * (d["mv"] + d["lv"] - d["hv"])
            for sd in ("hv", "mv", "lv"):
                bb = int(t3.at[i, sd + "_bus"])
                if (int(i), bb) in open_at["t3"]:
                    continue
                k = node(bb)
                if k is None:
                    continue
                zb = vnr[sd] ** 2 / sn["hv"]
                z = complex(star_pct[sd, "r"] / 100.0 * zb, star_pct[sd, "x"] / 100.0 * zb)   # referred to the winding's side
                self._branch("trafo3w", i, star, k, z, vnr["hv"] / vnr[sd])

        # impedances
        im = net.impedance
        for i in im.index:
            if not im.at[i, "in_service"]:
                continue
            fb, tb = int(im.at[i, "from_bus"]), int(im.at[i, "to_bus"])
            a, b = node(fb), node(tb)
            if a is None or b is None:
                continue
            zb = self.vn[fb] ** 2 / float(im.at[i, "sn_mva"])

            def val(c):
                v = float(im.at[i, c]) if c in im.columns else 0.0
                return 0.0 if math.isnan(v) else v
            zft = complex(val("rft_pu"), val("xft_pu") * self.fscale) * zb
            ztf = complex(val("rtf_pu"), val("xtf_pu") * self.fscale) * zb
            self.Y[a, a] += 1.0 / zft + complex(val("gf_pu"), val("bf_pu")) / zb
            self.Y[b, b] += 1.0 / ztf + complex(val("gt_pu"), val("bt_pu")) / zb
            self.Y[a, b] -= 1.0 / zft
            self.Y[b, a] -= 1.0 / ztf
            self.parts.append(("impedance", int(i), (a, b), zft))
            self.has.add("impedance")

        # closed bus-bus switches with impedance
        for i, b1, b2, z in zswitch:
            a, b = node(b1), node(b2)
            if a is None or b is None:
                continue
            self._branch("switch", i, a, b, complex(z * 2.0 / math.sqrt(5.0), z / math.sqrt(5.0)), 1.0)

    def _branch(self, kind, idx, a, b, z, ratio):
        """series impedance z (ohm, at side b) behind an ideal transformer ratio:1 between a and b"""
        z = complex(z.real, z.imag * self.fscale)
        y = 1.0 / z
        self.Y[a, a] += y / ratio ** 2
        self.Y[b, b] += y
        self.Y[a, b] -= y / ratio
        self.Y[b, a] -= y / ratio
        self.parts.append((kind, int(idx), (a, b), z))
        self.has.add(kind)

    def solve(self):
        """-> {bus label: complex Zk in ohm, or None when no voltage source supplies the bus}"""
        n = self.Y.shape[0]
        comp = list(range(n))

        def find(a):
            while comp[a] != a:
                comp[a] = comp[comp[a]]
                a = comp[a]
            return a
        for kind, idx, where, z in self.parts:
            if isinstance(where, tuple):
                ra, rb = find(where[0]), find(where[1])
                if ra != rb:
                    comp[max(ra, rb)] = min(ra, rb)
        self.comp_kinds = {}       # component root -> element kinds in that component
        for kind, idx, where, z in self.parts:
            k = where[0] if isinstance(where, tuple) else where
            self.comp_kinds.setdefault(find(k), set()).add(kind)
        self.comp_of = find
        live_comp = {find(s) for s in self.sources}
        live = [k for k in range(n) if find(k) in live_comp]
        self.live = set(live)
        zdiag = {}
        if live:
            Z = np.linalg.inv(self.Y[np.ix_(live, live)])
            self.Z = Z
            self.live_pos = {k: j for j, k in enumerate(live)}
            for j, k in enumerate(live):
                zdiag[k] = complex(Z[j, j])
        out = {}
        for b in self.vn:
            if not self.in_service[b]:
                out[b] = None
                continue
            out[b] = zdiag.get(self.pos[self.find(b)])
        return out

    def current_sources(self, net):
        """complex current injections (kA) of the in-service full-converter sgens per live node (3ph, case max)"""
        inj = {}
        sg = net.sgen
        for i in sg.index:
            if not sg.at[i, "in_service"] or ("current_source" in sg.columns and not sg.at[i, "current_source"]):
                continue
            b = int(sg.at[i, "bus"])
            k = self.node_of(b)
            if k is None or k not in self.live:
                continue
            j = self.live_pos[k]
            mag = float(sg.at[i, "k"]) * float(sg.at[i, "sn_mva"]) / (math.sqrt(3.0) * self.vn[b])
            ang = math.atan2(self.Z[j, j].imag, self.Z[j, j].real)
            inj[j] = inj.get(j, 0j) + mag * complex(math.cos(-ang), math.sin(-ang))
        self.inj = inj
        return inj

    def ikss2(self, b, zf=0j):
        """current-source share of the initial short-circuit current at bus b (kA); call current_sources first"""
        k = self.node_of(b)
        if k is None or k not in self.live:
            return None
        j = self.live_pos[k]
        tot = sum(self.Z[j, m] * i for m, i in self.inj.items())
        return abs(tot / (self.Z[j, j] + zf))

    def kappa_c(self, zc):
        """peak factor of method (c) from the driving-point impedance zc of the peak=True network"""
        return 1.02 + 0.98 * math.exp(-3.0 * zc.real / zc.imag * self.fscale)

    def kinds_at(self, b):
        """element kinds in the connected component of bus b"""
        k = self.node_of(b)
        return set() if k is None else self.comp_kinds.get(self.comp_of(k), set())

    def node_of(self, b):
        return self.pos[self.find(int(b))] if self.in_service[int(b)] else None
