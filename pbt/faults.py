"""Fault injection by wrapping pipeline functions at run time (DESIGN.md sec. 1.9). No source hooks needed.

install() replaces every plain-Python function defined in the calculation pipeline modules by a recording wrapper in all
pandapower.* module namespaces that bind it (numba dispatchers, classes and the public entry points are left alone).
With `recording()` the sequence of calls is recorded; with `plan(name, nth, when)` an InjectedFault is raised before or
after the nth call of that function."""
import contextlib
import functools
import importlib
import pkgutil
import sys
import types

PIPELINE = ("pandapower.powerflow", "pandapower.pd2ppc", "pandapower.pd2ppc_zero", "pandapower.build_bus",
            "pandapower.build_branch", "pandapower.build_gen", "pandapower.results", "pandapower.results_bus",
            "pandapower.results_branch", "pandapower.results_gen", "pandapower.auxiliary", "pandapower.optimal_powerflow",
            "pandapower.opf.", "pandapower.pf.", "pandapower.pypower.", "pandapower.shortcircuit.", "pandapower.estimation.",
            "pandapower.contingency.", "pandapower.run")
ENTRY_POINTS = {"runpp", "rundcpp", "runopp", "rundcopp", "runpp_3ph", "calc_sc", "estimate", "run_contingency",
                "run_contingency_ls2g", "runpp_pgm", "set_user_pf_options"}


class InjectedFault(Exception):
    pass


class InjectedInterrupt(BaseException):
    """a fault that `except Exception` handlers do not see (like KeyboardInterrupt / SystemExit)"""
    pass


class _State:
    active = False
    trace = None
    counts = None
    plan = None
    fired = False


STATE = _State()
_installed = {}


def _in_pipeline(modname):
    return any(modname == p or modname.startswith(p) for p in PIPELINE)


def _make_wrapper(f, name):
    @functools.wraps(f)
    def wrapper(*a, **k):
        st = STATE
        if not st.active:
            return f(*a, **k)
        n = st.counts.get(name, 0) + 1
        st.counts[name] = n
        st.trace.append((name, n))
        p = st.plan
        if p is not None and p[0] == name and p[1] == n and p[2] == "before" and not st.fired:
            st.fired = True
            raise (InjectedInterrupt if len(p) > 3 and p[3] == "interrupt" else InjectedFault)("%s#%d before" % (name, n))
        r = f(*a, **k)
        if p is not None and p[0] == name and p[1] == n and p[2] == "after" and not st.fired:
            st.fired = True
            raise (InjectedInterrupt if len(p) > 3 and p[3] == "interrupt" else InjectedFault)("%s#%d after" % (name, n))
        return r
    wrapper.__pbt_wrapped__ = True
    return wrapper


def install():
    """idempotent; returns number of wrapped functions"""
    import pandapower
    # make sure the pipeline modules are imported
    for m in ("pandapower.shortcircuit", "pandapower.estimation", "pandapower.contingency", "pandapower.pf.runpp_3ph",
              "pandapower.opf.make_objective", "pandapower.optimal_powerflow", "pandapower.pd2ppc_zero"):
        try:
            importlib.import_module(m)
        except Exception:
            pass
    mods = [(n, m) for n, m in list(sys.modules.items()) if n.startswith("pandapower") and isinstance(m, types.ModuleType)
            and ".test" not in n]
    for modname, mod in mods:
        for attr, obj in list(vars(mod).items()):
            if isinstance(obj, types.FunctionType) and not getattr(obj, "__pbt_wrapped__", False) \
                    and _in_pipeline(getattr(obj, "__module__", "") or "") and attr not in ENTRY_POINTS \
                    and obj.__name__ not in ENTRY_POINTS and id(obj) not in _installed:
                name = "%s.%s" % (obj.__module__.replace("pandapower.", ""), obj.__name__)
                _installed[id(obj)] = (obj, _make_wrapper(obj, name))
    n = 0
    for modname, mod in mods:
        for attr, obj in list(vars(mod).items()):
            if isinstance(obj, types.FunctionType) and id(obj) in _installed:
                setattr(mod, attr, _installed[id(obj)][1])
                n += 1
    return len(_installed), n


@contextlib.contextmanager
def recording(plan=None):
    STATE.active = True
    STATE.trace = []
    STATE.counts = {}
    STATE.plan = plan
    STATE.fired = False
    try:
        yield STATE
    finally:
        STATE.active = False
        STATE.plan = None


def distinct_points(trace):
    """(function, first/last occurrence) x before/after"""
    last = {}
    for name, n in trace:
        last[name] = n
    pts = []
    for name in sorted(last):
        for n in sorted({1, last[name]}):
            pts.append((name, n, "before"))
            pts.append((name, n, "after"))
    return pts
