"""OPF problem generator shared by C16 (feasibility) and C17 (cost) - DESIGN.md sec. 2, C16/C17.

A case is {"recipe": <netgen recipe whose elements additionally carry the OPF columns as create_* kwargs>,
           "costs":  [{"kind": "poly", "et": .., "k": <ordinal of the element among the recipe elements of type et>, cp1_eur_per_mw..},
                      {"kind": "pwl", "et": .., "k": .., "power_type": "p"|"q", "points": [[p0, p1, slope], ...]}],
           "opt":    {"mode": "ac"|"dc", "init": "flat"|"pf", "calculate_voltage_angles": bool}}
Everything the OPF documentation declares is drawn: controllable flags (explicit True/False or absent), p/q limits of gen, sgen, load,
storage, ext_grid, dcline limits, bus voltage limits, branch max_loading_percent, poly (c0, c1, c2 for p and q) and pwl costs.
Costs are convex in the user's own variable (c2 >= 0, increasing pwl slopes) and scaled with the MVA scale of the voltage level.
"""
from hypothesis import strategies as st

from pbt import netgen
from pbt.netgen import q, LEVELS

OPF_LEVEL_SETS = [[110.0], [20.0], [10.0], [0.4], [110.0, 20.0], [20.0, 0.4], [110.0, 10.0], [220.0, 110.0],
                  [110.0, 20.0, 0.4], [380.0, 110.0, 20.0]]

PROFILE = netgen.profile(
    level_sets=OPF_LEVEL_SETS, nb_level=(1, 4), nb_max=9, max_per_bus=2, extra_branches=(0, 2),
    bus_kinds={"load": 5, "sgen": 4, "gen": 3, "storage": 2, "shunt": 1, "ward": 1, "xward": 0, "motor": 0,
               "asymmetric_load": 0, "asymmetric_sgen": 0},
    branch_kinds={"line": 10, "impedance": 1, "bb": 1},
    zip=False, oos=0.0, open_prob=0.0, dcline=True, second_slack=20, slack_gen=True, noslack_island=False,
    shifts=(0.0, 0.0, 0.0, 30.0, -30.0), scaling=False, gen_qlims=False, custom_index=True,
    sn_choices=(1.0, 1.0, 10.0, 100.0, 0.5, 1000.0))

COST_ETS = ("gen", "sgen", "load", "storage", "ext_grid", "dcline")

DEFAULT_CFG = dict(
    p_dc=0.3,                # share of DC OPF cases
    ctrl={"load": 0.3, "sgen": 0.6, "storage": 0.5},
    scaling=0.04,            # chance per element of a scaling factor != 1
    cost_prob=0.7,           # chance that a dispatchable element gets a cost entry
    quad=0.35,               # chance that a case uses quadratic terms at all (excludes pwl, as documented)
    pwl=0.3,                 # chance that a non-quadratic case uses pwl costs for some elements
    q_cost=0.25,             # chance that a case carries reactive power costs (AC only)
    const=0.3,               # chance of a constant term per poly cost entry
    even_on_consumers=0.25,  # chance that a case may put c2/c0 on load/storage/dcline entries (the F8 shape)
    fixed_cost=0.08,         # chance per non-dispatchable (non-controllable / out of service) element of a cost entry
    tight_branch=0.45, tight_dc=0.3, bus_limits=True, gen_fixed=0.12, gen_index_gap=0.1,
    oos_el=0.015, oos_bus=0.008, open_switch=0.08,
    dcline_lossless=0.6,     # share of dclines without losses (the OPF loss model deviates from the documented one)
    dead_terminal=0.1,       # share of cases that keep an in-service ext_grid/dcline at an out-of-service bus
)


def _chance(rnd, p):
    """Bernoulli decision from a seeded random.Random (st.randoms(use_true_random=True)): Hypothesis' own draws are heavily biased
    towards the first alternative (measured: st.integers(0, 9) < 3 in 59 % of the draws), which would make rare shapes frequent"""
    return rnd.random() < p


def _level_s(recipe, pos):
    return LEVELS[recipe["buses"][pos]["vn_kv"]]["s"]


def _r(x):
    return round(float(x), 6)


@st.composite
def _q_limits(draw, S, qset, wide=0.3):
    """(min_q, max_q) around the setpoint: a fixed value, a band, or a one-sided band"""
    k = draw(st.integers(0, 5))
    if k == 0:
        return _r(qset), _r(qset)
    lo = _r(qset - S * draw(q(0.0, wide, nd=2)))
    hi = _r(qset + S * draw(q(0.0, wide, nd=2)))
    return lo, hi


@st.composite
def opf_data(draw, recipe, cfg, rnd, ac=True):
    """adds controllable flags and limits to the recipe elements in place and returns it"""
    el = recipe["el"]
    # out-of-service parts and open switches (netgen's own flags use st.floats and are far too frequent for OPF problems)
    slack_pos = next(e["bus"] for e in el if e["t"] == "ext_grid" or (e["t"] == "gen" and e.get("slack")))
    first_slack = next(e for e in el if e["t"] == "ext_grid" or (e["t"] == "gen" and e.get("slack")))
    for e in el:
        if e["t"] == "switch":
            if e["et"] != "b" and _chance(rnd, cfg["open_switch"]):
                e["closed"] = False
        elif e is not first_slack and _chance(rnd, cfg["oos_el"]):
            e["in_service"] = False
    for i, b in enumerate(recipe["buses"]):
        if i != slack_pos and _chance(rnd, cfg["oos_bus"]):
            b["in_service"] = False
    if not _chance(rnd, cfg["dead_terminal"]):
        dead = {i for i, b in enumerate(recipe["buses"]) if not b.get("in_service", True)}
        for e in el:
            if (e["t"] == "ext_grid" and e["bus"] in dead) or (e["t"] == "dcline" and (e["from_bus"] in dead or e["to_bus"] in dead)):
                e["in_service"] = False
    node = netgen.nodes_of(recipe)
    total = sum(abs(e.get("p_mw", 0.0)) for e in el if e["t"] in ("load", "sgen", "gen", "storage", "dcline")) + \
        sum(abs(e.get("ps_mw", 0.0)) + abs(e.get("pz_mw", 0.0)) for e in el if e["t"] == "ward")
    smax = max(LEVELS[b["vn_kv"]]["s"] for b in recipe["buses"])
    big = _r(max(total * 3, smax * 2))
    n_eg = sum(1 for e in el if e["t"] == "ext_grid")
    for e in el:
        t = e["t"]
        if t in ("load", "sgen", "storage"):
            S = _level_s(recipe, e["bus"])
            if _chance(rnd, cfg["ctrl"][t]):
                e["controllable"] = True
                p = e["p_mw"]
                if t == "load":
                    k = draw(st.integers(0, 3))
                    lo, hi = [(0.0, p), (_r(p * 0.5), _r(p * 1.5)), (_r(p * 0.8), p), (_r(-0.1 * S), _r(p + 0.1 * S))][k]
                elif t == "sgen":
                    k = draw(st.integers(0, 2))
                    top = _r(max(p, 0.05 * S) * draw(st.sampled_from([1.0, 1.5, 2.0])))
                    lo, hi = [(0.0, top), (_r(0.3 * p), top), (_r(-0.05 * S), top)][k]
                else:
                    lo, hi = _r(-S * draw(q(0.0, 0.3, nd=2))), _r(S * draw(q(0.0, 0.3, nd=2)))
                e["min_p_mw"], e["max_p_mw"] = lo, max(lo, hi)
                e["min_q_mvar"], e["max_q_mvar"] = draw(_q_limits(S, e.get("q_mvar", 0.0)))
            elif draw(st.integers(0, 3)) == 0:
                e["controllable"] = False
                if draw(st.integers(0, 1)):   # limits of non-controllable elements are declared but not used
                    e["min_p_mw"], e["max_p_mw"] = 0.0, _r(abs(e["p_mw"]) + 0.1 * S)
            if _chance(rnd, cfg["scaling"]):
                e["scaling"] = draw(st.sampled_from([0.5, 1.3, 2.0]))
        elif t == "gen":
            S = _level_s(recipe, e["bus"])
            p = e["p_mw"]
            if e.get("slack"):
                e["min_p_mw"], e["max_p_mw"] = -big, big
                e["min_q_mvar"], e["max_q_mvar"] = -big, big
                if draw(st.integers(0, 2)) == 0:
                    e["controllable"] = True
                continue
            c = rnd.random()
            if c < 0.3:
                e["controllable"] = True
            elif c < 0.3 + cfg["gen_fixed"]:
                e["controllable"] = False
            top = _r(max(p, 0.1 * S) * draw(st.sampled_from([1.0, 1.5, 2.0])))
            e["min_p_mw"] = draw(st.sampled_from([0.0, 0.0, _r(0.3 * p)]))
            e["max_p_mw"] = top
            e["min_q_mvar"] = _r(-S * draw(q(0.05, 0.5, nd=2)))
            e["max_q_mvar"] = _r(S * draw(q(0.05, 0.5, nd=2)))
            if e.get("controllable") is False:      # a fixed voltage needs reactive power headroom to be feasible
                e["min_q_mvar"], e["max_q_mvar"] = _r(-2 * S), _r(2 * S)
            if _chance(rnd, cfg["scaling"]):
                e["scaling"] = draw(st.sampled_from([0.5, 1.3, 2.0]))
        elif t == "ext_grid":
            k = draw(st.integers(0, 9))
            if n_eg > 1:
                k = min(k, 3)       # exchange between two unlimited ext_grids is an unbounded problem
            if k < 4:
                e["min_p_mw"], e["max_p_mw"] = -big, big
                e["min_q_mvar"], e["max_q_mvar"] = -big, big
            elif k < 5:
                e["min_p_mw"], e["max_p_mw"] = 0.0, big    # no export
                e["min_q_mvar"], e["max_q_mvar"] = -big, big
            c = draw(st.integers(0, 9))
            if c < 2:
                e["controllable"] = True
            elif c < 4:
                e["controllable"] = False
        elif t == "dcline":
            S = _level_s(recipe, e["from_bus"])
            if e["p_mw"] <= 0:
                e["p_mw"] = _r(0.05 * S)
            e["max_p_mw"] = _r(e["p_mw"] * draw(st.sampled_from([1.0, 1.5, 3.0])))
            if _chance(rnd, cfg["dcline_lossless"]):
                e["loss_percent"], e["loss_mw"] = 0.0, 0.0
            qa, qb = _r(S * draw(q(0.05, 0.4, nd=2))), _r(S * draw(q(0.05, 0.4, nd=2)))
            e.update(min_q_from_mvar=-qa, max_q_from_mvar=qa, min_q_to_mvar=-qb, max_q_to_mvar=qb)
    # ext_grid.controllable must be a clean boolean column if it is there at all
    egs = [e for e in el if e["t"] == "ext_grid"]
    if any("controllable" in e for e in egs):
        for e in egs:
            e.setdefault("controllable", draw(st.booleans()))

    # branch loading limits: none / 100 % everywhere / a mix, plus one or two really tight branches in "tight" cases
    # (tight limits on every branch make most problems infeasible: measured 17 % convergence)
    style = draw(st.sampled_from(["none", "100", "mixed", "mixed", "tight", "tight"]))
    if not ac and _chance(rnd, cfg["tight_dc"]):
        style = "tight"         # DC OPF: binding flow limits are what makes the optimum depend on the network model
    branches = [e for e in el if e["t"] in ("line", "trafo", "trafo3w")]
    if style != "none":
        for e in branches:
            if style == "100":
                e["max_loading_percent"] = 100.0
            elif draw(st.integers(0, 2)):
                e["max_loading_percent"] = draw(st.sampled_from([100.0, 100.0, 120.0, 80.0]))
        if style == "tight" and branches:
            for _ in range(1 + int(_chance(rnd, cfg["tight_branch"])) + int(not ac and _chance(rnd, cfg["tight_branch"]))):
                e = branches[draw(st.integers(0, len(branches) - 1))]
                e["max_loading_percent"] = float(draw(st.integers(10, 70)))
                if not ac or draw(st.booleans()):
                    # a limit in the order of the power that is actually around (ratings are far above the generated loads)
                    if e["t"] == "line":
                        rate = e["max_i_ka"] * e.get("df", 1.0) * e.get("parallel", 1) * 3 ** 0.5 * recipe["buses"][e["from_bus"]]["vn_kv"]
                    elif e["t"] == "trafo":
                        rate = e["sn_mva"] * e.get("df", 1.0) * e.get("parallel", 1)
                    else:
                        rate = min(e["sn_hv_mva"], e["sn_mv_mva"], e["sn_lv_mva"])
                    pct = round(100.0 * draw(q(0.1, 0.9, nd=2)) * max(total, 0.01 * rate) / rate, 3)
                    e["max_loading_percent"] = min(max(pct, 0.5), 100.0)
    # bus voltage limits (equal within an electrical node)
    if cfg["bus_limits"]:
        style = draw(st.sampled_from(["none", "wide", "normal", "mixed", "mixed"]))
        bands = [(0.9, 1.1), (0.95, 1.05), (0.97, 1.03), (0.9, None), (None, 1.06), (None, None)]
        per_node = {}
        if style != "none":
            for i, b in enumerate(recipe["buses"]):
                n = node[i]
                if n not in per_node:
                    per_node[n] = {"wide": bands[0], "normal": bands[1]}.get(style) or draw(st.sampled_from(bands))
                lo, hi = per_node[n]
                if lo is not None:
                    b["min_vm_pu"] = lo
                if hi is not None:
                    b["max_vm_pu"] = hi
    # non-consecutive gen indices (the dcline cost mapping counts generator positions)
    gens = [e for e in el if e["t"] == "gen"]
    if gens and _chance(rnd, cfg["gen_index_gap"]):
        off = draw(st.sampled_from([1, 5]))
        for i, e in enumerate(gens):
            e["index"] = off + 2 * i
    return recipe


def _dispatchable(e):
    t = e["t"]
    if not e.get("in_service", True):
        return False
    if t in ("load", "sgen", "storage"):
        return bool(e.get("controllable", False))
    if t == "gen":
        return e.get("controllable", True) is not False
    return t in ("ext_grid", "dcline")


@st.composite
def opf_costs(draw, recipe, cfg, ac, rnd):
    el = recipe["el"]
    quad = _chance(rnd, cfg["quad"])
    pwl = (not quad) and _chance(rnd, cfg["pwl"])
    qcost = ac and _chance(rnd, cfg["q_cost"])
    even_cons = _chance(rnd, cfg["even_on_consumers"])
    costs = []
    count = {}
    seen_slack = False
    for e in el:
        t = e["t"]
        if t not in COST_ETS:
            continue
        k = count.get(t, 0)
        count[t] = k + 1
        disp = _dispatchable(e)
        is_first_slack = (t == "ext_grid" or (t == "gen" and e.get("slack"))) and not seen_slack
        seen_slack = seen_slack or is_first_slack
        is_slack = t == "ext_grid" or (t == "gen" and e.get("slack"))   # reactive power of a slack is practically unbounded
        # the first slack nearly always carries a cost: otherwise balancing energy is free and most problems are degenerate
        if not _chance(rnd, 0.9 if is_first_slack else (cfg["cost_prob"] if disp else cfg["fixed_cost"])):
            continue
        S = _level_s(recipe, e["bus"] if "bus" in e else e["from_bus"])
        consumer = t in ("load", "storage", "dcline")
        sign = -1.0 if t in ("load", "storage") else 1.0      # a load's benefit is a negative cost
        if t == "dcline":
            base = draw(q(0.0, 3.0, nd=1))                        # transmission fee
        else:
            base = sign * draw(q(1.0, 60.0, nd=1)) if draw(st.integers(0, 7)) else -sign * draw(q(1.0, 20.0, nd=1))
        if pwl and draw(st.integers(0, 2)):
            lo = e.get("min_p_mw", None)
            hi = e.get("max_p_mw", None)
            if t == "dcline":
                lo, hi = 0.0, e["max_p_mw"]
            if lo is None or hi is None or abs(lo) > 1e5 or abs(hi) > 1e5:
                lo, hi = _r(-2 * S), _r(2 * S)
            if hi - lo < 1e-3 * S:
                hi = _r(lo + 0.1 * S)
            nseg = 1 if (consumer or not draw(st.integers(0, 2))) else draw(st.integers(2, 3))
            xs = [lo] + [_r(lo + (hi - lo) * j / nseg) for j in range(1, nseg)] + [hi]
            slopes = [base]
            for _ in range(nseg - 1):
                slopes.append(_r(slopes[-1] + abs(base) * draw(q(0.1, 1.0, nd=1)) + 0.1))
            costs.append({"kind": "pwl", "et": t, "k": k, "power_type": "p",
                          "points": [[xs[j], xs[j + 1], slopes[j]] for j in range(nseg)]})
            if qcost and t != "dcline" and not is_slack and draw(st.booleans()):
                ql, qh = e.get("min_q_mvar", -S), e.get("max_q_mvar", S)
                if abs(ql) > 1e5 or abs(qh) > 1e5:
                    ql, qh = -S, S
                if qh - ql < 1e-3 * S:
                    qh = _r(ql + 0.1 * S)
                costs.append({"kind": "pwl", "et": t, "k": k, "power_type": "q",
                              "points": [[ql, qh, draw(q(-5.0, 5.0, nd=1))]]})
            continue
        c = {"kind": "poly", "et": t, "k": k, "cp1_eur_per_mw": base}
        even_ok = (not consumer) or even_cons
        if quad and even_ok and draw(st.integers(0, 3)):
            c["cp2_eur_per_mw2"] = _r(abs(base if base else 1.0) / S * draw(q(0.1, 3.0, nd=1)))
        if even_ok and _chance(rnd, cfg["const"]):
            c["cp0_eur"] = draw(q(-50.0, 50.0, nd=1))
        if qcost and t != "dcline" and not is_slack and draw(st.integers(0, 1)):
            c["cq1_eur_per_mvar"] = draw(q(-5.0, 5.0, nd=1))
            if quad and even_ok and draw(st.integers(0, 1)):
                c["cq2_eur_per_mvar2"] = _r(5.0 / S * draw(q(0.1, 2.0, nd=1)))
            if even_ok and _chance(rnd, cfg["const"]):
                c["cq0_eur"] = draw(q(-20.0, 20.0, nd=1))
        costs.append(c)
    return costs


@st.composite
def opf_case(draw, cfg=None, profile=None):
    cfg = dict(DEFAULT_CFG, **(cfg or {}))
    recipe = draw(netgen.grid(profile or PROFILE))
    rnd = draw(st.randoms(use_true_random=True))
    ac = not _chance(rnd, cfg["p_dc"])
    recipe = draw(opf_data(recipe, cfg, rnd, ac))
    if ac:
        opt = {"mode": "ac", "init": draw(st.sampled_from(["flat", "flat", "pf"])),
               "calculate_voltage_angles": draw(st.sampled_from([True, True, False]))}
    else:
        opt = {"mode": "dc"}
    costs = draw(opf_costs(recipe, cfg, ac, rnd))
    return {"recipe": recipe, "costs": costs, "opt": opt}


# ---------------------------------------------------------------------------------------------------------------------
# building and running

def build(case):
    """-> (net, maps) with the cost tables filled through the public create_*_cost API"""
    import pandapower as pp
    net, maps = netgen.build(case["recipe"])
    for c in case["costs"]:
        idx = maps[c["et"]][c["k"]]
        if c["kind"] == "poly":
            kw = {k: v for k, v in c.items() if k not in ("kind", "et", "k")}
            pp.create_poly_cost(net, idx, c["et"], **kw)
        else:
            pp.create_pwl_cost(net, idx, c["et"], [list(p) for p in c["points"]], power_type=c["power_type"])
    return net, maps


TIGHT = dict(PDIPM_COMPTOL=1e-10, PDIPM_COSTTOL=1e-10, PDIPM_GRADTOL=1e-9, OPF_VIOLATION=5e-9, PDIPM_MAX_IT=400)


def run_opf(net, opt, tight=False):
    """tight=True: documented solver tolerances 1000x smaller (used to re-evaluate a deviation that may be a tolerance effect)"""
    import pandapower as pp
    kw = dict(TIGHT) if tight else {}
    if opt["mode"] == "dc":
        pp.rundcopp(net, **kw)
    else:
        pp.runopp(net, init=opt.get("init", "flat"), calculate_voltage_angles=opt.get("calculate_voltage_angles", True), **kw)


def opf_outcome(e):
    """classify an exception of runopp/rundcopp on a generated problem: ("skip", reason) or ("fail", signature)"""
    from pbt.core import exc_sig
    name = type(e).__name__
    if name in ("OPFNotConverged", "LoadflowNotConverged"):
        return "skip", "not-converged"
    if isinstance(e, (UserWarning, NotImplementedError)):
        return "skip", "rejected:" + exc_sig(e)
    return "fail", "crash/" + exc_sig(e)


# ---------------------------------------------------------------------------------------------------------------------
# the user's cost functions, evaluated independently of pandapower (doc/opf/formulation.rst, create_poly_cost / create_pwl_cost)

def poly_value(c, p, qv):
    v = c.get("cp2_eur_per_mw2", 0.0) * p * p + c.get("cp1_eur_per_mw", 0.0) * p + c.get("cp0_eur", 0.0)
    if qv is not None:
        v += c.get("cq2_eur_per_mvar2", 0.0) * qv * qv + c.get("cq1_eur_per_mvar", 0.0) * qv + c.get("cq0_eur", 0.0)
    return v


def pwl_value(points, x):
    """points [[x0, x1, slope0], [x1, x2, slope1], ...]: continuous, slope_i between x_i and x_i+1, the first segment is the
    straight line through the origin (doc: 'zero when the feed in is zero'), outer segments extended"""
    x0, _, s0 = points[0]
    v = s0 * x0
    if x <= x0:
        return v + s0 * (x - x0)
    for i, (lo, hi, s) in enumerate(points):
        if x <= hi or i == len(points) - 1:
            return v + s * (x - lo)
        v += s * (hi - lo)
    return v


def result_power(net, et, idx, ac):
    """the element's own result power (dcline: power at the from bus, as documented)"""
    if et == "dcline":
        return float(net.res_dcline.at[idx, "p_from_mw"]), None
    r = net["res_" + et]
    p = float(r.at[idx, "p_mw"])
    qv = float(r.at[idx, "q_mvar"]) if ac else None
    return p, qv


def user_cost(net, maps, costs, ac):
    """sum of the user's cost functions at the result powers; returns (total, parts)"""
    total = 0.0
    parts = []
    for c in costs:
        idx = maps[c["et"]][c["k"]]
        p, qv = result_power(net, c["et"], idx, ac)
        if c["kind"] == "poly":
            v = poly_value(c, p, qv)
        elif c["power_type"] == "p":
            v = pwl_value(c["points"], p)
        else:
            v = pwl_value(c["points"], qv) if qv is not None else 0.0
        parts.append((c["et"], int(idx), c["kind"], p, qv, v))
        total += v
    return total, parts


def energized_buses(net, components=False):
    """own connectivity search on the tables: buses connected to an in-service slack (ext_grid or slack gen) through closed
    switches and in-service branches (dclines do not energize, as in the power flow); components=True: bus -> island label"""
    ok = {b: bool(net.bus.at[b, "in_service"]) for b in net.bus.index}
    adj = {b: set() for b in net.bus.index}

    def link(a, b):
        if ok.get(a) and ok.get(b):
            adj[a].add(b)
            adj[b].add(a)
    sw = net.switch
    open_el = {"l": {}, "t": {}, "t3": {}}
    for i in sw.index:
        et = sw.at[i, "et"]
        if et == "b":
            if bool(sw.at[i, "closed"]):
                link(sw.at[i, "bus"], sw.at[i, "element"])
        elif not bool(sw.at[i, "closed"]):
            open_el[et].setdefault(sw.at[i, "element"], set()).add(sw.at[i, "bus"])
    for tab, et, cols in (("line", "l", ("from_bus", "to_bus")), ("trafo", "t", ("hv_bus", "lv_bus")),
                          ("trafo3w", "t3", ("hv_bus", "mv_bus", "lv_bus")), ("impedance", None, ("from_bus", "to_bus"))):
        for i in net[tab].index:
            if not bool(net[tab].at[i, "in_service"]):
                continue
            ends = [net[tab].at[i, c] for c in cols]
            opened = open_el.get(et, {}).get(i, set()) if et else set()
            ends = [b for b in ends if b not in opened]
            for a in ends[1:]:
                link(ends[0], a)
    start = [net.ext_grid.at[i, "bus"] for i in net.ext_grid.index if net.ext_grid.at[i, "in_service"]]
    start += [net.gen.at[i, "bus"] for i in net.gen.index if net.gen.at[i, "in_service"] and bool(net.gen.at[i, "slack"])]
    comp = {}
    for s0 in start:
        if not ok.get(s0) or s0 in comp:
            continue
        stack = [s0]
        while stack:
            a = stack.pop()
            if a in comp:
                continue
            comp[a] = s0
            stack.extend(adj[a] - set(comp))
    return comp if components else set(comp)


def dcline_dead_terminal(net):
    """an in-service dcline with a terminal at a bus that is out of service or not connected to a slack"""
    if not len(net.dcline):
        return False
    live = energized_buses(net)
    return any(bool(net.dcline.at[i, "in_service"]) and not (net.dcline.at[i, "from_bus"] in live and net.dcline.at[i, "to_bus"] in live)
               for i in net.dcline.index)


def cost_entries_dispatched(case, net, maps):
    """per cost entry: is its element a variable of the optimisation?  (in service, at an energized bus - own connectivity
    search -, and controllable where the element type needs the flag; ext_grid, gen and dcline always are)"""
    live = energized_buses(net)
    by_type = {}
    for e in case["recipe"]["el"]:
        by_type.setdefault(e["t"], []).append(e)
    out = []
    for c in case["costs"]:
        e = by_type[c["et"]][c["k"]]
        idx = maps[c["et"]][c["k"]]
        if c["et"] == "dcline":
            buses = [net.dcline.at[idx, "from_bus"], net.dcline.at[idx, "to_bus"]]
        else:
            buses = [net[c["et"]].at[idx, "bus"]]
        out.append(bool(_dispatchable(e)) and all(b in live for b in buses))
    return out


def is_costs_only_on_undispatched(case, net, maps):
    return bool(case["costs"]) and not any(cost_entries_dispatched(case, net, maps))
