"""C15 - Parallel contingency analysis equals the sequential analysis (DESIGN.md sec. 2, C15)."""
import copy
import math
import pickle
import signal

import numpy as np
from hypothesis import strategies as st

from pbt import c14_conting as cg
from pbt.core import Result, silence, exc_sig

ID = "C15"
LEVEL = "exploration"
EXAMPLES = {"quick": 320, "thorough": 9000}
DEADLINE_S = {"quick": 600, "thorough": 3000}
# Hypothesis needs minutes to shrink a network recipe + case list (each attempt re-draws the grid); the quick tier
# reports the smallest failing case found instead (hand-reduced witnesses are in replays/)
NO_SHRINK = {"quick": True, "thorough": False}
POOL_TIMEOUT_S = 600
REAL_POOLS = {"quick": 2, "thorough": 24}
RULE = ("Cases as for C14 (meshed networks, ordered N-1 case dict over lines/trafos/trafo3w, limits, options) plus a "
        "parallel mode: 'pool' = run_contingency_parallel with a real multiprocessing pool and n_procs in {2,3} (2 "
        "generated cases per quick run, 24 per thorough run, enumerated from VERIF_SEED) or n_procs=1 (1 in 8 "
        "generated cases); 'sched' = schedule exploration: the multiprocessing module seen by contingency_parallel is "
        "replaced by a shim whose Pool.map runs the worker function per task (pickle round trip of the worker partial "
        "and of its result pack, as a real pool does) and hands the result packs to the aggregation loop in a drawn "
        "permutation (completion order). Oracle (differential): the returned dict equals the one of run_contingency on "
        "a deep copy - same tables and keys, index, N-0 values, max/min (NaN-aware), causes_overloading; cause_element/"
        "cause_index equal, or (ties) both valid according to a brute-force N-1 loop; same exception behaviour; the "
        "result tables equal the returned dict; in_service flags as before. "
        "Non-trivial = parallel path (n_procs > 1 or schedule) with >= 2 converged N-1 cases; distinct by case hash.")
ASSUMPTIONS = ["vm tolerance 1e-8 p.u., loading tolerance 1e-6 relative + 1e-7 absolute",
               "cause attribution is compared for branches whose maximum is finite and equal in both results",
               "Pool.map returns results in submission order; other completion orders are explored through the shim",
               "a pool run that does not return within 600 s is reported as a failure (never seen)",
               "n_procs=None (all cores) and the undocumented raise_errors switch are not generated"]
TECHNIQUE = ("property-based testing: generated networks/N-1 case lists x process counts x drawn completion orders + "
             "differential oracle (sequential run_contingency) with brute-force tie resolution")


@st.composite
def _case(draw, real_pool=False):
    case = draw(cg.contingency_case())
    if real_pool:
        par = {"mode": "pool", "n_procs": draw(st.sampled_from([2, 3]))}
    elif draw(st.sampled_from([False] * 7 + [True])):
        par = {"mode": "pool", "n_procs": 1}       # the module's own sequential path (no processes)
    else:
        par = {"mode": "sched", "perm": list(draw(st.permutations(list(range(cg.MAX_CASES)))))}
    case["par"] = par
    return case


def strategy(tier):
    return _case()


def enumerate_cases(tier):
    """the real process pools: a fixed small number of generated cases per run (a pool of forked workers costs
    20-60 s on the verification machine - copy-on-write page faults of the forked interpreter - and minutes when the
    machine is loaded), spread over the shards by the runner; seeded by VERIF_SEED; n_procs alternates 2, 3"""
    import os
    from hypothesis import given, settings, seed, HealthCheck, Phase
    try:
        vs = int(os.environ.get("VERIF_SEED", "1"))
    except ValueError:
        vs = 1
    out = []

    @seed(vs * 7919 + 15)
    @settings(max_examples=4 * REAL_POOLS[tier] + 4, database=None, deadline=None, phases=[Phase.generate],
              suppress_health_check=list(HealthCheck))
    @given(_case(real_pool=True))
    def collect(case):
        n_tasks = sum(len(ix) for _, ix in case["nm1"])
        if n_tasks >= 2 and len(out) < REAL_POOLS[tier]:
            case["par"]["n_procs"] = 2 + len(out) % 2
            out.append(case)
    collect()
    return out


class _ShimPool:
    """stands in for multiprocessing.Pool: same worker function, same pickling, harness-owned completion order"""

    def __init__(self, perm):
        self.perm = perm
        self.schedule = None

    def __call__(self, processes=None, *a, **kw):
        return self

    def __enter__(self):
        return self

    def __exit__(self, *a):
        return False

    def map(self, func, tasks, chunksize=None):
        tasks = list(tasks)
        blob = pickle.dumps(func)
        results = [pickle.loads(pickle.dumps(pickle.loads(blob)(t))) for t in tasks]
        self.schedule = [k for k in self.perm if k < len(tasks)]
        rest = [k for k in range(len(tasks)) if k not in self.schedule]
        self.schedule += rest
        return [results[k] for k in self.schedule]


class _ShimMp:
    def __init__(self, pool):
        self.Pool = pool

    @staticmethod
    def cpu_count():
        return 2


class _Timeout(Exception):
    pass


def _alarm(signum, frame):
    raise _Timeout()


def run_parallel(net, nm1, case):
    """-> (result dict | exception, aggregation order of the in-service tasks or None)"""
    import multiprocessing as mp
    import pandapower.contingency.contingency_parallel as cp
    par = case["par"]
    kw = cg.call_kwargs(case)
    if par["mode"] == "sched":
        pool = _ShimPool(par["perm"])
        real = cp.mp
        cp.mp = _ShimMp(pool)
        try:
            with silence():
                return cp.run_contingency_parallel(net, nm1, n_procs=2, **kw), pool.schedule
        except Exception as e:
            return e, pool.schedule
        finally:
            cp.mp = real
    # real pool: the runner's shard workers are daemonic (no children allowed) -> lift the flag for the call
    proc = mp.current_process()
    daemon = proc._config.get("daemon")
    proc._config["daemon"] = False
    old = None
    try:
        try:
            old = signal.signal(signal.SIGALRM, _alarm)
            signal.alarm(POOL_TIMEOUT_S)
        except ValueError:      # not in the main thread
            old = None
        with silence():
            return cp.run_contingency_parallel(net, nm1, n_procs=int(par["n_procs"]), **kw), None
    except Exception as e:
        return e, None
    finally:
        if old is not None:
            signal.alarm(0)
            signal.signal(signal.SIGALRM, old)
        proc._config["daemon"] = daemon


def check(case):
    from pandapower.contingency import run_contingency
    res = Result()
    net, maps, nm1, flat = cg.prepare(case)
    opt, par = case["opt"], case["par"]
    parallel_path = par["mode"] == "sched" or par["n_procs"] > 1
    res.label("mode:" + par["mode"], "fn:" + opt["fn"], "style:" + opt["style"], "write_to_net:%s" % opt["write_to_net"])
    if par["mode"] == "pool":
        res.label("n_procs:%d" % par["n_procs"])
    net0 = copy.deepcopy(net)
    flags0 = cg.in_service_flags(net0)
    tasks = [c for c in flat if bool(net0[c[0]].at[c[1], "in_service"])]

    net_s, net_p = copy.deepcopy(net0), net
    try:
        with silence():
            rs = run_contingency(net_s, nm1, **cg.call_kwargs(case))
    except Exception as e:
        rs = e
    rp, schedule = run_parallel(net_p, nm1, case)
    if isinstance(rp, _Timeout):
        res.fail("par/pool-timeout", seconds=POOL_TIMEOUT_S)
        return res
    if par["mode"] == "sched" and schedule is not None and schedule != sorted(schedule):
        res.label("schedule:permuted")

    if cg.in_service_flags(net_p) != flags0:
        res.fail("par/in_service-not-restored", raised=isinstance(rp, Exception))
    # ---- same exception behaviour (the N-0 power flow is not guarded in either function)
    if isinstance(rs, Exception) or isinstance(rp, Exception):
        if isinstance(rs, Exception) and isinstance(rp, Exception):
            if type(rs).__name__ != type(rp).__name__:
                res.fail("raise/different-exception", seq=repr(rs)[:200], par=repr(rp)[:200])
            res.skipped = "both-raise:" + type(rs).__name__
        elif isinstance(rp, Exception):
            res.fail("raise/only-parallel/" + exc_sig(rp), par=repr(rp)[:300])
        else:
            res.fail("raise/only-sequential/" + exc_sig(rs), seq=repr(rs)[:300])
        return res

    if sorted(rs.keys()) != sorted(rp.keys()):
        res.fail("keys/tables", seq=sorted(rs.keys()), par=sorted(rp.keys()))
        return res
    bf_cache = {}

    def brute(order):
        """converged brute-force records in the given aggregation order (computed only when causes differ)"""
        if "bf" not in bf_cache:
            bf_cache["bf"] = {r["case"]: r for r in cg.brute_force(net0, tasks, case)}
        return [bf_cache["bf"][c] for c in order if bf_cache["bf"][c]["status"] == "ok"]

    order_s = tasks
    order_p = [tasks[k] for k in schedule] if schedule is not None and len(schedule) == len(tasks) else tasks
    for t in sorted(rs.keys()):
        a, b = rs[t], rp[t]
        index = list(net0[t].index)
        rel, ab = cg.tol_of(t)
        if sorted(a.keys()) != sorted(b.keys()):
            res.fail("keys/%s" % ("bus" if t == "bus" else "branch"), table=t, only_seq=sorted(set(a) - set(b)),
                     only_par=sorted(set(b) - set(a)))
        if list(a["index"]) != list(b["index"]):
            res.fail("index-differs", table=t)
            continue
        ins = net0[t].in_service.values.astype(bool)
        listed = np.array([(t, i) in tasks for i in index], dtype=bool)
        for key in sorted(set(a) & set(b)):
            if key in ("index", "cause_element", "cause_index"):
                continue
            if key == "causes_overloading":
                if not np.array_equal(np.asarray(a[key], dtype=bool), np.asarray(b[key], dtype=bool)):
                    k = int(np.argmax(np.asarray(a[key], dtype=bool) != np.asarray(b[key], dtype=bool)))
                    res.fail("causes_overloading-differs", table=t, index=index[k], seq=bool(a[key][k]), par=bool(b[key][k]))
                continue
            va, vb = np.asarray(a[key], dtype=float), np.asarray(b[key], dtype=float)
            okm = cg.close_arr(va, vb, rel, ab)
            if okm.all():
                continue
            if not key.startswith(("max_", "min_")):
                k = int(np.argmin(okm))
                res.fail("n0-differs/" + key, table=t, index=index[k], seq=float(va[k]), par=float(vb[k]))
                continue
            # an element that is out of service in the evaluated state (own outage / out of service in the input) reports
            # 0 (energised terminals): did the parallel aggregation count that state?
            f = np.fmax if key.startswith("max_") else np.fmin
            with_zero = f(va, np.zeros_like(va))
            counted = ~okm & (~ins | listed) & cg.close_arr(vb, with_zero, rel, ab)
            other = ~okm & ~counted
            if counted.any():
                k = int(np.argmax(counted))
                res.fail("par/out-of-service-state-counted", key=key, table=t, index=index[k], seq=float(va[k]),
                         par=float(vb[k]), own_outage=bool(listed[k]), in_service=bool(ins[k]), mode=par["mode"])
            if other.any():
                k = int(np.argmax(other))
                res.fail("extremes-differ/" + key, table=t, index=index[k], seq=float(va[k]), par=float(vb[k]))
        if t == "bus" or "max_loading_percent" not in a or "max_loading_percent" not in b:
            continue
        # ---- cause attribution
        ma, mb = np.asarray(a["max_loading_percent"], dtype=float), np.asarray(b["max_loading_percent"], dtype=float)
        for pos, idx in enumerate(index):
            if math.isnan(ma[pos]) or math.isnan(mb[pos]) or not cg.close_arr([ma[pos]], [mb[pos]], rel, ab)[0]:
                continue
            ca = (a["cause_element"][pos], a["cause_index"][pos])
            cb = (b["cause_element"][pos], b["cause_index"][pos])
            if isinstance(ca[0], str) and isinstance(cb[0], str) and ca[0] == cb[0] and int(ca[1]) == int(cb[1]):
                continue
            if not isinstance(ca[0], str) and not isinstance(cb[0], str):
                continue        # unset in both
            sa, nan_a = cg.cause_status(t, pos, idx, ca[0], ca[1], float(ma[pos]), brute(order_s))
            sb, nan_b = cg.cause_status(t, pos, idx, cb[0], cb[1], float(mb[pos]), brute(order_p))
            if sa == "valid" and sb == "valid":
                vals = {(r["case"][0], int(r["case"][1])): float(r["vals"][t][pos]) for r in brute(order_s) if r["vals"] is not None}
                exact = vals.get((ca[0], int(ca[1]))) is not None and vals.get((ca[0], int(ca[1]))) == vals.get((cb[0], int(cb[1])))
                if exact and [list(c) for c in order_s] == [list(c) for c in order_p]:
                    # an exact tie (own N-1 loop gives bit-identical loadings) and both runs saw the cases in the same order:
                    # "the same results" includes which of the tied cases is named
                    res.fail("cause-differs/tie-resolved-differently-for-the-same-case-order", element=[t, idx],
                             seq=[repr(ca[0]), _int(ca)], par=[repr(cb[0]), _int(cb)], max=float(ma[pos]), mode=par["mode"])
                    continue
                res.label("cause-tie-resolved-differently")
                continue
            _, nan_b2 = cg.cause_status(t, pos, idx, cb[0], cb[1], float(mb[pos]), brute(order_p), in_service_mask=False)
            if (sa != "valid" and nan_a) or (sb != "valid" and (nan_b or nan_b2)):
                sig = "cause-differs/stale-after-nan-running-max"
            elif sa == "valid" and sb == "self":
                sig = "cause-differs/par-own-outage-named"
            else:
                sig = "cause-differs/other"
            res.fail(sig, element=[t, idx], seq=[repr(ca[0]), _int(ca)], par=[repr(cb[0]), _int(cb)], seq_status=sa,
                     par_status=sb, max=float(ma[pos]), order_seq=[list(c) for c in order_s],
                     order_par=[list(c) for c in order_p],
                     loading_per_case=[[list(r["case"]), float(r["vals"][t][pos])] for r in brute(order_s)])
    # ---- result tables of the parallel run equal its returned dict
    for t in sorted(rp.keys()):
        cg.check_written(res, net_p, rp, t, list(net0[t].index), opt["write_to_net"], prefix="par/write_to_net")

    # number of converged N-1 cases (non-triviality rule): own N-1 loop
    n_conv = len(brute(tasks))
    res.label("cases-converged:%s" % ("0" if n_conv == 0 else "1" if n_conv == 1 else "2+"))
    if any(r["status"] == "failed" for r in bf_cache["bf"].values()):
        res.label("some-case-not-converged")
    res.label("tasks:%s" % ("0-1" if len(tasks) <= 1 else "2-3" if len(tasks) <= 3 else "4+"))
    for k in sorted({c[0] for c in tasks}):
        res.label("case-type:" + k)
    if len(tasks) < len(flat):
        res.label("case-out-of-service(skipped)")
    if (~net0.line.in_service).any() or (len(net0.trafo) and (~net0.trafo.in_service).any()):
        res.label("branch-out-of-service-in-input")
    res.nontrivial = bool(parallel_path and n_conv >= 2)
    return res


def _int(c):
    return int(c[1]) if isinstance(c[0], str) else None
