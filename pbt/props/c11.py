"""C11 - Three-phase power flow is consistent with the symmetric power flow (DESIGN.md sec. 2, C11)."""
import cmath
import math

from hypothesis import strategies as st

from pbt import netgen, oracles, refmodel
from pbt.core import Result, pf_tol, silence, pf_outcome

ID = "C11"
LEVEL = "exploration"
EXAMPLES = {"quick": 480, "thorough": 8000}
DEADLINE_S = {"quick": 900, "thorough": 3600}
SHRINK_S = {"quick": 30, "thorough": 120}
RULE = ("Hypothesis draws a network recipe of the '3ph' family (1-3 voltage levels, <= 9 buses, ext_grids with "
        "s_sc_max/rx_max/r0x0_max/x0x_max, lines with r0/x0/c0, 2W transformers with vk0/vkr0/mag0_percent/mag0_rx/"
        "si0_hv_partial and vector group YNyn (shift 0/180) or Dyn/Yzn (shift +-30/150), taps, parallel, symmetric "
        "load/sgen/storage (load/sgen wye or delta), asymmetric_load/asymmetric_sgen wye or delta, scaling incl. 0, "
        "out-of-service parts, fused buses, open switches, second ext_grid, custom bus index) and runs runpp_3ph "
        "(trafo_model 't', calculate_voltage_angles on/off, numba on/off). A third of the recipes is made balanced (all "
        "asymmetric elements get equal phases; recipes without asymmetric elements are balanced anyway). Shapes of the "
        "classified defects (demand at the ext_grid node, storage, ext_grid zero-sequence data != negative-sequence data, "
        "two ext_grids on one node, line at an out-of-service bus, nothing but slack buses energized) are removed by "
        "construction in most cases, a minority still hits each of them. "
        "Oracle B (every converged case): per element p_a+p_b+p_c = input total*scaling (res_load/sgen/storage_3ph "
        "carry the total); per electrical node and phase: sum of element phase powers (wye: reported phase value, "
        "symmetric element: total/3, delta: phase-earth power from the documented line-line conversion with the "
        "reported phase voltages) + sum of branch terminal phase powers = 0; res_bus_3ph.p_x/q_x = sum of the reported "
        "element phase values; reported line/trafo phase currents = |S_x|/|V_x|; branch losses pl_x = p_x_from+p_x_to. "
        "Oracle A (balanced recipes, runpp with the same options on the same net): vm_a=vm_b=vm_c=vm_pu, "
        "va_{a,b,c}=va+{0,-120,+120}, line/trafo/ext_grid phase powers = 1/3 of the symmetric results, phase currents "
        "and loading = symmetric values, unbalance_percent ~ 0. "
        "Oracle C (every converged case, independent reference pbt/refmodel.py + documented sequence models): the sequence "
        "currents derived from the reported phase powers/voltages of every line (0/1/2: pi sections from r0,x0,c0 resp. r,x,c,g) "
        "and every transformer (1/2: T-model with taps, shift reversed in the negative sequence) equal the model currents at "
        "the reported voltages. "
        "Non-trivial = runpp_3ph converged, some energized node carries a bus element and (balanced: runpp converged "
        "too and a branch carries power; unbalanced: >= 1 in-service asymmetric element with unequal phases at an "
        "energized bus); distinct by case hash.")
ASSUMPTIONS = ["runpp_3ph stops its outer loop at a fixed 3e-8 p.u. positive-sequence power mismatch: power tolerance "
               "2e-6 MVA * max(1, sn_mva) + 1e-6 relative (node scale) for balanced and 10x that for unbalanced recipes, vm 2e-6 p.u., "
               "va 2e-4 degree, currents 1e-5 relative + 1e-7 kA",
               "recipes in which an energized bus has no zero-sequence path to earth (e.g. a bus fed only through the HV side of a "
               "Dyn/Yzn transformer) are outside the domain ('modelled with earth return') and skipped",
               "documented limits respected: no gen, no trafo3w, no impedance/ward/shunt/motor/xward, no ZIP loads, no impedance "
               "switches, trafo_model 't', vector groups YNyn/Dyn/Yzn only",
               "delta elements: the reported phase values are line-line powers (doc asymmetric_load.rst); their phase-earth "
               "share is computed from the reported voltages with the documented conversion",
               "non-convergence (LoadflowNotConverged) and documented rejections are legal and counted as skipped",
               "a failure of oracle A is attributed to a root cause only if oracle B proved that cause on the same case (mismatch "
               "equals the storage power / the slack-node demand / (n-1)/n of the ext_grid sum / one common zero-sequence current)",
               "the zero-sequence transformer model (vector-group dependent) is not re-derived: oracle C checks transformers in the "
               "positive and negative sequence only"]

LEVEL_SETS = [[20.0, 0.4], [10.0, 0.4], [0.4], [110.0, 20.0], [20.0, 0.4], [20.0], [110.0, 10.0], [110.0, 20.0, 0.4], [10.0],
              [10.0, 0.4], [110.0, 20.0, 0.4]]
_BASE = dict(
    level_sets=LEVEL_SETS,
    bus_kinds={"load": 5, "sgen": 3, "gen": 0, "storage": 3, "shunt": 0, "ward": 0, "xward": 0, "motor": 0,
               "asymmetric_load": 5, "asymmetric_sgen": 3},
    branch_kinds={"line": 8, "impedance": 0, "bb": 1}, extra_branches=(0, 2),
    trafo3w=False, zip=False, switch_z=False, dcline=False, slack_gen=False, gen_qlims=False,
    oos=0.06, open_prob=0.25, noslack_island=True, second_slack=3,
    sn_choices=(1.0, 1.0, 10.0, 0.5, 100.0))
PROFILES = {"quick": netgen.profile(nb_level=(1, 4), nb_max=9, **_BASE),
            "thorough": netgen.profile(nb_level=(1, 5), nb_max=12, **_BASE)}

PHASES = ("a", "b", "c")
PTOL, PREL, VM_TOL, VA_TOL = 2e-6, 1e-6, 2e-6, 2e-4     # see ASSUMPTIONS
MAX_IT = 60
A120 = cmath.exp(2j * math.pi / 3)


# ---------------------------------------------------------------------------------------------------------
# generator

@st.composite
def _decorate(draw, recipe):
    """zero-sequence / short-circuit data required by runpp_3ph (all drawn, documented value ranges)"""
    q = netgen.q
    for e in recipe["el"]:
        t = e["t"]
        if t == "ext_grid":
            vn = recipe["buses"][e["bus"]]["vn_kv"]
            e.update(s_sc_max_mva=float(draw(st.sampled_from([100.0, 500.0, 1000.0, 5000.0]))) * (0.1 if vn < 1 else 1.0),
                     rx_max=draw(q(0.05, 0.6, nd=2)), r0x0_max=draw(q(0.05, 0.6, nd=2)), x0x_max=draw(q(0.5, 3.0, nd=1)))
        elif t == "line":
            e.update(r0_ohm_per_km=round(e["r_ohm_per_km"] * draw(q(1.0, 4.0, nd=1)), 6),
                     x0_ohm_per_km=round(e["x_ohm_per_km"] * draw(q(1.0, 4.0, nd=1)), 6),
                     c0_nf_per_km=round(e["c_nf_per_km"] * draw(q(0.3, 1.0, nd=1)), 4))
        elif t == "trafo":
            sh = e.get("shift_degree", 0.0)
            vg = "YNyn" if sh % 60 == 0 else draw(st.sampled_from(["Dyn", "Yzn"]))
            vk0 = round(e["vk_percent"] * draw(q(0.8, 1.0, nd=2)), 4)
            vkr0 = round(min(e["vkr_percent"] * draw(q(0.8, 1.2, nd=2)), vk0), 4)
            e.update(vector_group=vg, vk0_percent=vk0, vkr0_percent=vkr0,
                     mag0_percent=float(draw(st.sampled_from([10.0, 30.0, 100.0]))),
                     mag0_rx=draw(q(0.0, 0.4, nd=1)), si0_hv_partial=draw(q(0.1, 0.9, nd=1)))
        elif t in ("load", "sgen", "asymmetric_load", "asymmetric_sgen"):
            if draw(st.integers(0, 3)) == 0:
                e["type"] = "delta"
    return recipe


def live_part(recipe):
    """(live bus positions, slack nodes, live nodes): buses connected to an in-service ext_grid through in-service
    lines/trafos without an open switch and closed bus-bus switches (recipe level, conservative)"""
    buses = recipe["buses"]
    ins = [b.get("in_service", True) for b in buses]
    node = netgen.nodes_of(recipe)
    opened = set()
    for e in recipe["el"]:
        if e["t"] == "switch" and e["et"] != "b" and not e.get("closed", True):
            opened.add((netgen.ET_TABLE[e["et"]], e["element"]))
    par = list(range(len(buses)))

    def find(a):
        while par[a] != a:
            par[a] = par[par[a]]
            a = par[a]
        return a
    count = {}
    for e in recipe["el"]:
        t = e["t"]
        if t in ("line", "trafo"):
            k = count.get(t, 0)
            count[t] = k + 1
            a, b = (e["from_bus"], e["to_bus"]) if t == "line" else (e["hv_bus"], e["lv_bus"])
            if e.get("in_service", True) and (t, k) not in opened and ins[a] and ins[b]:
                par[find(a)] = find(b)
        elif t == "switch" and e["et"] == "b" and e.get("closed", True) and ins[e["bus"]] and ins[e["element"]]:
            par[find(e["bus"])] = find(e["element"])
    seeds = [e["bus"] for e in recipe["el"] if e["t"] == "ext_grid" and e.get("in_service", True) and ins[e["bus"]]]
    roots = {find(b) for b in seeds}
    live = {i for i in range(len(buses)) if find(i) in roots}
    return live, {node[b] for b in seeds}, {node[b] for b in live}


def zero_seq_floating(recipe):
    """True if an energized bus has no zero-sequence connection to earth: the three phase power flow is 'modelled with
    earth return' (docstring), phase-earth quantities at such a bus are undefined (the zero-sequence matrix is singular up
    to the 1e20 placeholder impedance). Earth references: ext_grid bus, every terminal of a YNyn transformer, LV terminal
    of a Dyn/Yzn transformer, (capacitively) both ends of a line with c0 > 0; zero-sequence connections: lines, closed
    bus-bus switches, YNyn transformers."""
    live, _, _ = live_part(recipe)
    opened = {(netgen.ET_TABLE[e["et"]], e["element"]) for e in recipe["el"]
              if e["t"] == "switch" and e["et"] != "b" and not e.get("closed", True)}
    par = list(range(len(recipe["buses"])))

    def find(a):
        while par[a] != a:
            par[a] = par[par[a]]
            a = par[a]
        return a
    earthed = set()
    count = {}
    for e in recipe["el"]:
        t = e["t"]
        if t in ("line", "trafo"):
            k = count.get(t, 0)
            count[t] = k + 1
            if not e.get("in_service", True) or (t, k) in opened:
                continue
            a, b = (e["from_bus"], e["to_bus"]) if t == "line" else (e["hv_bus"], e["lv_bus"])
            if a not in live or b not in live:
                continue
            if t == "line":
                par[find(a)] = find(b)
                if e.get("c0_nf_per_km", 0) > 0:
                    earthed.update((a, b))
            elif e.get("vector_group") == "YNyn":
                par[find(a)] = find(b)
                earthed.update((a, b))
            else:
                earthed.add(b)
        elif t == "switch" and e["et"] == "b" and e.get("closed", True) and e["bus"] in live and e["element"] in live:
            par[find(e["bus"])] = find(e["element"])
        elif t == "ext_grid" and e.get("in_service", True) and e["bus"] in live:
            earthed.add(e["bus"])
    roots = {find(b) for b in earthed}
    return any(find(b) not in roots for b in live)


@st.composite
def _case(draw, tier):
    recipe = draw(netgen.grid(PROFILES[tier]))
    recipe = draw(_decorate(recipe))
    balanced = draw(st.sampled_from([False, False, True]))
    # shapes of already classified defects are avoided by construction in most cases (a minority still hits them)
    often = lambda n: draw(st.sampled_from([True] * n + [False]))     # noqa: E731  (True = avoid the shape; shrinks to True)
    avoid = {"slack_elements": often(9), "storage": often(3), "eg_zero_seq": often(5), "oos_bus": often(7),
             "only_slack": often(12), "eg_same_node": often(5)}
    if avoid["oos_bus"]:
        for b in recipe["buses"]:
            b.pop("in_service", None)
    node = netgen.nodes_of(recipe)
    slack = {node[e["bus"]] for e in recipe["el"] if e["t"] == "ext_grid"}
    el = []
    eg_nodes = set()
    for e in recipe["el"]:
        if avoid["storage"] and e["t"] == "storage":
            e = dict(e, t="load", p_mw=abs(e["p_mw"]))
            e.pop("max_e_mwh", None)
        if avoid["slack_elements"] and e["t"] in ("load", "sgen", "storage", "asymmetric_load", "asymmetric_sgen") \
                and node[e["bus"]] in slack:
            continue
        if e["t"] == "ext_grid":
            if avoid["eg_same_node"] and node[e["bus"]] in eg_nodes:
                continue
            eg_nodes.add(node[e["bus"]])
            if avoid["eg_zero_seq"]:
                e = dict(e, x0x_max=1.0, r0x0_max=e["rx_max"])
        if balanced and e["t"].startswith("asymmetric"):
            e = dict(e, p_b_mw=e["p_a_mw"], p_c_mw=e["p_a_mw"], q_b_mvar=e["q_a_mvar"], q_c_mvar=e["q_a_mvar"])
        el.append(e)
    recipe["el"] = el
    if avoid["only_slack"]:
        live, slack_n, live_n = live_part(recipe)
        if live_n <= slack_n:     # nothing but slack nodes energized: put everything in service, close all switches
            for b in recipe["buses"]:
                b.pop("in_service", None)
            for e in recipe["el"]:
                if e["t"] in ("line", "trafo"):
                    e.pop("in_service", None)
                elif e["t"] == "switch":
                    e["closed"] = True
    netgen.normalize(recipe)      # one voltage setpoint per electrical node (fusing may have changed above)
    opt = {"calculate_voltage_angles": draw(st.sampled_from([True, True, True, False])),
           "numba": draw(st.sampled_from([True, True, True, False]))}
    return {"recipe": recipe, "opt": opt}


def strategy(tier):
    return _case(tier)


# ---------------------------------------------------------------------------------------------------------
# oracle helpers

def _nz(x):
    x = float(x)
    return 0.0 if math.isnan(x) else x


def is_balanced(recipe):
    for e in recipe["el"]:
        if e["t"].startswith("asymmetric") and e.get("in_service", True) and e.get("scaling", 1.0) != 0:
            if not (e["p_a_mw"] == e["p_b_mw"] == e["p_c_mw"] and e["q_a_mvar"] == e["q_b_mvar"] == e["q_c_mvar"]):
                return False
    return True


def phase_voltages_kv(net, bus):
    """complex phase-earth voltages [kV] from res_bus_3ph (None if the bus is not energized)"""
    r = net.res_bus_3ph.loc[bus]
    vn = net.bus.at[bus, "vn_kv"] / math.sqrt(3)
    out = []
    for x in PHASES:
        vm, va = float(r["vm_%s_pu" % x]), float(r["va_%s_degree" % x])
        if math.isnan(vm) or math.isnan(va):
            return None
        out.append(cmath.rect(vm * vn, math.radians(va)))
    return out


def delta_to_phase(S_ll, V):
    """documented delta model: line-line powers (S_ab, S_bc, S_ca) -> phase-earth powers at voltages V=(Va,Vb,Vc).
    I_ab = conj(S_ab/(Va-Vb)), ..., I_a = I_ab - I_ca, I_b = I_bc - I_ab, I_c = I_ca - I_bc, S_a = Va*conj(I_a)"""
    Va, Vb, Vc = V
    i_ab = (S_ll[0] / (Va - Vb)).conjugate()
    i_bc = (S_ll[1] / (Vb - Vc)).conjugate()
    i_ca = (S_ll[2] / (Vc - Va)).conjugate()
    ia, ib, ic = i_ab - i_ca, i_bc - i_ab, i_ca - i_bc
    return [Va * ia.conjugate(), Vb * ib.conjugate(), Vc * ic.conjugate()]


SYM = {"load": +1, "sgen": -1, "storage": +1}
ASYM = {"asymmetric_load": +1, "asymmetric_sgen": -1}
BRANCH_ENDS = {"line": (("from_bus", "from"), ("to_bus", "to")), "trafo": (("hv_bus", "hv"), ("lv_bus", "lv"))}


def reported_phase_values(net, tab, idx):
    """the three reported complex phase values of a bus element (generation/consumption sign as reported)"""
    res = net["res_%s_3ph" % tab]
    if idx not in res.index:
        return [0j, 0j, 0j]
    r = res.loc[idx]
    if tab in SYM:
        s = complex(_nz(r["p_mw"]), _nz(r["q_mvar"])) / 3.0
        return [s, s, s]
    return [complex(_nz(r["p_%s_mw" % x]), _nz(r["q_%s_mvar" % x])) for x in PHASES]


def element_phase_powers(net, tab, idx, V):
    """phase-earth consumption (load convention) of a bus element at phase voltages V"""
    sign = SYM.get(tab, ASYM.get(tab, -1))
    s = [sign * v for v in reported_phase_values(net, tab, idx)]
    typ = net[tab].at[idx, "type"] if tab != "storage" and tab != "ext_grid" and "type" in net[tab] else "wye"
    if typ == "delta" and any(abs(v) > 0 for v in s):
        s = delta_to_phase(s, V)
    return s


def _close(a, b, atol, rtol):
    return abs(a - b) <= atol + rtol * max(abs(a), abs(b))


def run_3ph(net, opt, sn):
    from pandapower.pf.runpp_3ph import runpp_3ph
    with silence():
        runpp_3ph(net, tolerance_mva=pf_tol(sn), max_iteration=MAX_IT, trafo_model="t", **opt)


def to_seq(x):
    """phase (a, b, c) -> sequence (0, 1, 2) components"""
    a = A120
    return [(x[0] + x[1] + x[2]) / 3.0, (x[0] + a * x[1] + a * a * x[2]) / 3.0, (x[0] + a * a * x[1] + a * x[2]) / 3.0]


def reported_seq_currents(rt, idx, side, Vb):
    """sequence currents [kA] into a branch terminal from the reported phase powers and phase voltages"""
    return to_seq([(complex(_nz(rt.at[idx, "p_%s_%s_mw" % (x, side)]), _nz(rt.at[idx, "q_%s_%s_mvar" % (x, side)])) / Vb[k]).conjugate()
                   for k, x in enumerate(PHASES)])


def line_seq_currents(net, idx, Vf012, Vt012):
    """documented line model (doc/elements/line.rst): three decoupled pi sections; positive = negative sequence from
    r/x/c/g, zero sequence from r0/x0/c0 -> ([If0, If1, If2], [It0, It1, It2]) in kA for phase-earth voltages in kV"""
    r = net.line.loc[idx]
    par, ln, w = int(r.parallel), float(r.length_km), 2 * math.pi * net.f_hz
    z1 = complex(r.r_ohm_per_km, r.x_ohm_per_km) * ln / par
    y1 = complex(refmodel._nan0(r.get("g_us_per_km")) * 1e-6, w * r.c_nf_per_km * 1e-9) * ln * par
    z0 = complex(r.r0_ohm_per_km, r.x0_ohm_per_km) * ln / par
    y0 = complex(0.0, w * r.c0_nf_per_km * 1e-9) * ln * par
    If, It = [], []
    for s, (z, y) in enumerate(((z0, y0), (z1, y1), (z1, y1))):
        If.append((Vf012[s] - Vt012[s]) / z + Vf012[s] * y / 2)
        It.append((Vt012[s] - Vf012[s]) / z + Vt012[s] * y / 2)
    return If, It


def trafo_seq_currents(net, idx, Vh012, Vl012, angles):
    """documented two-winding transformer model in the positive and the negative sequence (doc/powerflow/ac_3ph.rst:
    'shift is reversed in negative sequence') -> {1: (Ih, Il), 2: (Ih, Il)} in kA for phase-earth voltages in kV"""
    r = net.trafo.loc[idx]
    shift = float(r.shift_degree) if angles else 0.0
    vh, vl, sh = refmodel.tap_adjust(r.vn_hv_kv, r.vn_lv_kv, shift, r.get("tap_changer_type"), r.get("tap_side"), r.get("tap_pos"),
                                     r.get("tap_neutral"), r.get("tap_step_percent"), r.get("tap_step_degree"))
    rr = refmodel._nan0(r.get("leakage_resistance_ratio_hv"), 0.5) if "leakage_resistance_ratio_hv" in net.trafo else 0.5
    xr = refmodel._nan0(r.get("leakage_reactance_ratio_hv"), 0.5) if "leakage_reactance_ratio_hv" in net.trafo else 0.5
    out = {}
    for s, sgn in ((1, 1.0), (2, -1.0)):
        Vh, Vl = Vh012[s] * refmodel.SQ3, Vl012[s] * refmodel.SQ3
        if abs(Vh) == 0 or abs(Vl) == 0:
            out[s] = (0j, 0j)
            continue
        Sh, Sl = refmodel.trafo2w_core(Vh, Vl, r.sn_mva, vh, vl, sgn * sh, r.vk_percent, r.vkr_percent, r.pfe_kw, r.i0_percent,
                                       model="t", parallel=int(r.parallel), rr=rr, xr=xr)
        out[s] = ((Sh / (3 * Vh012[s])).conjugate(), (Sl / (3 * Vl012[s])).conjugate())
    return out


def classify_balance(net, bs, parts, mis, Vn, tol):
    """root-cause class of a per-phase balance failure, from facts about the node and the observed mismatch"""
    eg = net.ext_grid[net.ext_grid.bus.isin(bs) & net.ext_grid.in_service]
    is_slack = len(eg) > 0
    s_el = [sum(s[k] for w, s in parts if w.split(".")[0] in SYM or w.split(".")[0] in ASYM) for k in range(3)]
    small = lambda d: all(abs(x) <= 10 * tol for x in d)      # noqa: E731

    def zero_seq_current(d):
        # the residual is one common (zero-sequence) current in all three phases
        i = [(d[k] / Vn[k]).conjugate() for k in range(3)]
        m = sum(i) / 3.0
        return abs(m) > 0 and all(abs(x - m) <= 1e-3 * abs(m) + 10 * tol / abs(Vn[k]) for k, x in enumerate(i))
    if not is_slack:
        st_idx = net.storage.index[net.storage.bus.isin(bs) & net.storage.in_service]
        s_sto = sum((complex(net.storage.at[i, "p_mw"], net.storage.at[i, "q_mvar"]) * net.storage.at[i, "scaling"]
                     for i in st_idx), 0j) / 3.0
        if abs(s_sto) > 0 and small([m - s_sto for m in mis]):
            return "storage-ignored"          # the mismatch is exactly the storage power of the node
        cls = "other"
    else:
        eg0_differs = bool(((eg.x0x_max != 1.0) | (eg.r0x0_max != eg.rx_max)).any())
        s_eg = [sum(-s[k] for w, s in parts if w.startswith("ext_grid.")) for k in range(3)]
        # explainable terms: demand at the ext_grid node is left out of res_ext_grid_3ph; every ext_grid of a node
        # reports the whole node power; the rest is one common zero-sequence current (ext_grid zero-seq admittance)
        terms = []
        if any(abs(x) > 0 for x in s_el):
            terms.append(("slack-bus-demand", [-x for x in s_el]))
        if len(eg) > 1:
            terms.append(("slack-ext-grid-duplicated", [x * (len(eg) - 1) / len(eg) for x in s_eg]))
        for mask in sorted(range(1, 2 ** len(terms)), key=lambda m: bin(m).count("1")):
            names = [terms[i][0] for i in range(len(terms)) if mask >> i & 1]
            d = [mis[k] + sum(terms[i][1][k] for i in range(len(terms)) if mask >> i & 1) for k in range(3)]
            if small(d):
                return "+".join(names)
        if eg0_differs:
            for mask in sorted(range(0, 2 ** len(terms)), key=lambda m: bin(m).count("1")):
                names = [terms[i][0] for i in range(len(terms)) if mask >> i & 1]
                d = [mis[k] + sum(terms[i][1][k] for i in range(len(terms)) if mask >> i & 1) for k in range(3)]
                if zero_seq_current(d):
                    return "+".join(names + ["slack-zero-seq-admittance"])
        cls = "other-slack" + ("-n%d" % len(eg) if len(eg) > 1 else "")
    if any(len(net[tb]) and "type" in net[tb] and
           (net[tb].bus.isin(bs) & net[tb].in_service & (net[tb].type == "delta")).any() for tb in list(ASYM) + ["load", "sgen"]):
        cls += "-delta"
    return cls


# ---------------------------------------------------------------------------------------------------------
# check

def check(case):
    import pandapower as pp
    res = Result()
    recipe, opt = case["recipe"], case["opt"]
    sn = recipe.get("sn_mva", 1.0)
    balanced = is_balanced(recipe)
    res.label("balanced" if balanced else "unbalanced")
    if zero_seq_floating(recipe):
        res.skipped = "domain:zero-seq-floating-bus"
        return res
    net, maps = netgen.build(recipe)
    try:
        run_3ph(net, opt, sn)
    except Exception as e:
        kind, what = pf_outcome(e)
        if kind == "skip":
            res.skipped = "3ph:" + what
        else:
            live, slack_n, live_n = live_part(recipe)
            if live_n <= slack_n and "newtonpf" in what:
                what = "crash-only-slack-buses"     # runpp bypasses the solver here, runpp_3ph does not
                res.label("only-slack-buses")
            res.fail("3ph/" + what, error=repr(e)[:300], opt=opt)
        return res
    if not net.converged:
        res.skipped = "3ph:not-converged"
        return res
    eg_live = net.ext_grid.index[net.ext_grid.in_service & net.bus.in_service.reindex(net.ext_grid.bus).values]
    all_nan = bool(len(eg_live) and net.res_bus_3ph.vm_a_pu.loc[net.ext_grid.bus.loc[eg_live]].isna().all())
    oos = set(net.bus.index[~net.bus.in_service])
    ln = net.line[net.line.in_service]
    at_oos = bool((ln.from_bus.isin(oos) ^ ln.to_bus.isin(oos)).any())
    if at_oos:
        res.label("line-at-oos-bus")
    ppc1 = net.get("_ppc1")
    inner_failed = isinstance(ppc1, dict) and ppc1.get("iterations") == MAX_IT
    if all_nan and at_oos and opt["calculate_voltage_angles"]:
        # "converged" but not even the slack buses carry a voltage
        res.fail("3ph/nan-results/line-at-oos-bus", vm_a=[float(v) for v in net.res_bus_3ph.vm_a_pu.values][:6], opt=opt)
        return res
    if inner_failed:
        # the last inner Newton-Raphson run used up its iterations, i.e. the sequence iteration diverged, but no
        # LoadflowNotConverged was raised: the reported "solution" is NaN or arbitrary
        res.label("diverged")
        vm_eg = [[float(net.ext_grid.at[i, "vm_pu"]), float(net.res_bus_3ph.vm_a_pu.at[net.ext_grid.at[i, "bus"]])] for i in eg_live]
        res.fail("3ph/diverged-reported-converged", ext_grid_setpoint_vs_vm_a=vm_eg[:3], all_nan=all_nan, opt=opt)
        return res
    if all_nan:
        res.fail("3ph/nan-results/other", vm_a=[float(v) for v in net.res_bus_3ph.vm_a_pu.values][:6], opt=opt)
        return res

    # the outer loop of runpp_3ph only tests the positive-sequence mismatch (fixed 3e-8 p.u.): the negative / zero sequence
    # parts of an unbalanced case are left with a ~10x larger residual (it vanishes with a tighter outer tolerance)
    ptol = PTOL * max(1.0, sn) * (1.0 if balanced else 10.0)
    prel = PREL * (1.0 if balanced else 10.0)
    node = oracles.fused_nodes(net)
    groups = {}
    for b, n in node.items():
        groups.setdefault(n, []).append(b)
    V = {b: phase_voltages_kv(net, b) for b in net.bus.index}
    causes = set()

    # ---- labels on the input
    for tab in ("load", "sgen", "storage", "asymmetric_load", "asymmetric_sgen"):
        t = net[tab]
        if len(t) and t.in_service.any():
            res.label("has:" + tab)
            if "type" in t and (t.type[t.in_service] == "delta").any():
                res.label("delta:" + tab)
    for vg in set(net.trafo.vector_group[net.trafo.in_service]) if len(net.trafo) else ():
        res.label("vg:" + vg)
    if len(net.trafo) == 0:
        res.label("no-trafo")
    if (~net.switch.closed).any():
        res.label("open-switch")
    if any(len(g) > 1 for g in groups.values()):
        res.label("fused-node")
    if net.ext_grid.in_service.sum() > 1:
        res.label("two-ext-grids")
    if not opt["calculate_voltage_angles"]:
        res.label("angles-off")
    if any(v is None for v in V.values()):
        res.label("unsupplied-bus")
    res.label("levels:%d" % net.bus.vn_kv.nunique())

    # ---- B1: per element, phases sum to the (input) total
    unequal_live = False
    for tab, sign in list(SYM.items()) + list(ASYM.items()):
        t = net[tab]
        for idx in t.index:
            r = t.loc[idx]
            off = not bool(r.in_service) or not bool(net.bus.at[r.bus, "in_service"])
            live = not off and V[r.bus] is not None
            if not off and not live:
                continue       # in-service element at an unsupplied bus: the reported value is not specified
            sc = float(r.scaling) if live else 0.0
            if tab in SYM:
                exp = complex(r.p_mw, r.q_mvar) * sc
            else:
                exp = complex(r.p_a_mw + r.p_b_mw + r.p_c_mw, r.q_a_mvar + r.q_b_mvar + r.q_c_mvar) * sc
                if live and sc != 0 and not (r.p_a_mw == r.p_b_mw == r.p_c_mw and r.q_a_mvar == r.q_b_mvar == r.q_c_mvar):
                    unequal_live = True
            got = sum(reported_phase_values(net, tab, idx))
            if not _close(got, exp, ptol, prel):
                res.fail("B/element-total/%s/%s" % (tab, "live" if live else "out-of-service"), element=[tab, int(idx)],
                         reported_sum=[got.real, got.imag], expected=[exp.real, exp.imag])
            if tab in ASYM and live:
                # each reported phase value = input phase value * scaling (doc: "after scaling")
                rep = reported_phase_values(net, tab, idx)
                for k, x in enumerate(PHASES):
                    e1 = complex(r["p_%s_mw" % x], r["q_%s_mvar" % x]) * sc
                    if not _close(rep[k], e1, ptol, prel):
                        res.fail("B/element-phase/%s" % tab, element=[tab, int(idx)], phase=x,
                                 reported=[rep[k].real, rep[k].imag], expected=[e1.real, e1.imag])

    # ---- B2: nodal balance per phase
    has_element_node = False
    for n, buses in groups.items():
        if any(V[b] is None for b in buses):
            continue
        Vn = V[buses[0]]
        parts = []
        bs = set(buses)
        for tab in list(SYM) + list(ASYM):
            t = net[tab]
            for idx in t.index[t.bus.isin(bs)]:
                parts.append(("%s.%s" % (tab, idx), element_phase_powers(net, tab, idx, V[t.at[idx, "bus"]])))
        n_el = len([p for p in parts if any(abs(v) > 0 for v in p[1])])
        for idx in net.ext_grid.index[net.ext_grid.bus.isin(bs)]:
            parts.append(("ext_grid.%s" % idx, [-v for v in reported_phase_values(net, "ext_grid", idx)]))
        for tab, ends in BRANCH_ENDS.items():
            t = net[tab]
            rt = net["res_%s_3ph" % tab]
            for bcol, side in ends:
                for idx in t.index[t[bcol].isin(bs)]:
                    if idx in rt.index:
                        parts.append(("%s.%s.%s" % (tab, idx, side),
                                      [complex(_nz(rt.at[idx, "p_%s_%s_mw" % (x, side)]), _nz(rt.at[idx, "q_%s_%s_mvar" % (x, side)]))
                                       for x in PHASES]))
        if n_el:
            has_element_node = True
        scale = max([abs(v) for _, s in parts for v in s] + [0.0])
        tol = ptol + prel * scale
        mis = [sum(s[k] for _, s in parts) for k in range(3)]
        if max(abs(m) for m in mis) > tol:
            # root-cause classification from facts about the node and the observed mismatch
            cls = classify_balance(net, bs, parts, mis, Vn, tol)
            for c in cls.split("+"):       # one failure per (atomic) root cause that explains the mismatch
                causes.add(c)
                res.fail("B/balance/" + c, explained_by=cls, node=[int(b) for b in buses], mismatch_mva=[[m.real, m.imag] for m in mis], tol=tol,
                     parts=[(w, [[v.real, v.imag] for v in s]) for w, s in parts][:10], opt=opt)

    # ---- B3: res_bus_3ph p/q = sum of the reported element phase values (load convention)
    for b in net.bus.index:
        if V[b] is None:
            continue
        exp = [0j, 0j, 0j]
        for tab, sign in list(SYM.items()) + list(ASYM.items()) + [("ext_grid", -1)]:
            t = net[tab]
            for idx in t.index[t.bus == b]:
                rep = reported_phase_values(net, tab, idx)
                for k in range(3):
                    exp[k] += sign * rep[k]
        for k, x in enumerate(PHASES):
            got = complex(_nz(net.res_bus_3ph.at[b, "p_%s_mw" % x]), _nz(net.res_bus_3ph.at[b, "q_%s_mvar" % x]))
            if not _close(got, exp[k], ptol, prel):
                res.fail("B/res_bus", bus=int(b), phase=x, res_bus=[got.real, got.imag], element_sum=[exp[k].real, exp[k].imag])
                break

    # ---- B4: branch phase currents = |S|/|V| per phase, losses = from + to
    flow = False
    for tab, ends in BRANCH_ENDS.items():
        t = net[tab]
        rt = net["res_%s_3ph" % tab]
        for idx in t.index:
            if idx not in rt.index:
                continue
            tot = [0j, 0j, 0j]
            ok = True
            for bcol, side in ends:
                Vb = V[t.at[idx, bcol]]
                for k, x in enumerate(PHASES):
                    s = complex(_nz(rt.at[idx, "p_%s_%s_mw" % (x, side)]), _nz(rt.at[idx, "q_%s_%s_mvar" % (x, side)]))
                    tot[k] += s
                    if abs(s) > 100 * ptol:
                        flow = True
                    i_rep = rt.at[idx, "i_%s_%s_ka" % (x, side)]
                    if Vb is None or math.isnan(float(i_rep)):
                        ok = False
                        continue
                    i_exp = abs(s) / abs(Vb[k])
                    if abs(i_rep - i_exp) > 1e-7 + 1e-5 * max(i_exp, abs(i_rep)) + ptol / abs(Vb[k]):
                        res.fail("B/current/%s" % tab, element=[tab, int(idx)], side=side, phase=x, i_ka=float(i_rep), s_over_v=i_exp)
            if ok and tab == "line":
                for bcol, side in ends:
                    Vb = V[t.at[idx, bcol]]
                    i_c = [(complex(_nz(rt.at[idx, "p_%s_%s_mw" % (x, side)]), _nz(rt.at[idx, "q_%s_%s_mvar" % (x, side)])) / Vb[k]).conjugate()
                           for k, x in enumerate(PHASES)]
                    i_n, i_rep = abs(sum(i_c)), float(rt.at[idx, "i_n_%s_ka" % side])
                    if abs(i_n - i_rep) > 1e-7 + 1e-5 * max(abs(x) for x in i_c) + 3 * ptol / abs(Vb[0]):
                        res.fail("B/neutral-current/line", element=[tab, int(idx)], side=side, i_n_ka=i_rep, sum_of_phase_currents=i_n)
            if ok:
                for k, x in enumerate(PHASES):
                    pl = complex(_nz(rt.at[idx, "pl_%s_mw" % x]), _nz(rt.at[idx, "ql_%s_mvar" % x]))
                    if not _close(pl, tot[k], ptol, prel):
                        res.fail("B/loss/%s" % tab, element=[tab, int(idx)], phase=x, reported=[pl.real, pl.imag],
                                 from_plus_to=[tot[k].real, tot[k].imag])

    # a "solution" with a collapsed positive-sequence voltage that violates the balance is the end point of a diverged
    # sequence iteration (the outer criterion compares |S| magnitudes only, both vanish with V1 -> 0): one root cause
    v1_min = min([abs(to_seq(v)[1]) / (net.bus.at[b, "vn_kv"] / math.sqrt(3)) for b, v in V.items() if v is not None] + [1.0])
    if v1_min < 0.5 and any(sg.startswith("B/balance") for sg, _ in res.failures):
        res.label("diverged")
        first = res.failures[0]
        res.failures = []
        res.fail("3ph/diverged-reported-converged", min_v1_pu=v1_min, first_failure=[first[0], first[1].get("mismatch_mva")], opt=opt)
        return res

    # ---- C: reported branch flows follow the documented sequence models at the reported voltages
    sw_open = {(et, int(el)) for et, el, cl in zip(net.switch.et.values, net.switch.element.values, net.switch.closed.values)
               if et != "b" and not cl}
    for idx in net.line.index[net.line.in_service]:
        Vf, Vt = V[net.line.at[idx, "from_bus"]], V[net.line.at[idx, "to_bus"]]
        if Vf is None or Vt is None or ("l", int(idx)) in sw_open or idx not in net.res_line_3ph.index:
            continue
        ref = line_seq_currents(net, idx, to_seq(Vf), to_seq(Vt))
        for (side, Vb), ref_i in zip((("from", Vf), ("to", Vt)), ref):
            rep = reported_seq_currents(net.res_line_3ph, idx, side, Vb)
            scale = max(abs(x) for x in ref[0] + ref[1] + rep)
            for sq in range(3):
                if abs(rep[sq] - ref_i[sq]) > 1e-7 + 2e-5 * scale + ptol / abs(Vb[0]):
                    res.fail("C/line-seq%d" % sq, element=["line", int(idx)], side=side, reported_ka=[rep[sq].real, rep[sq].imag],
                             model_ka=[ref_i[sq].real, ref_i[sq].imag])
    for idx in net.trafo.index[net.trafo.in_service]:
        Vh, Vl = V[net.trafo.at[idx, "hv_bus"]], V[net.trafo.at[idx, "lv_bus"]]
        if Vh is None or Vl is None or ("t", int(idx)) in sw_open or idx not in net.res_trafo_3ph.index:
            continue
        ref = trafo_seq_currents(net, idx, to_seq(Vh), to_seq(Vl), opt["calculate_voltage_angles"])
        reps = {"hv": reported_seq_currents(net.res_trafo_3ph, idx, "hv", Vh), "lv": reported_seq_currents(net.res_trafo_3ph, idx, "lv", Vl)}
        for sq in (1, 2):
            for k, (side, Vb) in enumerate((("hv", Vh), ("lv", Vl))):
                scale = max(abs(ref[1][k]), abs(ref[2][k]), abs(reps[side][1]), abs(reps[side][2]))
                if abs(reps[side][sq] - ref[sq][k]) > 1e-7 + 2e-5 * scale + ptol / abs(Vb[0]):
                    res.fail("C/trafo-seq%d/%s" % (sq, net.trafo.at[idx, "vector_group"]), element=["trafo", int(idx)], side=side,
                             reported_ka=[reps[side][sq].real, reps[side][sq].imag], model_ka=[ref[sq][k].real, ref[sq][k].imag])

    if not balanced:
        res.nontrivial = bool(unequal_live and has_element_node)
        return res

    # ---- A: balanced recipe -> symmetric power flow on the same input
    net2, _ = netgen.build(recipe)
    try:
        with silence():
            pp.runpp(net2, tolerance_mva=pf_tol(sn), max_iteration=60, trafo_model="t", voltage_depend_loads=False, **opt)
    except Exception as e:
        kind, what = pf_outcome(e)
        if kind == "skip":
            res.skipped = "sym:" + what
        else:
            res.fail("sym/" + what, error=repr(e)[:300], opt=opt)
        return res
    bad = []     # (quantity class, detail)
    rb, rb3 = net2.res_bus, net.res_bus_3ph
    shift = {"a": 0.0, "b": -120.0, "c": 120.0}
    for b in net.bus.index:
        vm, va = float(rb.at[b, "vm_pu"]), float(rb.at[b, "va_degree"])
        dead = math.isnan(vm)
        if dead != (V[b] is None):
            bad.append(("energized", dict(bus=int(b), sym_vm=vm, ph_vm=float(rb3.at[b, "vm_a_pu"]))))
            continue
        if dead:
            continue
        for x in PHASES:
            vmx, vax = float(rb3.at[b, "vm_%s_pu" % x]), float(rb3.at[b, "va_%s_degree" % x])
            if abs(vmx - vm) > VM_TOL:
                bad.append(("vm", dict(bus=int(b), phase=x, sym=vm, ph=vmx)))
            d = (vax - va - shift[x] + 180.0) % 360.0 - 180.0
            if abs(d) > VA_TOL:
                bad.append(("va", dict(bus=int(b), phase=x, sym=va, ph=vax, expected_shift=shift[x])))
        ub = float(rb3.at[b, "unbalance_percent"])
        if not (ub <= 1e-4):
            bad.append(("unbalance", dict(bus=int(b), unbalance_percent=ub)))
    for tab, ends in BRANCH_ENDS.items():
        rs, r3 = net2["res_" + tab], net["res_%s_3ph" % tab]
        for idx in net[tab].index:
            if idx not in rs.index or idx not in r3.index:
                continue
            scale = max(abs(_nz(rs.at[idx, "p_%s_mw" % s])) + abs(_nz(rs.at[idx, "q_%s_mvar" % s])) for _, s in ends)
            for bcol, side in ends:
                s_sym = complex(_nz(rs.at[idx, "p_%s_mw" % side]), _nz(rs.at[idx, "q_%s_mvar" % side])) / 3.0
                i_sym = _nz(rs.at[idx, "i_%s_ka" % side])
                vb = V[net[tab].at[idx, bcol]]
                for k, x in enumerate(PHASES):
                    s3 = complex(_nz(r3.at[idx, "p_%s_%s_mw" % (x, side)]), _nz(r3.at[idx, "q_%s_%s_mvar" % (x, side)]))
                    if abs(s3 - s_sym) > ptol + prel * scale:
                        bad.append((tab + "-power", dict(element=int(idx), side=side, phase=x, sym_third=[s_sym.real, s_sym.imag],
                                                         ph=[s3.real, s3.imag])))
                    i3 = _nz(r3.at[idx, "i_%s_%s_ka" % (x, side)])
                    itol = 1e-7 + 1e-5 * max(i3, i_sym) + (ptol / abs(vb[k]) if vb else 0.0)
                    if abs(i3 - i_sym) > itol:
                        bad.append((tab + "-current", dict(element=int(idx), side=side, phase=x, sym=i_sym, ph=i3)))
            l_sym, l3 = _nz(rs.at[idx, "loading_percent"]), _nz(r3.at[idx, "loading_percent"])
            if math.isfinite(l_sym) and abs(l3 - l_sym) > 1e-3 + 1e-4 * max(l3, l_sym):
                bad.append((tab + "-loading", dict(element=int(idx), sym=l_sym, ph=l3)))
            if abs(scale) > 100 * ptol:
                flow = True
    for idx in net.ext_grid.index:
        if idx not in net2.res_ext_grid.index:
            continue
        s_sym = complex(_nz(net2.res_ext_grid.at[idx, "p_mw"]), _nz(net2.res_ext_grid.at[idx, "q_mvar"])) / 3.0
        rep = reported_phase_values(net, "ext_grid", idx)
        for k, x in enumerate(PHASES):
            if abs(rep[k] - s_sym) > ptol + prel * abs(s_sym):
                bad.append(("ext_grid-power", dict(element=int(idx), phase=x, sym_third=[s_sym.real, s_sym.imag],
                                                   ph=[rep[k].real, rep[k].imag])))
                break
    if opt["calculate_voltage_angles"]:
        # the symmetric run itself misses the angle setpoint of an ext_grid while the three-phase run honours it
        # (runpp bypasses the solver when nothing but slack buses is energized and then drops the slack angles)
        for i in eg_live:
            b, va_set = net.ext_grid.at[i, "bus"], float(net.ext_grid.at[i, "va_degree"])
            if V[b] is None or math.isnan(float(rb.at[b, "va_degree"])):
                continue
            d_sym = abs((float(rb.at[b, "va_degree"]) - va_set + 180.0) % 360.0 - 180.0)
            d_3ph = abs((float(rb3.at[b, "va_a_degree"]) - va_set + 180.0) % 360.0 - 180.0)
            if d_sym > 1e-3 and d_3ph <= VA_TOL:
                causes.add("sym-slack-angle-ignored")
    if bad:
        # deviations are attributed to the root causes proven by the balance oracle on this very case, as far as these
        # can explain the deviating quantity; everything else is a separate failure
        reach = {"storage-ignored": None, "sym-slack-angle-ignored": None, "slack-bus-demand": {"ext_grid-power"}, "slack-ext-grid-duplicated": {"ext_grid-power"},
                 "slack-zero-seq-admittance": {"ext_grid-power"}}
        rest = []
        hit = set()
        for qn, det in bad:
            cs = [c for c in sorted(causes) if c in reach and (reach[c] is None or qn in reach[c])]
            if cs:
                hit.update(cs)
            else:
                rest.append((qn, det))
        for c in sorted(hit):
            res.fail("A/" + c, first=bad[0][1], quantities=sorted({qn for qn, _ in bad}), n=len(bad), opt=opt)
        if rest:
            res.fail("A/other/" + rest[0][0], first=rest[0][1], quantities=sorted({qn for qn, _ in rest}), n=len(rest), opt=opt)
    res.nontrivial = bool(has_element_node and flow)
    return res
