"""C19 - State estimation reproduces the true state from exact measurements (DESIGN.md sec. 2, C19).

A case = network recipe + an abstract *measurement plan* (observable core, redundant extras, duplicates, std_dev factors,
permutation seed) + estimator options.  `check` solves the power flow, turns the plan into `create_measurement` calls
whose values are read from the power-flow result tables (bus injections = net power of the non-shunt bus elements, load
reference system), runs `pandapower.estimation.estimate` and compares `res_*_est` with the power-flow results.
"""
import copy
import math
import random

from hypothesis import strategies as st

from pbt import netgen, oracles
from pbt.core import Result, pf_tol, silence, exc_sig, pf_outcome

ID = "C19"
LEVEL = "exploration"
EXAMPLES = {"quick": 480, "thorough": 9000}
DEADLINE_S = {"quick": 600, "thorough": 3000}
SHRINK_S = {"quick": 25, "thorough": 90}
TECHNIQUE = ("property-based testing: generated networks + generated observable measurement plans; oracle = power-flow "
             "result tables (round trip PF -> exact measurements -> SE) and metamorphic relations (row order, exact duplicates)")
RULE = ("Hypothesis draws a netgen.grid recipe (1-3 voltage levels, <=12 buses, lines incl. parallel systems, 2W/3W transformers with "
        "taps and phase shift, impedances, shunts, wards, motors, bus-bus switches with and without impedance, several slacks) plus "
        "0-4 own perturbations (element out of service / switch open / bus out of service) and a measurement plan: an observable "
        "core (v at >=1 bus per island plus EITHER p,q injections at all energized buses [optionally leaving out the injection-free "
        "buses that are declared through zero_injection] OR p,q flows on a random spanning tree of lines/trafos/trafo3w sides), "
        "redundant extras of every documented type (v,p,q at buses; p,q,i on line/trafo/trafo3w, every side, also at open line ends "
        "and - value 0 - on de-energized branches), exact duplicates, std_dev = 0.2..5 x (0.4 % p.u. | 1 % of the level's MVA / kA "
        "scale), sometimes every measurable quantity, sometimes the side given as bus index; options algorithm "
        "wls/irwls/wls_with_zero_constraint, init flat/results, tolerance 1e-6/1e-8, zero_injection aux_bus / explicit bus list / "
        "no_inj_bus. Measurement values are the AC power-flow results (bus injection = sum of load/sgen/gen/ext_grid/storage/motor "
        "results + ward constant-power part, load reference system). Oracle: estimate() reports success; res_bus_est vm/va (NaN "
        "pattern included) and res_line/trafo/trafo3w/impedance_est p,q,i equal the PF tables; re-creating the table in a random "
        "order (or re-ordering its rows) with extra exact duplicates gives the same estimate; with >=1 degree of freedom "
        "chi2_analysis returns False and (full sets only) remove_bad_data returns True without dropping a row. Non-trivial = "
        "estimate ran (not skipped) on >=1 redundant live measurement beyond the core and the energized network has a transformer "
        "or a loop; distinct by case hash.")
ASSUMPTIONS = [
    "power flow (runpp, calculate_voltage_angles=True, trafo_model 't', tolerance 1e-10 p.u.) is the trusted source of the true state; "
    "collapsed power-flow solutions (a bus or a trafo3w star point outside 0.5..1.5 p.u.) are skipped",
    "bus p/q measurements exclude shunt and ward-impedance power (these belong to the estimator's network model, cf. "
    "estimation/util.py:remove_shunt_injection_from_meas); load reference system as documented in create_measurement",
    "all buses of a fused node (closed zero-impedance bus-bus switches) are measured together when one of them gets a p/q measurement "
    "(estimate sums the measurements per fused bus)",
    "xward (internal PV bus cannot be measured) and dcline are not generated; v/p/q bus measurements only at energized buses; current "
    "magnitude measurements only at terminals carrying >= 0.1 % of the level's current scale (|I| is not differentiable at 0)",
    "std_dev within a factor 25 of a common relative accuracy: wildly unbalanced weights together with current-magnitude measurements "
    "give WLS local minima (theory, not a defect); the same bound decides whether zero_injection = bus list / 'no_inj_bus' is used "
    "with wls / irwls: the declaration is a virtual measurement with sigma 0.001 p.u. (= 0.001 * sn_mva MW), used only if that is "
    "<= 5 % of the MVA scale of the lowest declared level, otherwise the case runs with zero_injection='aux_bus' and measures every bus",
    "non-convergence is a failure, except from a start that is far from an extreme operating point (|vm-1| > 0.1 or a branch loaded "
    "> 100 %: init='flat', or auxiliary buses that estimate always starts flat) and the documented rejection of wls_with_zero_constraint "
    "without zero-injection bus; init='results' without auxiliary buses is the exact state, so non-convergence from it is always a failure (signature "
    "results-init-dc-angles/not-successful when a phase-shifting branch makes estimate replace the result angles by DC angles)",
    "the signature of a failure names the input class: precondition of an open defect (auxiliary buses with irwls / zero "
    "constraint / z_base >= 10 kOhm; flat start with current magnitudes) first, else the shape of a repaired defect (side as bus "
    "index - only if the failure disappears with string sides -, trafo3w terminal out of service and zero constraint with "
    "sn_mva != 1 [both joined to the open class with '+', they would hardly ever occur without one], phase shift / slack angle "
    "without DC start); the repaired shapes only exist to give a regression of a repair its own signature",
    "tolerances: vm 2e-6 p.u., va 2e-4 degree, flows 1e-5 MVA*max(1,sn/100) + 1e-6 relative + short-circuit power of the branch * 4e-6 "
    "(state tolerance of the estimator is 1e-6)",
    "chi2_analysis only when distinct live measurements > 2*(upper bound of the number of internal buses) (>=1 degree of freedom) and "
    "observability does not rest on the zero_injection option of estimate (sparse injection core), which the bad-data functions lack; "
    "remove_bad_data additionally only for the full measurement set on islands with >= 2 nodes (normalised residuals are undefined for critical measurements)",
]

# out-of-service parts and open switches are added by _perturb below (netgen's float draws make most networks dead)
PROFILE = netgen.profile(oos=0, open_prob=0.0, noslack_island=False, dcline=False, second_slack=4, nb_level=(1, 4),
                         level_sets=netgen.LEVEL_SETS + [[110.0, 20.0], [20.0, 0.4]] + 2 * [[110.0, 20.0, 0.4], [220.0, 110.0, 10.0],
                                                                                          [380.0, 110.0, 20.0]],
                         bus_kinds={"load": 5, "sgen": 3, "gen": 2, "storage": 1, "shunt": 2, "ward": 1, "xward": 0,
                                    "motor": 1, "asymmetric_load": 0, "asymmetric_sgen": 0})

BRANCH_SIDES = {"line": ("from", "to"), "trafo": ("hv", "lv"), "trafo3w": ("hv", "mv", "lv")}
INJ_TABLES = (("load", 1), ("motor", 1), ("storage", 1), ("asymmetric_load", 1), ("sgen", -1), ("asymmetric_sgen", -1),
              ("gen", -1), ("ext_grid", -1))
NOINJ_TABLES = ("load", "motor", "sgen", "storage", "ward", "xward", "asymmetric_load", "asymmetric_sgen", "gen", "ext_grid")

TOL_VM = 2e-6
TOL_VA = 2e-4        # degree
V_STD = 0.004        # p.u.
PQ_STD_REL = 0.01    # of the level's MVA scale
MAX_IT = 50


# ---------------------------------------------------------------------------------------------------------
# strategy

@st.composite
def _extra(draw):
    k = draw(st.sampled_from(["v", "p", "q", "i", "p", "q", "i"]))
    if k == "v":
        et = "bus"
    elif k == "i":
        et = draw(st.sampled_from(["line", "line", "trafo", "trafo3w"]))
    else:
        et = draw(st.sampled_from(["bus", "bus", "line", "line", "trafo", "trafo3w"]))
    return {"k": k, "et": et, "e": draw(st.integers(0, 40)), "s": draw(st.integers(0, 5)),
            "sd": draw(netgen.q(0.2, 5.0, nd=1)), "dup": draw(st.sampled_from([0, 0, 0, 0, 0, 1, 1, 2]))}


def _perturb(recipe, toggles):
    """0-4 single perturbations: element out of service / switch open / bus out of service (never a slack bus)"""
    el = recipe["el"]
    slack_buses = {e["bus"] for e in el if e["t"] == "ext_grid" or (e["t"] == "gen" and e.get("slack"))}
    first_slack = next(i for i, e in enumerate(el) if e["t"] == "ext_grid" or (e["t"] == "gen" and e.get("slack")))
    cand = {"el": [i for i, e in enumerate(el) if e["t"] != "switch" and i != first_slack],
            "sw": [i for i, e in enumerate(el) if e["t"] == "switch"],
            "bus": [i for i in range(len(recipe["buses"])) if i not in slack_buses]}
    for kind, k in toggles:
        c = cand[kind]
        if not c:
            continue
        i = c[k % len(c)]
        if kind == "el":
            el[i]["in_service"] = False
        elif kind == "sw":
            el[i]["closed"] = False
        else:
            recipe["buses"][i]["in_service"] = False
    return recipe


@st.composite
def _case(draw, tier):
    recipe = draw(netgen.grid(PROFILE))
    toggles = draw(st.lists(st.tuples(st.sampled_from(["el", "el", "sw", "sw", "sw", "bus"]), st.integers(0, 400)), max_size=4))
    recipe = _perturb(recipe, toggles)
    nb = len(recipe["buses"])
    alg = draw(st.sampled_from(["wls", "wls", "wls", "wls", "irwls", "irwls", "wls_with_zero_constraint"]))
    # zero_injection: default | explicit iterable of the injection-free buses (computed in check) | automatic detection
    zi = draw(st.sampled_from(["aux_bus"] * 7 + ["list"] * 8 + ["no_inj_bus"]))
    if alg == "wls_with_zero_constraint":
        if draw(st.integers(0, 3)):
            zi = "list"            # otherwise mostly rejected ("no bus with zero injections")
        if draw(st.integers(0, 5)) >= 3:
            recipe["sn_mva"] = 1.0  # half of the cases; the other half keeps the drawn sn_mva (repaired defect: the constraint
            #                         residual was scaled with baseMVA and the iteration diverged for sn_mva != 1)
    opt = {"algorithm": alg, "init": draw(st.sampled_from(["flat", "flat", "flat", "results", "results"])),
           "tolerance": draw(st.sampled_from([1e-6, 1e-6, 1e-8])), "zero_injection": zi}
    plan = {"core": draw(st.sampled_from(["inj", "inj", "flow", "flow", "flow"])),
            "sparse": draw(st.sampled_from([True, True, True, False])),                     # inj core: leave out injection-free buses (zero_injection=no_inj_bus)
            "tree_seed": draw(st.integers(0, 999)),
            "v": draw(st.lists(st.integers(0, 40), min_size=0, max_size=3)),   # additional voltage measurements
            "core_sd": draw(netgen.q(0.2, 5.0, nd=1)),
            "core_dup": draw(st.lists(st.integers(0, 60), min_size=0, max_size=2)),
            "extra": draw(st.integers(0, 2 * nb + 4).flatmap(lambda n: st.lists(_extra(), min_size=n, max_size=n))),
            "full": draw(st.integers(0, 7)) == 7,              # every measurable quantity once
            "dead": draw(st.integers(0, 5)) == 5,              # allow (zero) measurements on de-energized branches
            "side_as_bus": draw(st.integers(0, 19)) == 19}     # branch side given as bus index (documented alternative)
    meta = {"perm_seed": draw(st.integers(0, 9999)), "ndup": draw(st.integers(0, 4)),
            "mode": draw(st.sampled_from(["recreate", "reorder"]))}
    bad = draw(st.sampled_from([None, None, "chi2", "rn_max", "both"]))
    return {"recipe": recipe, "opt": opt, "plan": plan, "meta": meta, "bad_data": bad}


def strategy(tier):
    return _case(tier)


# ---------------------------------------------------------------------------------------------------------
# truth: facts read from the solved power flow

def _f(x):
    try:
        x = float(x)
    except Exception:
        return float("nan")
    return x


def _nz(x):
    x = _f(x)
    return 0.0 if math.isnan(x) else x


class Truth:
    """energized buses, electrical nodes, graph of the energized network, non-shunt bus injections"""

    def __init__(self, net):
        self.net = net
        vm = net.res_bus.vm_pu
        self.buses = [b for b in net.bus.index if not math.isnan(_f(vm.at[b]))]
        self.alive = set(self.buses)
        # plain ints: oracles.UF path compression can leave numpy integers as representatives, and comparing those with the
        # ("t3", idx) star-point vertices below is an element-wise numpy comparison (ValueError: truth value of an array)
        self.node = {b: int(v) for b, v in oracles.fused_nodes(net).items()}
        # injections (load reference) of the non-shunt bus elements
        inj = {b: 0j for b in net.bus.index}
        self.has_inj = set()
        for tab, sign in INJ_TABLES:
            if tab in net and len(net[tab]):
                r = net["res_" + tab]
                for idx, b in zip(net[tab].index, net[tab].bus.values):
                    if idx in r.index:
                        inj[b] += sign * complex(_nz(r.at[idx, "p_mw"]), _nz(r.at[idx, "q_mvar"]))
        for idx, b in zip(net.ward.index, net.ward.bus.values):
            if net.ward.at[idx, "in_service"] and b in self.alive:
                inj[b] += complex(net.ward.at[idx, "ps_mw"], net.ward.at[idx, "qs_mvar"])
        for tab in NOINJ_TABLES:
            if tab in net and len(net[tab]):
                t = net[tab]
                for b in t.bus.values[t.in_service.values.astype(bool)]:
                    self.has_inj.add(self.node[b])
        self.inj = inj
        # open element switches
        self.open_sw = {"l": set(), "t": set(), "t3": set()}
        sw = net.switch
        for b, e, et, cl in zip(sw.bus.values, sw.element.values, sw.et.values, sw.closed.values):
            if et in self.open_sw and not cl:
                self.open_sw[et].add((e, b))
        # auxiliary buses of the internal model: one per open element switch and per in-service branch terminal at an
        # out-of-service bus (upper bound, used for the degrees-of-freedom guard only)
        self.n_aux = sum(1 for et, tab in (("l", "line"), ("t", "trafo"), ("t3", "trafo3w")) for (e, b) in self.open_sw[et]
                         if e in net[tab].index and net[tab].at[e, "in_service"])
        for tab, cols in (("line", ("from_bus", "to_bus")), ("trafo", ("hv_bus", "lv_bus")),
                          ("trafo3w", ("hv_bus", "mv_bus", "lv_bus")), ("impedance", ("from_bus", "to_bus"))):
            t = net[tab]
            for c in cols:
                for idx, b in zip(t.index, t[c].values):
                    if t.at[idx, "in_service"] and not net.bus.at[b, "in_service"]:
                        self.n_aux += 1
        # graph: vertices = nodes of energized buses (+ star points); edges (u, v, table, idx, side of u or None)
        self.edges = []          # (u, v, tab, idx, sides usable for a flow measurement)
        self.t3_side_out = set()
        for tab, (a, c), et in (("line", ("from", "to"), "l"), ("trafo", ("hv", "lv"), "t")):
            t = net[tab]
            for idx in t.index:
                ba, bc = t.at[idx, a + "_bus"], t.at[idx, c + "_bus"]
                if not t.at[idx, "in_service"] or ba not in self.alive or bc not in self.alive:
                    continue
                if (idx, ba) in self.open_sw[et] or (idx, bc) in self.open_sw[et]:
                    continue
                self.edges.append((self.node[ba], self.node[bc], tab, idx, (a, c)))
        self.stars = []
        for idx in net.trafo3w.index:
            if not net.trafo3w.at[idx, "in_service"]:
                continue
            star = ("t3", int(idx))
            conn = []
            for s in ("hv", "mv", "lv"):
                b = net.trafo3w.at[idx, s + "_bus"]
                if not net.bus.at[b, "in_service"]:
                    self.t3_side_out.add(idx)
                if b in self.alive and (idx, b) not in self.open_sw["t3"]:
                    conn.append((s, b))
            if conn:
                self.stars.append(star)
                for s, b in conn:
                    self.edges.append((self.node[b], star, "trafo3w", idx, (s,)))
        for idx in net.impedance.index:
            ba, bc = net.impedance.at[idx, "from_bus"], net.impedance.at[idx, "to_bus"]
            if net.impedance.at[idx, "in_service"] and ba in self.alive and bc in self.alive:
                self.edges.append((self.node[ba], self.node[bc], "impedance", idx, ()))
        z = sw["z_ohm"].fillna(0.0).values if "z_ohm" in sw else [0.0] * len(sw)
        for i, (b, e, et, cl, zz) in enumerate(zip(sw.bus.values, sw.element.values, sw.et.values, sw.closed.values, z)):
            if et == "b" and cl and zz > 0 and b in self.alive and e in self.alive:
                self.edges.append((self.node[b], self.node[e], "switch", sw.index[i], ()))
        self.vertices = sorted({self.node[b] for b in self.buses}, key=str) + self.stars
        uf = oracles.UF(self.vertices)
        self.loop = False
        for u, v, *_ in self.edges:
            if u == v:
                continue
            if uf.find(u) == uf.find(v):
                self.loop = True
            uf.union(u, v)
        comp = {}
        for v in self.vertices:
            comp.setdefault(uf.find(v), []).append(v)
        self.components = list(comp.values())

    def members(self, node):
        return [b for b in self.buses if self.node[b] == node]

    def level_scale(self, bus):
        vn = float(self.net.bus.at[bus, "vn_kv"])
        key = min(netgen.LEVELS, key=lambda k: abs(k - vn))
        return netgen.LEVELS[key]["s"], vn


def branch_live(net, tab, idx, side):
    """the branch terminal is part of the solved network: the PF reports a finite current (dead branches: p = q = 0, i = NaN)"""
    return not math.isnan(_f(net["res_" + tab].at[idx, "i_%s_ka" % side]))


# ---------------------------------------------------------------------------------------------------------
# measurement plan -> rows

def build_rows(net, T, plan, opt, res):
    """returns (rows, info); row = dict(mt, et, el, side, value, sd, slot)"""
    rnd = random.Random(plan["tree_seed"])
    rows = []
    core_slots = set()

    def bus_row(mt, b, f):
        if mt == "v":
            val, sd = float(net.res_bus.vm_pu.at[b]), V_STD * f
        else:
            s, _ = T.level_scale(b)
            val = T.inj[b].real if mt == "p" else T.inj[b].imag
            sd = PQ_STD_REL * s * f
        return {"mt": mt, "et": "bus", "el": int(b), "side": None, "value": float(val), "sd": sd, "slot": (mt, "bus", int(b), None)}

    def branch_row(mt, tab, idx, side, f, dead=False):
        b = net[tab].at[idx, side + "_bus"]
        s, vn = T.level_scale(b)
        r = net["res_" + tab]
        if mt == "i":
            val, sd = _nz(r.at[idx, "i_%s_ka" % side]), PQ_STD_REL * s / (math.sqrt(3) * vn) * f
        else:
            val = _nz(r.at[idx, "%s_%s_%s" % (mt, side, "mw" if mt == "p" else "mvar")])
            sd = PQ_STD_REL * s * f
        return {"mt": mt, "et": tab, "el": int(idx), "side": side, "bus": int(b), "value": float(val), "sd": sd,
                "slot": (mt, tab, int(idx), side), "dead": dead}

    def carries_current(tab, idx, side):
        """|I| is not differentiable at I = 0: current magnitude measurements only at terminals that carry >= 0.1 % of the
        level's current scale (a dead branch is fine: its measurement is dropped by the estimator)"""
        if not branch_live(net, tab, idx, side):
            return True
        b = net[tab].at[idx, side + "_bus"]
        s_, vn = T.level_scale(b)
        return _nz(net["res_" + tab].at[idx, "i_%s_ka" % side]) * math.sqrt(3) * vn >= 1e-3 * s_

    def node_pq(b, f, which=("p", "q")):
        out = []
        for m in T.members(T.node[b]):
            for mt in which:
                out.append(bus_row(mt, m, f))
        return out

    # --- core -------------------------------------------------------------------------------------------
    core = plan["core"]
    f0 = plan["core_sd"]
    tree = None
    if core == "flow":
        edges = [e for e in T.edges if e[4]]
        rnd.shuffle(edges)
        uf = oracles.UF(T.vertices)
        tree = []
        for u, v, tab, idx, sides in edges:
            if uf.find(u) != uf.find(v):
                uf.union(u, v)
                tree.append((tab, idx, sides[rnd.randrange(len(sides))]))
        if len({uf.find(v) for v in T.vertices}) != len(T.components):
            core, tree = "inj", None
            res.label("flow-core-fallback")
    sparse_nodes = set()
    if core == "flow":
        for tab, idx, side in tree:
            rows.append(branch_row("p", tab, idx, side, f0))
            rows.append(branch_row("q", tab, idx, side, f0))
    else:
        touched = set()
        if plan["sparse"] and opt["zero_injection"] in ("no_inj_bus", "list") and not plan["full"]:
            if opt["zero_injection"] == "no_inj_bus":     # detection only works for buses without any p/q measurement
                for x in plan["extra"]:
                    if x["et"] == "bus" and x["k"] in ("p", "q"):
                        touched.add(T.node[T.buses[x["e"] % len(T.buses)]])
            sparse_nodes = {T.node[b] for b in T.buses if T.node[b] not in T.has_inj and T.node[b] not in touched}
        for b in T.buses:
            if T.node[b] in sparse_nodes:
                continue
            rows.append(bus_row("p", b, f0))
            rows.append(bus_row("q", b, f0))
    # voltage: one bus per island + extras
    for comp in T.components:
        cb = sorted(b for b in T.buses if T.node[b] in comp)
        if cb:
            rows.append(bus_row("v", cb[rnd.randrange(len(cb))], f0))
    for k in plan["v"]:
        rows.append(bus_row("v", T.buses[k % len(T.buses)], f0))
    n_core = len(rows)
    core_slots = {r["slot"] for r in rows}
    for k in plan["core_dup"]:
        rows.append(dict(rows[k % n_core]))

    # --- redundant measurements -------------------------------------------------------------------------
    cand = {}
    for tab, sides in BRANCH_SIDES.items():
        live, dead = [], []
        for idx in net[tab].index:
            for s in sides:
                (live if branch_live(net, tab, idx, s) else dead).append((idx, s))
        cand[tab] = live + (dead if plan["dead"] else [])
    for x in plan["extra"]:
        new = []
        if x["et"] == "bus":
            b = T.buses[x["e"] % len(T.buses)]
            if x["k"] == "v":
                new = [bus_row("v", b, x["sd"])]
            else:
                # all buses of a fused node are measured together (the estimator sums them up per fused bus)
                new = node_pq(b, x["sd"], which=(x["k"],))
        else:
            c = cand[x["et"]]
            if not c:
                continue
            idx, s = c[(x["e"] * 3 + x["s"]) % len(c)]
            if x["k"] == "i" and not carries_current(x["et"], idx, s):
                continue
            new = [branch_row(x["k"], x["et"], idx, s, x["sd"], dead=not branch_live(net, x["et"], idx, s))]
        for _ in range(1 + x["dup"]):
            rows.extend(dict(r) for r in new)
    if plan["full"]:
        for b in T.buses:
            for mt in ("v", "p", "q"):
                rows.append(bus_row(mt, b, 1.0))
        for tab, sides in BRANCH_SIDES.items():
            for idx in net[tab].index:
                for s in sides:
                    if branch_live(net, tab, idx, s):
                        for mt in ("p", "q", "i"):
                            if mt != "i" or carries_current(tab, idx, s):
                                rows.append(branch_row(mt, tab, idx, s, 1.0))
    info = {"core": core, "n_core": n_core, "core_slots": core_slots, "sparse_nodes": sparse_nodes}
    return rows, info


def write_measurements(pp, net, rows, side_as_bus=False):
    for r in rows:
        side = r["side"]
        if side is not None and side_as_bus:
            side = r["bus"]
        pp.create_measurement(net, r["mt"], r["et"], r["value"], r["sd"], r["el"], side=side)


# ---------------------------------------------------------------------------------------------------------
# comparison

def _angle_diff(a, b):
    return abs((a - b + 180.0) % 360.0 - 180.0)


def sc_power(net, tab, idx):
    """rough short-circuit power of a branch [MVA]: sensitivity of its flows to a state error"""
    try:
        if tab == "line":
            r = net.line.loc[idx]
            z = math.hypot(r.r_ohm_per_km, r.x_ohm_per_km) * r.length_km / max(1, r.parallel)
            return float(net.bus.at[r.from_bus, "vn_kv"]) ** 2 / max(z, 1e-9)
        if tab == "trafo":
            r = net.trafo.loc[idx]
            return r.sn_mva * max(1, r.parallel) / max(r.vk_percent / 100.0, 1e-6)
        if tab == "trafo3w":
            r = net.trafo3w.loc[idx]
            return max(r.sn_hv_mva, r.sn_mv_mva, r.sn_lv_mva) / (min(r.vk_hv_percent, r.vk_mv_percent, r.vk_lv_percent) / 100.0) * 4
        if tab == "impedance":
            r = net.impedance.loc[idx]
            z = min(math.hypot(r.rft_pu, r.xft_pu), math.hypot(r.rtf_pu, r.xtf_pu))
            return r.sn_mva / max(z, 1e-9)
    except Exception:
        pass
    return 0.0


def compare_state(net, ref_bus, ref_tabs, sn, what):
    """differences between res_*_est of net and reference tables -> list of (kind, detail)"""
    out = []
    est = net.res_bus_est if "res_bus_est" in net else None
    if est is None or list(est.index) != list(ref_bus.index):
        return [("res_bus_est-index", {"what": what})]
    worst_v = worst_a = 0.0
    for b in ref_bus.index:
        v0, v1 = _f(ref_bus.at[b, "vm_pu"]), _f(est.at[b, "vm_pu"])
        if math.isnan(v0) != math.isnan(v1):
            out.append(("nan-pattern", {"bus": int(b), "ref": v0, "est": v1}))
            continue
        if math.isnan(v0):
            continue
        worst_v = max(worst_v, abs(v0 - v1))
        d = _angle_diff(_f(ref_bus.at[b, "va_degree"]), _f(est.at[b, "va_degree"]))
        worst_a = max(worst_a, d if d == d else 1e9)
    if worst_v > TOL_VM:
        out.append(("vm", {"max_dev_pu": worst_v}))
    if worst_a > TOL_VA:
        out.append(("va", {"max_dev_degree": worst_a}))
    if out:
        return out
    ptol0 = 1e-5 * max(1.0, sn / 100.0)
    for tab, ref in ref_tabs.items():
        et = net["res_%s_est" % tab] if ("res_%s_est" % tab) in net else None
        if et is None or list(et.index) != list(ref.index):
            out.append(("res_%s_est-index" % tab, {}))
            continue
        for idx in ref.index:
            ssc = sc_power(net, tab, idx)
            for c in ref.columns:
                if c not in et.columns or not c.startswith(("p_", "q_", "pl_", "ql_", "i_")):
                    continue
                a, b = _f(ref.at[idx, c]), _f(et.at[idx, c])
                if math.isnan(a) and math.isnan(b):
                    continue
                if math.isnan(a) != math.isnan(b):
                    # PF writes NaN, SE 0 (or vice versa) for dead branches: not a flow difference
                    if (math.isnan(a) and b == 0.0) or (math.isnan(b) and a == 0.0):
                        continue
                    out.append(("flow-nan/" + tab, {"idx": int(idx), "col": c, "ref": a, "est": b}))
                    continue
                if c.startswith("i_"):
                    s, vn = 1.0, 1.0
                    bus_col = c.split("_")[1] + "_bus"
                    vn = float(net.bus.at[net[tab].at[idx, bus_col], "vn_kv"]) if bus_col in net[tab].columns else 1.0
                    tol = (ptol0 + 4e-6 * ssc) / (math.sqrt(3) * vn) + 1e-6 * abs(a)
                else:
                    tol = ptol0 + 1e-6 * abs(a) + 4e-6 * ssc
                if abs(a - b) > tol:
                    out.append(("flow/" + tab, {"idx": int(idx), "col": c, "ref": a, "est": b, "tol": tol}))
                    break
    return out


def _success(r):
    if isinstance(r, dict):
        return bool(r.get("success"))
    return bool(r) and r is not None


# ---------------------------------------------------------------------------------------------------------

def check(case):
    """_check plus one differential: a failure of a case whose branch sides are given as bus indices is attributed to that shape
    (a repaired defect) only if it disappears when the sides are given as 'from'/'to'/'hv'/'mv'/'lv' - the documentation declares
    both forms equivalent.  Otherwise the failures of the string-side run are reported (their signature names the real class)."""
    res = _check(case)
    if res.failures and case["plan"].get("side_as_bus"):
        c2 = copy.deepcopy(case)
        c2["plan"]["side_as_bus"] = False
        res2 = _check(c2)
        if res2.failures:
            res.failures = list(res2.failures)
            res.label("side-as-bus-not-the-cause")
        else:
            # same measurements, only the notation of the side differs: whatever class the input has, this is the cause
            def kind(sig):
                parts = sig.split("/")
                return parts[0] if parts[-1] == "plain" else parts[-1]
            res.failures = [("side-as-bus/" + kind(sig), dict(detail, differs_from_string_sides=True, without_differential=sig))
                            for sig, detail in res.failures]
    return res


def _check(case):
    import pandapower as pp
    from pandapower.estimation import estimate, chi2_analysis, remove_bad_data
    res = Result()
    recipe, opt, plan, meta = case["recipe"], case["opt"], case["plan"], case["meta"]
    sn = recipe.get("sn_mva", 1.0)
    net, maps = netgen.build(recipe)
    try:
        with silence():
            pp.runpp(net, calculate_voltage_angles=True, tolerance_mva=pf_tol(sn), max_iteration=40)
    except Exception as e:
        kind, what = pf_outcome(e)
        res.skipped = what if kind == "skip" else "pf-" + what
        return res
    T = Truth(net)
    if not T.buses:
        res.skipped = "nothing-energized"
        return res
    if any(not 0.5 <= float(net.res_bus.vm_pu.at[b]) <= 1.5 for b in T.buses):
        res.skipped = "pf-degenerate-solution"       # collapsed low-voltage solution of the power flow (vm ~ 0): no meaningful truth
        return res
    if len(net.trafo3w) and "vm_internal_pu" in net.res_trafo3w:
        # the star point of a three-winding transformer is a bus of the model as well (seen: vm_internal_pu = 2e-19)
        if any(v == v and not 0.5 <= v <= 1.5 for v in (_f(x) for x in net.res_trafo3w.vm_internal_pu.values)):
            res.skipped = "pf-degenerate-solution"
            return res
    if opt["zero_injection"] in ("list", "no_inj_bus") and opt["algorithm"] != "wls_with_zero_constraint":
        # declared zero-injection buses become virtual p/q measurements with a hard-coded sigma of 0.001 p.u. = 0.001 * sn_mva MW
        # (ppc_conversion.py:ZERO_INJECTION_STD_DEV; it also replaces the std_dev of a real p/q measurement at such a bus).
        # The declaration is used only where that sigma lies within the std_dev range this generator draws for a real
        # measurement at the bus (<= 5 x 1 % of the level's MVA scale, see ASSUMPTIONS "std_dev within a factor 25"): with
        # sn_mva = 1000 the "measurement" at a 0.4 kV bus has sigma 1 MW and the voltage of a weakly connected bus runs away
        # from a flat start (seen: 9 buses without load, 50 iterations; 1 iteration from the results; converges for sn_mva <= 15).
        # wls_with_zero_constraint uses hard constraints, no sigma.
        declared = [b for b in T.buses if T.node[b] not in T.has_inj]
        if declared and 0.001 * sn > 5.0 * PQ_STD_REL * min(T.level_scale(b)[0] for b in declared):
            opt = dict(opt, zero_injection="aux_bus")
            res.label("zi-declaration-too-weak->aux_bus")
    rows, info = build_rows(net, T, plan, opt, res)
    base = copy.deepcopy(net)           # solved network without measurements
    sab = bool(plan["side_as_bus"])
    with silence():
        write_measurements(pp, net, rows, sab)

    # ---- classification of the input ---------------------------------------------------------------------
    slots = {r["slot"] for r in rows if not r.get("dead")}
    redundant = len(slots - info["core_slots"])
    has_branch_rows = any(r["side"] is not None for r in rows)
    has_i = any(r["mt"] == "i" for r in rows)
    t3_out_measured = any(r["et"] == "trafo3w" and r["el"] in T.t3_side_out for r in rows)
    alg, init = opt["algorithm"], opt["init"]
    # root-cause class of a failure = a fact about the input.  The precondition of a defect that is still OPEN (known finding)
    # comes first; the shapes named after REPAIRED defects follow - they are kept only so that a regression of a repair gets its own
    # (unlisted) signature and must not shadow an open defect (seen: "side-as-bus/not-successful" was flat start + current
    # magnitude, same outcome with sides given as strings; "t3-terminal-oos/not-successful" and
    # "phase-shift-no-dc-init/not-successful" were irwls with auxiliary buses: cond(G) 5e16, 3 iterations with virtual sigma 1e-4).
    # Two repaired shapes are narrow and mostly coincide with an open precondition, so that open-first would hide nearly every
    # regression of their repair (a trafo3w terminal at an out-of-service bus always creates an auxiliary bus; with the
    # zero-constraint repair reverted 9 of 9 failing cases of a quick run were auxiliary-bus or flat-start/current cases): for
    # these both names are joined with "+", and only a combination whose witness was traced to the open defect is listed.
    tap_shift = 0.0
    if "tap_step_degree" in net.trafo.columns:
        for idx in net.trafo.index[net.trafo.in_service.values.astype(bool)]:
            d = _nz(net.trafo.at[idx, "tap_step_degree"]) * (_nz(net.trafo.at[idx, "tap_pos"]) - _nz(net.trafo.at[idx, "tap_neutral"]))
            tap_shift = max(tap_shift, abs(d))
    t2_shift = bool(len(net.trafo)) and bool(((net.trafo.shift_degree.values != 0) & net.trafo.in_service.values.astype(bool)).any())
    t3_shift = any(net.trafo3w.at[idx, "shift_mv_degree"] != 0 or net.trafo3w.at[idx, "shift_lv_degree"] != 0
                   for idx in net.trafo3w.index[net.trafo3w.in_service.values.astype(bool)])
    # repaired: estimate() started the angles from a DC power flow only if a two-winding transformer had shift_degree != 0
    no_dc_init = ((init == "flat" or T.n_aux > 0) and not (net.trafo.shift_degree.values != 0).any()
                  and (t3_shift or tap_shift > 20.0))
    # estimate(init="results") overwrites the angles of res_bus with those of a DC power flow as soon as one branch shifts the
    # phase (ppc_conversion.py:_init_ppc): the start is not the given state but far from it in an extreme operating point.
    # Only used for the signature of a non-convergence in such a state (see run_est), not a class of its own.
    results_dc_angles = init == "results" and (t2_shift or t3_shift or tap_shift > 0.0)
    # estimate() runs the DC power flow that initialises the angles only if the model has a phase-shifting branch: with a slack
    # angle far from 0 (ext_grid.va_degree) and no such branch (in service, terminal buses in service), a flat start - and the
    # auxiliary buses, which always start flat - are that far away from the reference
    bus_is = net.bus.in_service
    model_shift = any(net.trafo.at[i, "in_service"] and bus_is.at[net.trafo.at[i, "hv_bus"]] and bus_is.at[net.trafo.at[i, "lv_bus"]]
                      and (net.trafo.at[i, "shift_degree"] != 0 or
                           _nz(net.trafo.at[i, "tap_step_degree"] if "tap_step_degree" in net.trafo.columns else 0.0)
                           * (_nz(net.trafo.at[i, "tap_pos"]) - _nz(net.trafo.at[i, "tap_neutral"])) != 0)
                      for i in net.trafo.index) or \
        any(net.trafo3w.at[i, "in_service"] and bus_is.at[net.trafo3w.at[i, "hv_bus"]]
            and (net.trafo3w.at[i, "shift_mv_degree"] != 0 or net.trafo3w.at[i, "shift_lv_degree"] != 0) for i in net.trafo3w.index)
    slack_angle = max([abs(_nz(net.ext_grid.at[i, "va_degree"])) for i in net.ext_grid.index
                       if net.ext_grid.at[i, "in_service"] and net.ext_grid.at[i, "bus"] in T.alive] + [0.0])
    slack_angle_flat = (init == "flat" or T.n_aux > 0) and slack_angle >= 20.0 and not model_shift
    zbase = max(float(net.bus.vn_kv.at[b]) ** 2 for b in T.buses) / sn
    if T.n_aux > 0 and (alg in ("irwls", "wls_with_zero_constraint") or zbase >= 1e4):
        # virtual zero-injection measurements of auxiliary buses: sigma = 1e-6 p.u. hard coded (wls clamps it to 1e-5): the gain
        # matrix becomes numerically singular when the p.u. admittances are large (z_base = vn^2 / sn_mva >= 10 kOhm for wls)
        open_cls = "aux-bus-virtual-sigma"
    elif init == "flat" and has_i:
        open_cls = "flat+i-meas"
    else:
        open_cls = None
    if t3_out_measured:          # (the side-as-bus shape is decided by the differential in check())
        repaired_cls = "t3-terminal-oos"
    elif alg == "wls_with_zero_constraint" and sn != 1.0:
        repaired_cls = "zero-constraint-sn!=1"
    elif no_dc_init:
        repaired_cls = "phase-shift-no-dc-init"
    elif slack_angle_flat:
        repaired_cls = "slack-angle-no-dc-init"
    else:
        repaired_cls = None
    if open_cls and repaired_cls in ("t3-terminal-oos", "zero-constraint-sn!=1"):
        fsig = open_cls + "+" + repaired_cls
    else:
        fsig = open_cls or repaired_cls or "plain"
    shape = fsig != "plain"

    def sig(coarse, fine):
        """known input shapes get one coarse signature per kind of observation, everything else a detailed one"""
        return "%s/%s" % (fsig, coarse) if shape else "%s/%s" % (fine, fsig)

    vmdev = max(abs(float(net.res_bus.vm_pu.at[b]) - 1.0) for b in T.buses)
    loading = 0.0
    for t in ("line", "trafo", "trafo3w"):
        if len(net[t]):
            for x in net["res_" + t].loading_percent.values:
                if x == x:
                    loading = max(loading, float(x))
    stressed = vmdev > 0.1 or loading > 100.0
    res.label("core:" + info["core"], "alg:" + alg, "init:" + init, "zi:" + opt["zero_injection"])
    if info["sparse_nodes"]:
        res.label("inj-core-sparse")
    live_tr = any(e[2] == "trafo" for e in T.edges)
    live_t3 = bool(T.stars)
    for cond, lab in ((live_tr, "trafo"), (live_t3, "trafo3w"), (T.loop, "loop"),
                      (any(e[2] == "impedance" for e in T.edges), "impedance"),
                      (any(e[2] == "switch" for e in T.edges), "z-switch"),
                      (len(set(T.node[b] for b in T.buses)) < len(T.buses), "fused-node"),
                      (T.n_aux > 0, "open-end-aux-bus"), (len(T.components) > 1, "islands>1"),
                      (len(T.buses) < len(net.bus), "dead-bus"), (has_i, "i-meas"),
                      (any(r["mt"] in ("p", "q") and r["et"] != "bus" for r in rows), "flow-meas"),
                      (any(r.get("dead") for r in rows), "dead-branch-meas"),
                      (any(r["et"] == "trafo" and not r.get("dead") for r in rows), "meas:trafo"),
                      (any(r["et"] == "trafo3w" and not r.get("dead") for r in rows), "meas:trafo3w"),
                      (any(r["et"] == "trafo3w" and r["mt"] == "i" and not r.get("dead") for r in rows), "meas:trafo3w-i"),
                      (any(r["et"] == "trafo" and r["mt"] == "i" and not r.get("dead") for r in rows), "meas:trafo-i"),
                      (len(rows) > len({(r["slot"], r["sd"]) for r in rows}), "exact-duplicates"),
                      (bool(net.shunt.in_service.any()) if len(net.shunt) else False, "shunt"),
                      (bool(net.ward.in_service.any()) if len(net.ward) else False, "ward"),
                      (plan["full"], "full-set"), (sab and has_branch_rows, "side-as-bus"),
                      (bool(T.t3_side_out), "t3-terminal-oos"), (stressed, "stressed-state"),
                      (len(net.ext_grid) + int(net.gen.slack.sum() if len(net.gen) else 0) > 1, "multi-slack")):
        if cond:
            res.label(lab)
    nlive = len(T.buses)
    res.label("live-buses:" + ("1" if nlive == 1 else "2-4" if nlive <= 4 else "5+"))
    res.label("redundancy:" + ("0" if redundant == 0 else "1-5" if redundant <= 5 else "6-20" if redundant <= 20 else ">20"))

    zi = opt["zero_injection"]
    if zi == "list":      # documented alternative: iterable with the indices of the zero-injection buses
        zi = [int(b) for b in T.buses if T.node[b] not in T.has_inj]
    kw = dict(algorithm=alg, init=init, tolerance=opt["tolerance"], maximum_iterations=MAX_IT, zero_injection=zi)

    def run_est(n, tol=None):
        """-> ("ok", None) | ("skip", reason) | ("fail", (signature, detail))"""
        try:
            with silence():
                r = estimate(n, **(kw if tol is None else dict(kw, tolerance=tol)))
        except UserWarning as e:
            msg = str(e)
            if "no bus with zero injections" in msg:
                return "skip", "rejected:no-zero-injection-bus"
            return "fail", (sig("exc", "exc/" + exc_sig(e)), {"error": msg[:300]})
        except Exception as e:
            where = exc_sig(e)
            if where.endswith(":_add_zero_injection") and opt["zero_injection"] == "no_inj_bus":
                # one root cause, several exception types (IndexError / IndexingError / ValueError)
                return "fail", ("exc/no_inj_bus@estimation/ppc_conversion.py:_add_zero_injection", {"error": repr(e)[:300]})
            return "fail", (sig("exc", "exc/" + where), {"error": repr(e)[:300]})
        if not _success(r):
            if stressed and (init == "flat" or T.n_aux > 0):
                # Gauss-Newton is not expected to reach an extreme operating point from a start that is far away: flat start,
                # or auxiliary buses (open switch / out-of-service terminal), which estimate always starts at 1 p.u. / 0 degree.
                # False is a documented return value.
                return "skip", "not-converged:stressed-state"
            if stressed and results_dc_angles:
                # the documented start (the exact state in res_bus) was not used: angles replaced by a DC power flow
                return "fail", ("results-init-dc-angles/not-successful",
                                {"returned": repr(r)[:200], "loading": loading, "vmdev": vmdev, "alg": alg})
            return "fail", (sig("not-successful", "not-successful/%s/%s" % (alg, init)),
                            {"returned": repr(r)[:200], "loading": loading, "vmdev": vmdev})
        return "ok", None

    ref_bus = net.res_bus[["vm_pu", "va_degree"]].copy()
    ref_tabs = {t: net["res_" + t].copy() for t in ("line", "trafo", "trafo3w", "impedance") if len(net[t])}

    st_, what = run_est(net)
    if st_ == "skip":
        res.skipped = what
        return res
    if st_ == "fail":
        res.fail(what[0], opt=opt, n_meas=len(rows), **what[1])
        return res
    def borderline(diffs):
        """every deviation is within 100x of its tolerance (DESIGN.md sec. 5 rule 5: re-evaluate with a tighter solver tolerance)"""
        for kind, d in diffs:
            if kind == "vm":
                ok = d["max_dev_pu"] <= 100 * TOL_VM
            elif kind == "va":
                ok = d["max_dev_degree"] <= 100 * TOL_VA
            elif kind.startswith("flow/"):
                ok = abs(d["ref"] - d["est"]) <= 100 * d["tol"]
            else:
                ok = False
            if not ok:
                return False
        return True

    def tight(rows_, reorder=None):
        """same measurements, estimator iterated to a state change of 1e-9 -> differences to the PF tables (None: no result)"""
        n = copy.deepcopy(base)
        with silence():
            write_measurements(pp, n, rows_, sab)
        if reorder is not None:
            n.measurement = n.measurement.loc[reorder]
        st2, _ = run_est(n, tol=1e-9)
        return compare_state(n, ref_bus, ref_tabs, sn, "tight") if st2 == "ok" else None

    diffs = compare_state(net, ref_bus, ref_tabs, sn, "truth")
    if diffs and borderline(diffs):
        res.label("re-evaluated-at-tight-tolerance")
        d2 = tight(rows)
        diffs = d2 if d2 is not None else []      # no convergence to 1e-9: numerical floor of this problem, not decidable
    if diffs:
        kind = "voltage" if diffs[0][0] in ("vm", "va") else diffs[0][0]
        res.fail(sig("wrong-estimate", "truth/%s/%s" % (kind, alg)), opt=opt, n_meas=len(rows), diffs=diffs[:4])
    res.nontrivial = redundant >= 1 and (live_tr or live_t3 or T.loop)
    if res.failures:
        return res

    # ---- metamorphic: measurement order and exact duplicates --------------------------------------------
    est_bus = net.res_bus_est[["vm_pu", "va_degree"]].copy()
    est_tabs = {t: net["res_%s_est" % t].copy() for t in ref_tabs}
    rnd = random.Random(meta["perm_seed"])
    rows2 = [dict(r) for r in rows]
    for _ in range(meta["ndup"]):
        rows2.append(dict(rows2[rnd.randrange(len(rows))]))
    net2 = copy.deepcopy(base)
    order = None
    if meta["mode"] == "recreate":
        rnd.shuffle(rows2)
        with silence():
            write_measurements(pp, net2, rows2, sab)
    else:
        with silence():
            write_measurements(pp, net2, rows2, sab)
        order = list(net2.measurement.index)
        rnd.shuffle(order)
        net2.measurement = net2.measurement.loc[order]
    res.label("meta:" + meta["mode"])
    st_, what = run_est(net2)
    if st_ == "fail":
        # a convergence failure of the variant has the root cause of a convergence failure, not of an order dependence
        s_ = what[0] if ("not-successful" in what[0] or shape) else "metamorphic/" + what[0]
        res.fail(s_, opt=opt, meta=meta, variant=True, **what[1])
    elif st_ == "ok":
        diffs = compare_state(net2, est_bus, est_tabs, sn, "meta")
        if diffs and borderline(diffs):
            res.label("re-evaluated-at-tight-tolerance")
            d2 = tight(rows2, order)
            diffs = d2 if d2 is not None else []
        if diffs:
            kind = "voltage" if diffs[0][0] in ("vm", "va") else diffs[0][0]
            res.fail(sig("metamorphic", "metamorphic/%s/%s" % (kind, meta["mode"])), opt=opt, meta=meta, diffs=diffs[:4])
    if res.failures:
        return res

    # ---- bad data detection must stay silent ------------------------------------------------------------
    nb_upper = len(T.buses) + len(T.stars) + T.n_aux
    dof_ok = len(slots) > 2 * nb_upper
    bad = case.get("bad_data")
    # chi2_analysis / remove_bad_data have no zero_injection argument: an injection core that leaves out the injection-free
    # buses is observable only together with the zero_injection declaration passed to estimate(), not for these two functions
    # (seen: chi2_analysis -> estimate unsuccessful after 1 iteration (singular gain matrix) -> AttributeError in perform_chi2_test)
    if bad and dof_ok and not (sab and has_branch_rows) and not info["sparse_nodes"]:

        def fresh():
            n = copy.deepcopy(base)
            with silence():
                write_measurements(pp, n, rows, sab)
            return n

        def chi2(tol):
            with silence():
                return chi2_analysis(fresh(), init=init, tolerance=tol, maximum_iterations=MAX_IT)

        def rn_max(tol):
            n = fresh()
            m0 = len(n.measurement)
            try:
                with silence():
                    ok = remove_bad_data(n, init=init, tolerance=tol, maximum_iterations=MAX_IT)
            except Exception as e:
                return "exc/" + exc_sig(e), repr(e)[:300]
            if len(n.measurement) != m0:
                return "removed-exact-measurement", {"removed": m0 - len(n.measurement), "returned": repr(ok)}
            if ok is not True:
                return "returned-%r" % (ok,), None
            return None, None

        # A flag that vanishes when the same call iterates to tolerance 1e-11 has one root cause: the statistics are computed
        # from the residual vector of the iterate before the last update ("stale-residual/<test>", a fact about the observation)
        if bad in ("chi2", "both"):
            res.label("chi2-test")
            try:
                flagged = chi2(opt["tolerance"])
                if flagged is not False:
                    try:
                        again = chi2(1e-11)
                    except Exception:
                        again = "exc"
                    res.fail("stale-residual/chi2" if again is False else sig("chi2", "chi2/flagged"), returned=repr(flagged),
                             at_tol_1e_11=repr(again), opt=opt, n_meas=len(rows))
            except Exception as e:
                res.fail(sig("chi2", "chi2/exc/" + exc_sig(e)), error=repr(e)[:300], opt=opt)
        # largest-normalised-residual test: undefined for critical measurements (residual covariance 0), therefore only
        # with the full measurement set on islands with >= 2 nodes, where every measurement is redundant
        if plan["full"] and all(len(c) >= 2 for c in T.components):
            res.label("rn_max-test")
            what, detail = rn_max(opt["tolerance"])
            if what:
                again, _ = rn_max(1e-11)
                res.fail("stale-residual/rn_max" if again is None else sig("rn_max", "rn_max/" + what), observed=what, detail=detail,
                         at_tol_1e_11=again, opt=opt, n_meas=len(rows))
    return res
