"""C21 - PYPOWER/MATPOWER conversion round trip preserves power flow results (DESIGN.md sec. 2, C21)."""
import copy
import math
import os
import shutil
import tempfile

from hypothesis import strategies as st

from pbt import netgen, oracles
from pbt.core import Result, pf_tol, silence, pf_outcome, exc_sig

ID = "C21"
LEVEL = "exploration"
DEADLINE_S = {"quick": 600, "thorough": 3000}   # the shared machine can be 5x slower than nominal
EXAMPLES = {"quick": 480, "thorough": 14000}
RULE = ("Hypothesis draws a network recipe (1-3 voltage levels, lines incl. parallel (1/6 of the cases: with g_us_per_km), 2W "
        "trafos with ratio/symmetrical/ideal tap changers on hv or lv side, iron losses, 0/30/150/180 degree shifts, "
        "nominal-ratio trafos, 3W trafos, symmetric impedances, impedance and fusing bus-bus switches, open line/trafo switches, "
        "ext_grids / slack gens / PV gens / sgens / loads incl. purely reactive ones / shunts / storages / motors / wards, "
        "out-of-service buses and elements, an island without slack, permuted custom bus labels) and conversion options (init "
        "flat/results, switch_rx_ratio). The original is solved with trafo_model='pi', angles on; net2 = from_ppc(to_ppc(net)) "
        "and net3 = from_mpc(to_mpc(net, file.mat)) are solved with the options validate_from_ppc documents (pi, angles). "
        "Oracle (round trip): every supplied bus b of the original has the counterpart net._pd2ppc_lookups['bus'][b] (never "
        "the label) with equal vm_pu / va_degree; per reference node the summed P and Q of the voltage-controlling machines "
        "(converted ones found through net._from_ppc_lookups['gen']) are equal; total losses (P and Q, = -sum res_bus; and the "
        "sum of pl_mw over the branch result tables) are equal. A difference is attributed to the branch conductances (line g, "
        "impedance g, iron losses) if the case passes without them; the signature then names the ppc branch class that carried "
        "them. Non-trivial = original and both converted nets converged, >= 2 supplied buses compared in both paths, and the "
        "network has an off-nominal / phase-shifting transformer or an open switch or a ppc numbering that differs from the bus "
        "labels; distinct by case hash.")
ASSUMPTIONS = ["scope as stated by the property: trafo_model='pi' on both sides, symmetric impedances only (rtf=rft, xtf=xft, gt=gf, bt=bf)",
               "loads are constant power on both sides (to_ppc documents that ZIP shares are not converted: voltage_depend_loads=False)",
               "check_connectivity=True on both sides (without it isolated buses make the original power flow itself meaningless)",
               "no xward / dcline (their auxiliary PV machines are no slack powers and their internal losses are not branch losses)",
               "tolerances: vm 1e-8 p.u., va 1e-6 degree, powers 1e-5 MVA*max(1,sn/100) + 1e-7 relative; solver tolerance scaled with sn_mva",
               "per-machine Q at one node is not unique: slack/PV powers are compared as sums per electrical reference node",
               "a difference only counts if it persists when the converted net is started from the original operating point "
               "(a flat start may reach another solution of the same equations, e.g. ~0 p.u. at the auxiliary bus of an open transformer switch)",
               "the MATPOWER file path runs in 70 % of the cases on the variant of the network without branch conductances "
               "(the case format has no such column; from_mpc ignoring to_mpc's extra field is reported as a finding)"]

_KW = dict(
    bus_kinds={"load": 5, "sgen": 3, "gen": 3, "storage": 1, "shunt": 2, "ward": 1, "xward": 0, "motor": 1,
               "asymmetric_load": 0, "asymmetric_sgen": 0},
    branch_kinds={"line": 8, "impedance": 1, "bb": 2},
    oos=0.05, open_prob=0.25, dcline=False, leakage=False, custom_index=True, noslack_island=True)
PROFILE = netgen.profile(line_g=False, **_KW)      # majority: avoids the known line-conductance shape by construction
PROFILE_G = netgen.profile(line_g=True, **_KW)     # minority: lines with g_us_per_km

ASYM_KEYS = ("rtf_pu", "xtf_pu", "gt_pu", "bt_pu")


def in_scope(recipe):
    """restrict a generated recipe to the scope the property names: no asymmetric branch data"""
    for e in recipe["el"]:
        if e["t"] == "impedance":
            for k in ASYM_KEYS:
                e.pop(k, None)
    return recipe


@st.composite
def _case(draw, tier):
    with_g = draw(st.integers(0, 5)) == 0
    recipe = in_scope(draw(netgen.grid(PROFILE_G if with_g else PROFILE)))
    # netgen draws out-of-service buses with st.floats, which Hypothesis biases towards 0.0: most buses would be out of
    # service most of the time; keep that shape for a minority only (out-of-service elements stay in every case)
    if draw(st.integers(0, 3)) != 0:
        for b in recipe["buses"]:
            b.pop("in_service", None)
    # a purely reactive load (PD == 0, QD != 0 is a separate branch of from_ppc's bus conversion)
    loads = [e for e in recipe["el"] if e["t"] == "load" and e.get("q_mvar", 0.0) != 0.0]
    if loads and draw(st.integers(0, 3)) == 0:
        loads[draw(st.integers(0, len(loads) - 1))]["p_mw"] = 0.0
    # make nominal-ratio transformers (ppc TAP == 1, SHIFT == 0: the converter's third branch class) frequent enough
    if draw(st.integers(0, 1)) == 0:
        for e in recipe["el"]:
            if e["t"] == "trafo" and e.get("shift_degree", 0.0) == 0.0:
                vh = recipe["buses"][e["hv_bus"]]["vn_kv"]
                vl = recipe["buses"][e["lv_bus"]]["vn_kv"]
                e["vn_hv_kv"], e["vn_lv_kv"] = vh, vl
                for k in [k for k in e if k.startswith("tap_")]:
                    del e[k]
    if draw(st.integers(0, 4)) == 0:
        recipe["f_hz"] = 60.0      # line capacitances are converted through the frequency given to from_ppc / from_mpc
    opt = {"init": draw(st.sampled_from(["flat", "flat", "results"])),
           "switch_rx_ratio": draw(st.sampled_from([2, 2, 2, 0.5, 10])),
           "no_branch_g_mat": draw(st.integers(0, 9)) < 7}
    return {"recipe": recipe, "opt": opt}


def strategy(tier):
    return _case(tier)


def run_orig(net, opt, sn):
    import pandapower as pp
    with silence():
        pp.runpp(net, trafo_model="pi", calculate_voltage_angles=True, voltage_depend_loads=False, init="flat",
                 switch_rx_ratio=opt["switch_rx_ratio"], check_connectivity=True,
                 tolerance_mva=pf_tol(sn), max_iteration=40)


def run_conv(net, sn, start=None):
    """power flow of a converted net with the options validate_from_ppc documents; start = (vm, va) per bus of the converted
    net: start from that operating point instead of a flat start"""
    import pandapower as pp
    import pandas as pd
    init = "flat"
    if start is not None:
        net["res_bus"] = pd.DataFrame({"vm_pu": start[0], "va_degree": start[1], "p_mw": float("nan"), "q_mvar": float("nan")},
                                      index=net.bus.index)
        init = "results"
    with silence():
        pp.runpp(net, trafo_model="pi", calculate_voltage_angles=True, init=init, tolerance_mva=pf_tol(sn), max_iteration=40)


def _nz(x):
    x = float(x)
    return 0.0 if math.isnan(x) else x


def ref_nodes(net):
    """electrical node -> list of (table, idx) of all in-service ext_grids / gens at nodes that carry a reference machine"""
    node = oracles.fused_nodes(net)
    refs = set()
    for idx in net.ext_grid.index[net.ext_grid.in_service]:
        refs.add(node[net.ext_grid.at[idx, "bus"]])
    if len(net.gen):
        for idx in net.gen.index[net.gen.in_service & net.gen.slack.astype(bool)]:
            refs.add(node[net.gen.at[idx, "bus"]])
    out = {n: [] for n in refs}
    for tab in ("ext_grid", "gen"):
        for idx in net[tab].index[net[tab].in_service]:
            n = node[net[tab].at[idx, "bus"]]
            if n in out:
                out[n].append((tab, idx))
    return node, out


def compare(net, lookup, n_ppci, net2, sn):
    """the oracle: net = solved original, lookup = pandapower bus -> ppc bus of the conversion, net2 = solved converted net.
    Returns (list of (kind, detail), number of compared buses, bus mapping)"""
    fails = []
    ptol = 1e-5 * max(1.0, sn / 100.0)
    n_cmp = 0
    mapped = {}
    for b in net.bus.index:
        vm = net.res_bus.at[b, "vm_pu"]
        if math.isnan(vm):
            continue
        j = int(lookup[b]) if 0 <= b < len(lookup) else -1
        if j < 0 or j >= n_ppci or j not in net2.bus.index:
            fails.append(("supplied-bus-without-counterpart", dict(bus=b, ppc_bus=j, n_ppc_buses=n_ppci)))
            continue
        mapped[b] = j
        vm2, va2 = net2.res_bus.at[j, "vm_pu"], net2.res_bus.at[j, "va_degree"]
        va = net.res_bus.at[b, "va_degree"]
        n_cmp += 1
        if math.isnan(vm2) or abs(vm - vm2) > 1e-8:
            fails.append(("vm", dict(bus=b, ppc_bus=j, vm=vm, vm_converted=vm2, diff=abs(vm - vm2))))
        elif abs((va - va2 + 180.0) % 360.0 - 180.0) > 1e-6:
            fails.append(("va", dict(bus=b, ppc_bus=j, va=va, va_converted=va2)))
    # slack powers: per reference node, sum over the voltage-controlling machines of the node
    node, refs = ref_nodes(net)
    node2 = oracles.fused_nodes(net2)
    gl = net2._from_ppc_lookups["gen"]
    conv_machines = [(t, int(i)) for t, i in zip(gl.element_type.values, gl.element.values) if t]
    for n, machines in sorted(refs.items()):
        if n not in mapped:
            continue   # unsupplied reference (out-of-service bus)
        s1 = sum(complex(_nz(net["res_" + t].at[i, "p_mw"]), _nz(net["res_" + t].at[i, "q_mvar"])) for t, i in machines)
        j = mapped[n]
        s2 = 0j
        for t, i in conv_machines:
            if node2[net2[t].at[i, "bus"]] == node2[j] and net2[t].at[i, "in_service"]:
                s2 += complex(_nz(net2["res_" + t].at[i, "p_mw"]), _nz(net2["res_" + t].at[i, "q_mvar"]))
        if not any(t == "ext_grid" and net2.ext_grid.at[i, "bus"] == j for t, i in conv_machines):
            fails.append(("reference-not-converted-to-ext_grid", dict(node=n, ppc_bus=j)))
        tol = ptol + 1e-7 * abs(s1)
        if abs(s1.real - s2.real) > tol:
            fails.append(("slack-p", dict(node=n, p=s1.real, p_converted=s2.real)))
        if abs(s1.imag - s2.imag) > tol:
            fails.append(("slack-q", dict(node=n, q=s1.imag, q_converted=s2.imag)))
    # total losses = generation - consumption = -(sum of the bus balances), P and Q
    l1 = -complex(net.res_bus.p_mw.sum(), net.res_bus.q_mvar.sum())
    l2 = -complex(net2.res_bus.p_mw.sum(), net2.res_bus.q_mvar.sum())
    scale = float(net.res_bus.p_mw.abs().sum() + net.res_bus.q_mvar.abs().sum())
    tol = ptol + 1e-7 * scale
    if abs(l1.real - l2.real) > tol:
        fails.append(("losses-p", dict(losses=l1.real, losses_converted=l2.real)))
    if abs(l1.imag - l2.imag) > tol:
        fails.append(("losses-q", dict(losses=l1.imag, losses_converted=l2.imag)))
    # ... and as a user reads them: sum of pl_mw over the branch result tables
    pl1 = sum(_nz(v) for t in ("line", "trafo", "trafo3w", "impedance") for v in net["res_" + t].pl_mw.values)
    if len(net.res_switch) and "p_from_mw" in net.res_switch:
        pl1 += sum(_nz(a) + _nz(b) for a, b in zip(net.res_switch.p_from_mw.values, net.res_switch.p_to_mw.values))
    pl2 = sum(_nz(v) for t in ("line", "trafo", "impedance") for v in net2["res_" + t].pl_mw.values)
    if abs(pl1 - pl2) > tol:
        fails.append(("branch-pl-sum", dict(pl=pl1, pl_converted=pl2)))
    return fails, n_cmp, mapped


def features(net):
    """facts about the input used to classify a failure by root cause"""
    f = set()
    tr = net.trafo[net.trafo.in_service]
    if len(net.trafo3w) and net.trafo3w.in_service.any():
        f.add("trafo3w")
    if len(tr):
        vh = net.bus.vn_kv.reindex(tr.hv_bus).values
        vl = net.bus.vn_kv.reindex(tr.lv_bus).values
        tapped = (tr.tap_pos.fillna(0).values != tr.tap_neutral.fillna(0).values) & tr.tap_changer_type.notna().values
        off = (abs(tr.vn_hv_kv.values / vh - 1) > 1e-12) | (abs(tr.vn_lv_kv.values / vl - 1) > 1e-12) | tapped
        shift = tr.shift_degree.values != 0
        if (tapped & (tr.tap_side.values == "lv")).any():
            f.add("tap-lv")
        if (tapped & tr.tap_changer_type.isin(["Ideal", "Symmetrical"]).values).any() or \
                (tapped & (tr.get("tap_step_degree", 0 * tr.sn_mva).fillna(0).values != 0)).any():
            f.add("phase-tap")
        if off.any():
            f.add("off-nominal")
        if shift.any():
            f.add("shift")
        if (~off & ~shift).any():
            f.add("nominal-trafo")
    if len(net.impedance) and net.impedance.in_service.any():
        f.add("impedance")
    return f


class Outcome:
    """result of one round trip: status 'ok' (oracle evaluated), 'skipped' (original not solvable), 'failed' (crash etc.)"""
    def __init__(self):
        self.status, self.skipped, self.fails = "ok", None, []
        self.n_cmp, self.mapped, self.feats, self.n_ppci, self.net = 0, {}, set(), 0, None
        self.gclasses, self.other_solution = [], False


def evaluate(recipe, opt, path, solved=None):
    """build and solve the original, convert it through `path`, solve the converted net, run the oracle"""
    from pandapower.converter.pypower import to_ppc, from_ppc
    from pandapower.converter.matpower import to_mpc, from_mpc
    out = Outcome()
    sn = recipe.get("sn_mva", 1.0)
    f_hz = recipe.get("f_hz", 50.0)
    net = solved
    if net is None:
        net, _ = netgen.build(recipe)
        try:
            run_orig(net, opt, sn)
        except Exception as e:
            kind, what = pf_outcome(e)
            if kind == "skip":
                out.status, out.skipped = "skipped", what
            else:
                out.status = "failed"
                out.fails.append((what, dict(error=repr(e)[:300])))
            return out
        if not net.converged:
            out.status, out.skipped = "skipped", "not-converged"
            return out
        # solution of the original in the numbering of the internal ppc (incl. auxiliary buses): columns VM, VA
        try:
            net["_c21_solution"] = (net._ppc["internal"]["bus"][:, [7, 8]].copy(), net._pd2ppc_lookups["bus"].copy())
        except (KeyError, TypeError, IndexError):
            net["_c21_solution"] = None      # no internal solution kept (e.g. a single-bus network): no second start
    out.net = net
    out.feats = features(net)
    cls = "+".join(sorted(out.feats)) or "plain"
    kw = dict(calculate_voltage_angles=True, trafo_model="pi", init=opt["init"], check_connectivity=True,
              switch_rx_ratio=opt["switch_rx_ratio"])
    tmp = None
    shapes = {}
    try:
        with silence():
            if path == "ppc":
                ppc = to_ppc(net, **kw)
                lookup = net._pd2ppc_lookups["bus"].copy()
                shapes = {k: ppc[k].shape[0] for k in ("bus", "branch", "gen")}
                net2 = from_ppc(ppc, f_hz=f_hz)
            else:
                tmp = tempfile.mkdtemp(prefix="c21_")
                fn = os.path.join(tmp, "case.mat")
                mpc = to_mpc(net, fn, **kw)
                lookup = net._pd2ppc_lookups["bus"].copy()
                shapes = {k: mpc["mpc"][k].shape[0] for k in ("bus", "branch", "gen")}
                net2 = from_mpc(fn, f_hz=f_hz)
    except Exception as e:
        out.status = "failed"
        single = [k for k in ("bus", "branch") if shapes.get(k, 2) <= 1]   # one row -> vector, no row -> empty vector
        if path == "mpc" and single and isinstance(e, IndexError):
            # scipy.io.loadmat(squeeze_me=True) returns a one-row (or empty) matrix as a vector
            out.fails.append(("crash/single-row-matrix/%s" % exc_sig(e), dict(error=repr(e)[:300], rows=shapes, single=single)))
        else:
            out.fails.append(("crash/%s" % exc_sig(e), dict(error=repr(e)[:300], rows=shapes, features=cls)))
        return out
    finally:
        if tmp:
            shutil.rmtree(tmp, ignore_errors=True)
    out.n_ppci = shapes["bus"]
    out.gclasses = g_classes(ppc if path == "ppc" else mpc["mpc"])
    import numpy as np
    sol, lookup_run = net["_c21_solution"] if net["_c21_solution"] is not None else (np.zeros((0, 2)), None)
    same_numbering = lookup_run is not None and len(sol) == out.n_ppci == len(net2.bus) and list(net2.bus.index) == list(range(out.n_ppci)) and \
        np.array_equal(lookup_run, lookup) and not np.isnan(sol).any()
    first = None
    for start in (None, (sol[:, 0], sol[:, 1])):
        # a flat start may reach another solution of the same equations (seen: ~0 p.u. at the auxiliary bus behind an open
        # transformer switch) -> before a difference counts, the converted net is started from the original's operating point
        if start is not None and not same_numbering:
            break
        try:
            run_conv(net2, sn, start)
        except Exception as e:
            kind, what = pf_outcome(e)
            if kind == "skip" and what == "not-converged":
                fails = [("converted-net-not-converged", {})]
            else:
                fails = [("converted-net-pf/%s" % what, dict(error=repr(e)[:300]))]
            first = first or fails
            continue
        fails, out.n_cmp, out.mapped = compare(net, lookup, out.n_ppci, net2, sn)
        if not fails:
            out.other_solution = start is not None
            first = None
            break
        first = first or fails
    if first:
        out.fails = [("%s/%s" % (k, cls), d) for k, d in first]
        if any(k.startswith("converted-net") for k, _ in first):
            out.status = "failed"
    return out


def g_classes(ppc):
    """which of from_ppc's branch classes (line: equal base voltages, ratio 1, no shift; trafo: ratio or shift; impedance:
    the rest) carry a branch conductance in the converted case - a fact about the failing observation"""
    import numpy as np
    g = ppc.get("branch_g")
    if g is None or not len(ppc["branch"]):
        return []
    br, bus = ppc["branch"], ppc["bus"]
    g = np.asarray(g).reshape(-1)
    pos = {int(b): i for i, b in enumerate(bus[:, 0])}
    out = set()
    for k in range(br.shape[0]):
        if g[k] == 0:
            continue
        vf, vt = bus[pos[int(br[k, 0])], 9], bus[pos[int(br[k, 1])], 9]
        tap, shift = br[k, 8], br[k, 9]
        if tap not in (0, 1) or shift != 0:
            out.add("trafo")
        elif vf == vt:
            out.add("line")
        else:
            out.add("impedance")
    return sorted(out)


def _has_line_g(r):
    """conductance of a non-transformer branch: line g_us_per_km, impedance gf_pu"""
    return any((e["t"] == "line" and e.get("g_us_per_km", 0.0)) or (e["t"] == "impedance" and e.get("gf_pu", 0.0)) for e in r["el"])


def _no_line_g(r):
    r = copy.deepcopy(r)
    for e in r["el"]:
        if e["t"] == "line":
            e.pop("g_us_per_km", None)
        elif e["t"] == "impedance":
            e.pop("gf_pu", None)
            e.pop("gt_pu", None)
    return r


def _has_pfe(r):
    return any(e["t"] in ("trafo", "trafo3w") and e.get("pfe_kw", 0.0) for e in r["el"])


def _no_pfe(r):
    r = copy.deepcopy(r)
    for e in r["el"]:
        if e["t"] in ("trafo", "trafo3w"):
            e["pfe_kw"] = 0.0
    return r


def _has_g(r):
    return _has_line_g(r) or _has_pfe(r)


def _no_g(r):
    return _no_pfe(_no_line_g(r))


# input features that are removed one after the other from a failing case: a feature whose removal repairs the round trip
# names the root cause class of the failure (facts about the input and the failing observation only)
SUSPECTS = [("branch-g", _has_g, _no_g)]


def classify(recipe, opt, path, out):
    """failures of one path -> list of (signature, detail)"""
    if not out.fails:
        return []
    plain = [("%s/%s" % (path, k), d) for k, d in out.fails]
    if out.net is None or any(k.startswith("crash") for k, _ in out.fails):
        return plain
    if out.status == "ok":
        # value differences without an attributed cause: one signature per path and transformer/branch feature class
        kinds = sorted({k.split("/")[0] for k, _ in out.fails})
        cls = out.fails[0][0].split("/", 1)[1] if "/" in out.fails[0][0] else "plain"
        plain = [("%s/results-differ/unattributed/%s" % (path, cls), dict(observed=kinds, first=out.fails[0][1]))]
    for name, has, strip in SUSPECTS:
        if has(recipe):
            o = evaluate(strip(recipe), opt, path)
            kinds = sorted({k.split("/")[0] for k, _ in out.fails})
            if o.status == "skipped" and out.gclasses:
                # the variant without conductances has no power flow solution: the attribution cannot be confirmed
                extra = ("@line" if "line" in out.gclasses else "@" + "+".join(out.gclasses)) if path == "ppc" else ""
                return [("%s/results-differ/%s%s/unconfirmed" % (path, name, extra), dict(observed=kinds, first=out.fails[0][1]))]
            if o.status == "ok" and not o.fails:
                # ppc path: the branch class decides which conversion formula handled the conductance;
                # file path: the conductances do not reach from_ppc at all, whatever the class
                extra = ""
                if name == "branch-g" and path == "ppc":
                    extra = "@line" if "line" in out.gclasses else "@" + "+".join(out.gclasses)
                return [("%s/results-differ/%s%s" % (path, name, extra), dict(observed=kinds, first=out.fails[0][1]))]
    return plain


def check(case):
    res = Result()
    recipe, opt = case["recipe"], case["opt"]
    res.label("init:" + opt["init"])
    a = evaluate(recipe, opt, "ppc")
    if a.status == "skipped":
        res.skipped = a.skipped
    for sig, d in classify(recipe, opt, "ppc", a):
        res.fail(sig, **d)
    nt = False
    net = a.net
    if net is not None:
        for f in a.feats:
            res.label(f)
        n_sw_open = int((~net.switch.closed).sum()) if len(net.switch) else 0
        renumbered = any(b != j for b, j in a.mapped.items())
        if n_sw_open:
            res.label("open-switch")
        if renumbered:
            res.label("ppc-numbering!=labels")
        if a.n_ppci != int(net.bus.in_service.sum()):
            res.label("aux-or-fused-or-unsupplied-buses")
        if net.res_bus.vm_pu.isna().any():
            res.label("unsupplied-bus")
        if len(net.switch) and ((net.switch.et == "b") & net.switch.closed & (net.switch.z_ohm > 0)).any():
            res.label("impedance-switch")
        if any(len(net[t]) and not net[t].in_service.all() for t in ("bus", "line", "trafo", "gen", "sgen", "load", "shunt")):
            res.label("out-of-service")
        if len(ref_nodes(net)[1]) > 1:
            res.label("multi-reference")
        if _has_line_g(recipe):
            res.label("branch-g")
        if _has_pfe(recipe):
            res.label("trafo-pfe")
        if any(e["t"] == "load" and e.get("p_mw") == 0.0 and e.get("q_mvar", 0.0) != 0.0 and e.get("in_service", True)
               and e.get("scaling", 1.0) != 0.0 for e in recipe["el"]):
            res.label("q-only-load")
        if a.other_solution:
            res.label("flat-start-reaches-other-solution")
        if recipe.get("f_hz", 50.0) != 50.0:
            res.label("f_hz:60")
        nt = a.status == "ok" and a.n_cmp >= 2 and (bool(a.feats & {"off-nominal", "shift", "phase-tap"}) or n_sw_open > 0 or renumbered)
    # MATPOWER file path. The case format has no branch conductance column -> mostly run on the variant of the network
    # without line conductance / iron losses (opt.no_branch_g_mat), a minority keeps them
    recipe_m, solved = recipe, net
    if _has_line_g(recipe) or _has_pfe(recipe):
        if opt["no_branch_g_mat"]:
            recipe_m, solved = _no_g(recipe), None
        else:
            res.label("mpc:with-branch-g")
    if solved is not None or recipe_m is not recipe:
        b = evaluate(recipe_m, opt, "mpc", solved=solved)
        for sig, d in classify(recipe_m, opt, "mpc", b):
            res.fail(sig, **d)
        nt = nt and b.status == "ok" and b.n_cmp >= 2
        if b.status != "skipped":
            res.skipped = None
    else:
        nt = False
    res.nontrivial = bool(nt)
    return res
