"""C29 - Protection devices trip later for smaller currents, never earlier (DESIGN.md sec. 2, C29).

Devices under test: pandapower.protection.protection_devices.fuse.Fuse and .ocrelay.OCRelay (DTOC / IDMT / IDTOC).
The device functions only read net.res_switch_sc.ikss_ka / net.res_switch.i_ka at the device's switch, so the harness
writes these cells directly (and a different decoy value into the other table and the other rows); a minority of the
cases obtains the tables from calc_sc / runpp on the feeder instead (end-to-end).
"""
import copy
import math
from fractions import Fraction

from hypothesis import strategies as st

from pbt.core import Result, silence, exc_sig
from pbt.netgen import q

ID = "C29"
LEVEL = "exploration"
EXAMPLES = {"quick": 8000, "thorough": 160000}
DEADLINE_S = {"quick": 900, "thorough": 3600}   # generous: the machine is shared (cap hit => inconclusive, never a violation)
RULE = ("A case is one device plus 10-40 currents. Fuses: all 31 built-in std types x curve_select x scenario are enumerated "
        "with a dense current grid (every support point x {1, 1+-1e-9, 1+-1e-4, 0.5, 2}, below start, above stop, log grid); "
        "Hypothesis draws std types and generated (I, t) point sets (2-10 points, I strictly increasing, t non-increasing "
        "with occasional ties, half of them on a 1/64 kA grid so that pick-up comparisons are exact), attached through "
        "create_characteristic or a user std type (t_avg / t_min+t_total with both curve selections), with 0-2 other "
        "characteristics in the net, optionally after displaying net.protection. Relays: DTOC/IDMT/IDTOC on a 2-4 line "
        "feeder, settings either manual (pick-up DataFrame + time DataFrame or list, graded by construction "
        "I_s < I_g < I_gg, t_gg <= t_g, IDMT(I_g) >= t_g, plus a minority of ungraded ones) or automatic "
        "(overload / ct / safety factors, time list). Currents are drawn relative to the pick-up values (exactly at, "
        "1e-9 / 1e-4 next to, factor 2 around) and log-uniform, plus 0 and NaN. Oracle per current: trip <=> current above "
        "the pick-up (fuse: at or above the first support point), t = inf <=> not tripped, reported activation value == "
        "the cell of the chosen table, fuse melt time between the neighbouring support times, relay time == documented "
        "stage model (IEC 60255 inverse curves), settings taken over as given; over the currents of a case: time "
        "non-increasing in current (monotone data / graded settings only). Non-trivial = the currents of the case produce "
        ">= 2 different expected outcomes of which one is a trip; distinct by case hash.")
ASSUMPTIONS = ["time comparisons use rtol 1e-9 (+ cancellation allowance 4e-16/|r^alpha-1| for the inverse curve)",
               "a current whose exact position relative to a pick-up differs from its float position (1 ulp) is not judged",
               "IDMT curve constants from IEC 60255-151: SI 0.14/0.02, VI 13.5/1, EI 80/2, LTI 120/1; t = tms*k/((I/I_s)^a-1)+t_grade",
               "built-in fuse data that is itself not monotone is reported as its own failure and excluded from the monotonicity clause",
               "relays only on closed line switches of a radial feeder with consecutive indices (documented use)"]

FACTORS = [1.0, 1.0 - 1e-9, 1.0 + 1e-9, 1.0 - 1e-4, 1.0 + 1e-4, 0.5, 2.0, 0.97, 1.2]
CURVES = {"standard_inverse": (0.14, 0.02), "very_inverse": (13.5, 1.0), "extremely_inverse": (80.0, 2.0),
          "long_inverse": (120.0, 1.0)}
RTOL = 1e-9

# feeder variants: (vn_kv, line std type, lengths)
FEEDERS = [(0.4, "NAYY 4x50 SE", [0.5, 0.3]),
           (20.0, "NA2XS2Y 1x95 RM/25 12/20 kV", [2.0, 5.0, 4.0]),
           (20.0, "NA2XS2Y 1x95 RM/25 12/20 kV", [2.0, 4.0, 0.5, 0.5]),
           (0.4, "NAYY 4x150 SE", [0.2, 0.1, 0.3])]
_BASE = {}
_FUSE_TYPES = None


def base_net(variant):
    """radial feeder ext_grid - line - line ...; one closed CB at the from side of every line (cached, always copied)"""
    if variant not in _BASE:
        import pandapower as pp
        vn, std, lengths = FEEDERS[variant]
        n = len(lengths)
        net = pp.create_empty_network()
        pp.create_buses(net, n + 1, vn, geodata=[(0, -k) for k in range(n + 1)])
        pp.create_ext_grid(net, 0, s_sc_max_mva=100, s_sc_min_mva=50, rx_max=0.1, rx_min=0.1)
        pp.create_lines(net, list(range(n)), list(range(1, n + 1)), length_km=lengths, std_type=std)
        pp.create_switches(net, buses=list(range(n)), elements=list(range(n)), et="l", type="CB")
        pp.create_load(net, n, p_mw=0.02 if vn < 1 else 1.0, q_mvar=0.0)
        _BASE[variant] = net
    return copy.deepcopy(_BASE[variant])


def fuse_types():
    global _FUSE_TYPES
    if _FUSE_TYPES is None:
        import pandapower as pp
        _FUSE_TYPES = copy.deepcopy(pp.create_empty_network().std_types["fuse"])
    return _FUSE_TYPES


FUSE_NAMES = ['HV 100A', 'HV 10A', 'HV 125A', 'HV 160A', 'HV 16A', 'HV 200A', 'HV 20A', 'HV 25A', 'HV 31.5A', 'HV 40A',
              'HV 50A', 'HV 6.3A', 'HV 63A', 'HV 80A', 'Siemens NH-1-100', 'Siemens NH-1-125', 'Siemens NH-1-16',
              'Siemens NH-1-160', 'Siemens NH-1-25', 'Siemens NH-1-50', 'Siemens NH-1-63', 'Siemens NH-1-80',
              'Siemens NH-2-1000', 'Siemens NH-2-200', 'Siemens NH-2-224', 'Siemens NH-2-250', 'Siemens NH-2-315',
              'Siemens NH-2-355', 'Siemens NH-2-400', 'Siemens NH-2-425', 'Siemens NH-2-630']


# ------------------------------------------------------------------------------------------------ strategies

@st.composite
def _currents(draw, npts, lo_n=8, hi_n=28):
    out = []
    n = draw(st.integers(lo_n, hi_n))
    for _ in range(n):
        k = draw(st.integers(0, 9))
        if k <= 4:
            out.append(["pt", draw(st.integers(0, max(0, npts - 1))), draw(st.integers(0, len(FACTORS) - 1))])
        else:
            out.append(["u", draw(st.integers(0, 1000)) / 1000.0])
    r = draw(st.integers(0, 19))
    if r == 0:
        out.append(["nan"])
    elif r == 1:
        out.append(["zero"])
    return out


@st.composite
def _points(draw):
    """(I [A], t [s]) support points: I strictly increasing, t non-increasing (ties in ~15 % of the steps)"""
    n = draw(st.integers(2, 10))
    grid = draw(st.booleans())
    xs, ts = [], []
    if grid:
        m = draw(st.integers(1, 400))
        for _ in range(n):
            xs.append(15.625 * m)           # = m/64 kA: i_ka * 1000 is exact
            m += draw(st.integers(1, max(1, m)))
    else:
        x = draw(q(1.0, 2000.0, 3))
        for _ in range(n):
            xs.append(round(x, 3))
            x = x * draw(q(1.01, 3.0, 2)) + 0.001
    t = 10 ** draw(q(-1.0, 4.0, 2))
    for _ in range(n):
        ts.append(float("%.6g" % t))
        if draw(st.integers(0, 6)) != 0:
            t = t / draw(q(1.05, 60.0, 2))
    # rounding must not break the order
    for i in range(1, n):
        if ts[i] > ts[i - 1]:
            ts[i] = ts[i - 1]
    return xs, ts, grid


@st.composite
def _fuse_case(draw):
    case = {"dev": "fuse", "scenario": draw(st.sampled_from(["sc", "pp"])),
            "pre_chars": draw(st.integers(0, 2)), "show": draw(st.integers(0, 7)) == 0,
            "switch": draw(st.integers(0, 1)), "decoy": draw(st.sampled_from([0.5, 3.0, 0.0])),
            "e2e": draw(st.integers(0, 11)) == 0}
    via = draw(st.sampled_from(["std", "create_characteristic", "create_characteristic", "user_std_avg", "user_std_minmax"]))
    case["via"] = via
    if via == "std":
        case["fuse_type"] = draw(st.sampled_from(FUSE_NAMES))
        case["curve_select"] = draw(st.integers(0, 1))
        npts = 8
    else:
        xs, ts, grid = draw(_points())
        case["x"], case["t"], case["grid"] = xs, ts, grid
        npts = len(xs)
        case["curve_select"] = draw(st.integers(0, 1))
        if via == "user_std_minmax":
            # the other curve of the std type (must not be used): shifted copy
            case["x_other"] = [round(v * 1.5, 6) for v in xs]
            case["t_other"] = ts
    case["currents"] = draw(_currents(npts))
    return case


@st.composite
def _relay_case(draw):
    typ = draw(st.sampled_from(["DTOC", "IDMT", "IDTOC"]))
    feeder = draw(st.integers(0, len(FEEDERS) - 1))
    nsw = len(FEEDERS[feeder][2])
    case = {"dev": "relay", "type": typ, "feeder": feeder, "switch": draw(st.integers(0, nsw - 1)),
            "scenario": draw(st.sampled_from(["sc", "pp"])), "show": draw(st.integers(0, 7)) == 0,
            "decoy": draw(st.sampled_from([0.5, 3.0, 0.0])), "e2e": draw(st.integers(0, 11)) == 0,
            "curve_type": draw(st.sampled_from(sorted(CURVES))),
            "pickup": draw(st.sampled_from(["manual", "auto"])),
            "times": draw(st.sampled_from(["df", "list"]))}
    k, alpha = CURVES[case["curve_type"]]
    graded = draw(st.integers(0, 9)) != 0
    case["want_graded"] = graded
    # --- pick-up currents
    I_s = draw(q(0.05, 2.0, 3))
    a = draw(q(1.05, 3.0, 2))
    b = draw(q(1.05, 10.0, 2))
    I_g = round(I_s * a, 6)
    I_gg = round(I_g * b, 6)
    if not graded and draw(st.booleans()):
        I_g, I_gg = I_gg, I_g
    t_gg = draw(q(0.0, 0.5, 2))
    t_g = round(t_gg + draw(q(0.0, 2.0, 2)), 6)
    tms = draw(q(0.05, 2.0, 2))
    if typ == "IDTOC" and graded:
        need = t_g - tms * k / ((I_g / I_s) ** alpha - 1.0)
        t_grade = round(max(0.0, need) + draw(q(0.0, 1.0, 2)) + (1e-6 if need > 0 else 0.0), 6)
    else:
        t_grade = draw(q(0.0, 1.0, 2))
    if not graded and typ != "IDMT" and draw(st.booleans()):
        t_g, t_gg = t_gg, t_g
    case["manual"] = {"I_s": I_s, "I_g": I_g, "I_gg": I_gg, "t_g": t_g, "t_gg": t_gg, "tms": tms, "t_grade": t_grade}
    case["row_order"] = "reversed" if draw(st.integers(0, 9)) == 0 else "switch"
    # --- automatic settings
    case["auto"] = {"overload_factor": draw(q(1.0, 1.5, 2)), "ct_current_factor": draw(q(1.0, 1.5, 2)),
                    "safety_factor": draw(q(0.6, 1.0, 2)), "inverse_overload_factor": draw(q(1.0, 1.3, 2)),
                    "sc_fraction": draw(q(0.5, 0.95, 2))}
    t_diff = draw(q(0.0, 0.5, 2))
    if typ == "DTOC":
        case["time_list"] = [t_gg, t_g, t_diff]
    elif typ == "IDMT":
        case["time_list"] = [tms, t_grade]
    else:
        case["time_list"] = [t_gg, t_g, t_diff, tms, t_grade]
        if case["times"] == "df" and draw(st.integers(0, 9)) != 0:
            case["times"] = "list"          # a DataFrame cannot be used for IDTOC at all (finding), keep it a minority
    case["currents"] = draw(_currents(3))
    return case


def strategy(tier):
    return st.one_of(_fuse_case(), _relay_case(), _relay_case())


def enumerate_cases(tier):
    """all built-in fuse types x curve selection x scenario with a dense deterministic current set"""
    for name in FUSE_NAMES:
        for cs in (0, 1):
            for scen in ("sc", "pp"):
                cur = [["pt", i, f] for i in range(9) for f in range(len(FACTORS))]
                cur += [["u", j / 60.0] for j in range(61)] + [["zero"]]
                yield {"dev": "fuse", "via": "std", "fuse_type": name, "curve_select": cs, "scenario": scen,
                       "pre_chars": cs, "show": False, "switch": 1, "decoy": 0.5, "e2e": False, "currents": cur}


# ------------------------------------------------------------------------------------------------ helpers

def resolve(specs, pts, lo, hi):
    out = []
    for s in specs:
        if s[0] == "pt":
            out.append(pts[s[1] % len(pts)] * FACTORS[s[2]])
        elif s[0] == "u":
            out.append(lo * (hi / lo) ** s[1])
        elif s[0] == "nan":
            out.append(float("nan"))
        elif s[0] == "zero":
            out.append(0.0)
    return out


def set_tables(net, sw, scenario, i_ka, decoy):
    import pandas as pd
    other = 7.7 if math.isnan(i_ka) else i_ka * decoy + 0.0123
    n = len(net.switch)
    sc = [9.9e3] * n
    pf = [8.8e3] * n
    sc[sw] = i_ka if scenario == "sc" else other
    pf[sw] = i_ka if scenario == "pp" else other
    net["res_switch_sc"] = pd.DataFrame({"ikss_ka": sc}, index=net.switch.index.copy())
    net["res_switch"] = pd.DataFrame({"i_ka": pf}, index=net.switch.index.copy())


def same(a, b):
    if isinstance(a, float) and math.isnan(a):
        return isinstance(b, float) and math.isnan(b)
    return a == b


def generic_checks(res, r, sw, cell, kind):
    """clauses common to all devices; returns (tripped, t) or None"""
    try:
        trip, t, val = r["trip_melt"], float(r["trip_melt_time_s"]), float(r["activation_parameter_value"])
    except Exception as e:   # malformed result dict
        res.fail("%s/result-dict/%s" % (kind, type(e).__name__), result=repr(r))
        return None
    if not same(val, float(cell)) or r.get("activation_parameter") != "i_ka":
        res.fail("%s/activation-value-not-table-cell" % kind, reported=val, cell=float(cell), param=r.get("activation_parameter"))
    if r.get("switch_id") != sw:
        res.fail("%s/switch-id" % kind, reported=r.get("switch_id"), switch=sw)
    if math.isnan(t) or t < 0:
        res.fail("%s/time-not-a-time" % kind, t=t, current_ka=float(cell))
        return None
    if bool(trip) != (not math.isinf(t)):
        res.fail("%s/inf-iff-not-tripped" % kind, trip=bool(trip), t=t, current_ka=float(cell))
    return bool(trip), t


def monotone_clause(res, obs, kind, extra_tol=None):
    """obs: list of (current, t) of one device; t must be non-increasing in the current"""
    obs = sorted(o for o in obs if not math.isnan(o[0]))
    for (i1, t1), (i2, t2) in zip(obs, obs[1:]):
        if i1 == i2 or math.isinf(t1):
            continue
        tol = RTOL * (abs(t2) if not math.isinf(t2) else 1.0)
        if extra_tol is not None:
            tol += extra_tol(i1, t1) + extra_tol(i2, t2)
        if t2 > t1 + tol:
            res.fail("%s/time-increases-with-current" % kind, i1=i1, t1=t1, i2=i2, t2=t2)
            return


# ------------------------------------------------------------------------------------------------ fuse

def check_fuse(case, res):
    import pandapower as pp
    from pandapower.control.util.characteristic import Characteristic
    from pandapower.protection.protection_devices.fuse import Fuse
    from pandapower.protection.run_protection import calculate_protection_times
    net = base_net(0)
    sw = case["switch"]
    via = case["via"]
    res.label("fuse", "fuse:" + via, "scenario:" + case["scenario"])
    for j in range(case["pre_chars"]):
        Characteristic(net, [0.0, 1.0 + j], [5.0, 6.0])
    other_sw = 1 - sw
    with silence():
        # a second fuse on the other switch (must not influence the device under test); created first for switch 1,
        # afterwards for switch 0, so that the characteristic index of the device under test takes the values 0..3
        if sw == 1:
            Fuse(net, switch_index=other_sw, fuse_type="Siemens NH-2-1000")
        if via == "std":
            data = fuse_types()[case["fuse_type"]]
            if data["t_avg"] != 0:
                xs, ts, curve = data["x_avg"], data["t_avg"], "t_avg"
            elif case["curve_select"] == 0:
                xs, ts, curve = data["x_min"], data["t_min"], "t_min"
            else:
                xs, ts, curve = data["x_total"], data["t_total"], "t_total"
            dev = Fuse(net, switch_index=sw, fuse_type=case["fuse_type"], curve_select=case["curve_select"])
        elif via == "create_characteristic":
            xs, ts = case["x"], case["t"]
            dev = Fuse(net, switch_index=sw, fuse_type="none", rated_i_a=xs[0] / 2)
            dev.create_characteristic(net, xs, ts)
        else:
            xs, ts = case["x"], case["t"]
            d = {"fuse_type": "user fuse", "i_rated_a": xs[0] / 2, "t_avg": 0, "x_avg": 0, "t_min": 0, "x_min": 0,
                 "t_total": 0, "x_total": 0}
            if via == "user_std_avg":
                d["x_avg"], d["t_avg"] = xs, ts
            elif case["curve_select"] == 0:
                d["x_min"], d["t_min"], d["x_total"], d["t_total"] = xs, ts, case["x_other"], case["t_other"]
            else:
                d["x_total"], d["t_total"], d["x_min"], d["t_min"] = xs, ts, case["x_other"], case["t_other"]
            pp.create_std_type(net, d, "user fuse", element="fuse")
            dev = Fuse(net, switch_index=sw, fuse_type="user fuse", curve_select=case["curve_select"])
        if sw == 0:
            Fuse(net, switch_index=other_sw, fuse_type="Siemens NH-2-1000")
    xs = [float(v) for v in xs]
    ts = [float(v) for v in ts]
    n = len(xs)
    mono_data = all(xs[i] < xs[i + 1] for i in range(n - 1)) and all(ts[i] >= ts[i + 1] for i in range(n - 1))
    if not mono_data:
        if via == "std":
            res.fail("fuse/std-data-nonmonotone/%s/%s" % (case["fuse_type"], curve), x=xs, t=ts)
        res.label("nonmonotone-data")
    if any(ts[i] == ts[i + 1] for i in range(n - 1)):
        res.label("ties-in-t")
    if case.get("grid"):
        res.label("exact-grid")

    if case["show"]:
        res.label("shown-before")
        before = dev.characteristic_index
        with silence():
            str(net.protection)
            str(dev)
        if dev.characteristic_index != before:
            res.fail("fuse/display-changes-characteristic-index", before=before, after=dev.characteristic_index)
            dev.characteristic_index = before      # go on behind the finding

    i_start, i_stop = xs[0], xs[-1]
    outcomes = set()
    obs = []

    def judge(i_ka):
        try:
            with silence():
                r = dev.protection_function(net, scenario=case["scenario"])
        except Exception as e:
            res.fail("fuse/exc/" + exc_sig(e), current_ka=i_ka)
            return None
        g = generic_checks(res, r, sw, i_ka, "fuse")
        if g is None:
            return None
        trip, t = g
        if math.isnan(i_ka):
            res.label("nan-current")
            outcomes.add("no")
            if trip:
                res.fail("fuse/nan-current-trips", t=t)
            return r
        a_f = i_ka * 1000.0
        a_x = Fraction(i_ka) * 1000
        if (a_f >= i_start) != (a_x >= Fraction(i_start)) or (a_f <= i_stop) != (a_x <= Fraction(i_stop)):
            res.label("ulp-ambiguous")
            return r
        if a_f == i_start:
            res.label("exactly-at-start")
        if a_f < i_start:
            res.label("below-start")
            outcomes.add("no")
            if trip:
                res.fail("fuse/trips-below-start", current_a=a_f, i_start_a=i_start, t=t)
            return r
        if not trip:
            res.fail("fuse/no-trip-at-or-above-start", current_a=a_f, i_start_a=i_start, exactly_at=a_f == i_start)
            return r
        obs.append((a_f, t))
        if a_f > i_stop:
            res.label("above-stop")
            outcomes.add("stop")
            if mono_data and t > ts[-1] * (1 + RTOL):
                res.fail("fuse/above-stop-slower-than-last-point", current_a=a_f, t=t, t_last=ts[-1])
            return r
        # between the neighbouring support times
        j = 0
        while j < n - 2 and a_f > xs[j + 1]:
            j += 1
        outcomes.add("seg%d" % j)
        if mono_data:
            hi = ts[j] if a_f < xs[j + 1] else ts[j + 1]
            lo = ts[j + 1] if a_f > xs[j] else ts[j]
            if not (lo * (1 - RTOL) <= t <= hi * (1 + RTOL)):
                res.fail("fuse/time-outside-neighbouring-support-times", current_a=a_f, t=t, x=[xs[j], xs[j + 1]],
                         t_support=[ts[j], ts[j + 1]])
        return r

    if case["e2e"]:
        res.label("e2e")
        import pandapower.shortcircuit as sc
        try:
            with silence():
                pp.runpp(net)
                sc.calc_sc(net, bus=int(net.bus.index[-1]), branch_results=True)
        except Exception as e:
            res.skipped = "e2e-failed:" + exc_sig(e)
            return
        tab, col = ("res_switch_sc", "ikss_ka") if case["scenario"] == "sc" else ("res_switch", "i_ka")
        judge(float(net[tab].at[sw, col]))
    else:
        lo, hi = i_start / 3.0, i_stop * 3.0
        last = None
        for a in resolve(case["currents"], xs, lo, hi):
            i_ka = a / 1000.0
            set_tables(net, sw, case["scenario"], i_ka, case["decoy"])
            last = judge(i_ka)
        if last is not None:
            # public entry point gives the same row
            with silence():
                df = calculate_protection_times(net, scenario=case["scenario"])
            row = df[df.switch_id == sw]
            if len(row) != 1 or not same(float(row.trip_melt_time_s.iloc[0]), float(last["trip_melt_time_s"])) \
                    or bool(row.trip_melt.iloc[0]) != bool(last["trip_melt"]):
                res.fail("fuse/calculate_protection_times-differs", direct=repr(last), table=row.to_dict("records"))
    if mono_data:
        monotone_clause(res, obs, "fuse")
    res.nontrivial = len(outcomes) >= 2 and bool(outcomes - {"no"})


# ------------------------------------------------------------------------------------------------ relay

def relay_ref(typ, S, i, k, alpha):
    """documented stage model -> (tripped, time)"""
    if math.isnan(i):
        return False, math.inf

    def inverse():
        return S["tms"] * k / ((i / S["I_s"]) ** alpha - 1.0) + S["t_grade"]
    if typ in ("DTOC", "IDTOC"):
        if i > S["I_gg"]:
            return True, S["t_gg"]
        if i > S["I_g"]:
            return True, S["t_g"]
    if typ in ("IDMT", "IDTOC") and i > S["I_s"]:
        return True, inverse()
    return False, math.inf


def other_row(vals, j):
    """settings of the other switches: distinct from the row under test"""
    return {kk: round(v * (1.0 + 0.25 * (j + 1)), 6) for kk, v in vals.items()}


def check_relay(case, res):
    import pandas as pd
    import pandapower as pp
    from pandapower.protection.protection_devices.ocrelay import OCRelay
    from pandapower.protection.run_protection import calculate_protection_times
    typ = case["type"]
    net = base_net(case["feeder"])
    nsw = len(net.switch)
    sw = case["switch"]
    k, alpha = CURVES[case["curve_type"]]
    res.label("relay", "relay:" + typ, "scenario:" + case["scenario"], "pickup:" + case["pickup"], "times:" + case["times"])
    man = case["manual"]
    pick_names = {"DTOC": ["I_gg", "I_g"], "IDMT": ["I_s"], "IDTOC": ["I_gg", "I_g", "I_s"]}[typ]
    time_names = {"DTOC": ["t_gg", "t_g"], "IDMT": ["tms", "t_grade"], "IDTOC": ["t_gg", "t_g", "tms", "t_grade"]}[typ]
    order = list(range(nsw))
    if case["row_order"] == "reversed":
        order = order[::-1]
        res.label("rows-reversed")
    rows = {j: (dict(man) if j == sw else other_row(man, j)) for j in range(nsw)}
    kwargs = {"curve_type": case["curve_type"]}
    if case["pickup"] == "manual":
        kwargs["pickup_current_manual"] = pd.DataFrame(
            dict([("switch_id", order)] + [(nm, [rows[j][nm] for j in order]) for nm in pick_names]))
    else:
        kwargs.update(case["auto"])
    if case["times"] == "df":
        time_settings = pd.DataFrame(dict([("switch_id", order)] + [(nm, [rows[j][nm] for j in order]) for nm in time_names]))
    else:
        time_settings = list(case["time_list"])
    try:
        with silence():
            dev = OCRelay(net, switch_index=sw, oc_relay_type=typ, time_settings=time_settings, **kwargs)
    except Exception as e:
        if typ == "IDTOC" and case["times"] == "df":
            res.label("idtoc-times-df")
            res.fail("relay/idtoc-time-settings-dataframe-unusable/" + exc_sig(e), msg=str(e)[:200])
        else:
            res.fail("relay/constructor-exc/" + exc_sig(e), msg=str(e)[:200])
        return

    # ---- settings: taken over as given (manual / DataFrame) or as documented (automatic pick-up of I> and I_s)
    S = {}
    pos_row = rows[order[sw]]           # the row sitting at *position* sw
    for nm in pick_names + time_names:
        got = getattr(dev, nm)
        is_pick = nm in pick_names
        given = None
        if is_pick and case["pickup"] == "manual":
            given = man[nm]
        elif is_pick and nm in ("I_g", "I_s"):
            max_i = float(net.line.max_i_ka.at[int(net.switch.element.at[sw])])
            a = case["auto"]
            given = max_i * a["overload_factor"] * a["ct_current_factor"] if nm == "I_g" else max_i * a["inverse_overload_factor"]
            if got is not None and abs(got - given) <= 1e-12 * abs(given):
                given = got
        elif not is_pick and case["times"] == "df":
            given = man[nm]
        if given is None or (got is not None and got == given):
            S[nm] = got
            continue
        if nm == "I_gg" and got == getattr(dev, "I_g"):
            res.fail("relay/manual-pickup/I_gg-taken-from-I_g", given_I_gg=given, device_I_gg=got, device_I_g=dev.I_g)
        elif case["row_order"] == "reversed" and got == pos_row[nm]:
            res.fail("relay/%s/row-by-position-not-switch_id" % ("manual-pickup" if is_pick else "time-settings-df"),
                     setting=nm, given=given, device=got)
        else:
            res.fail("relay/setting-not-applied/" + nm, given=given, device=got, pickup=case["pickup"], times=case["times"])
        S[nm] = got                       # go on behind the finding with what the device really uses
    if any(v is None or (isinstance(v, float) and math.isnan(v)) for v in S.values()):
        res.skipped = "settings-undefined"
        return

    graded = True
    if typ in ("DTOC", "IDTOC"):
        graded = S["I_g"] < S["I_gg"] and S["t_gg"] <= S["t_g"]
    if typ == "IDTOC":
        graded = graded and S["I_s"] < S["I_g"] and \
            S["tms"] * k / ((S["I_g"] / S["I_s"]) ** alpha - 1.0) + S["t_grade"] >= S["t_g"] * (1 - 1e-12)
    if typ in ("IDMT", "IDTOC"):
        graded = graded and S["tms"] >= 0 and S["I_s"] > 0
    res.label("graded" if graded else "ungraded")

    if case["show"]:
        res.label("shown-before")
        with silence():
            str(net.protection)

    pts = [S[nm] for nm in ("I_s", "I_g", "I_gg") if nm in S]
    outcomes = set()
    obs = []

    def cancel_tol(i, t):
        if typ == "DTOC" or "I_s" not in S or math.isinf(t):
            return 0.0
        d = abs((i / S["I_s"]) ** alpha - 1.0)
        return 0.0 if d == 0 else abs(t) * 4e-16 / d

    def judge(i_ka):
        try:
            with silence():
                r = dev.protection_function(net, scenario=case["scenario"])
        except Exception as e:
            res.fail("relay/exc/" + exc_sig(e), current_ka=i_ka)
            return None
        g = generic_checks(res, r, sw, i_ka, "relay")
        if g is None:
            return None
        trip, t = g
        if math.isnan(i_ka):
            res.label("nan-current")
        if case["pickup"] == "auto" and any(p != i_ka and abs(i_ka - p) <= 1e-12 * abs(p) for p in pts):
            res.label("ulp-ambiguous")
            return r
        if any(i_ka == p for p in pts):
            res.label("exactly-at-pickup")
        e_trip, e_t = relay_ref(typ, S, i_ka, k, alpha)
        outcomes.add("no" if not e_trip else ("%.9g" % e_t))
        if e_trip != trip:
            res.fail("relay/%s/%s" % (typ, "trips-at-or-below-pickup" if trip else "no-trip-above-pickup"),
                     current_ka=i_ka, settings=S, t=t)
            return r
        if trip:
            obs.append((i_ka, t))
            if abs(t - e_t) > RTOL * abs(e_t) + cancel_tol(i_ka, e_t) + 1e-15:
                res.fail("relay/%s/time-differs-from-stage-model" % typ, current_ka=i_ka, t=t, expected=e_t, settings=S,
                         curve=case["curve_type"])
        return r

    if case["e2e"]:
        res.label("e2e")
        import pandapower.shortcircuit as sc
        try:
            with silence():
                pp.runpp(net)
                sc.calc_sc(net, bus=int(net.bus.index[-1]), branch_results=True)
        except Exception as e:
            res.skipped = "e2e-failed:" + exc_sig(e)
            return
        tab, col = ("res_switch_sc", "ikss_ka") if case["scenario"] == "sc" else ("res_switch", "i_ka")
        judge(float(net[tab].at[sw, col]))
    else:
        lo, hi = min(pts) / 4.0, max(pts) * 4.0
        last = None
        for i_ka in resolve(case["currents"], pts, lo, hi):
            set_tables(net, sw, case["scenario"], i_ka, case["decoy"])
            last = judge(i_ka)
        if last is not None:
            with silence():
                df = calculate_protection_times(net, scenario=case["scenario"])
            row = df[df.switch_id == sw]
            if len(row) != 1 or not same(float(row.trip_melt_time_s.iloc[0]), float(last["trip_melt_time_s"])) \
                    or bool(row.trip_melt.iloc[0]) != bool(last["trip_melt"]):
                res.fail("relay/calculate_protection_times-differs", direct=repr(last), table=row.to_dict("records"))
    if graded:
        monotone_clause(res, obs, "relay/" + typ, extra_tol=cancel_tol)
    res.nontrivial = len(outcomes) >= 2 and bool(outcomes - {"no"})


def check(case):
    res = Result()
    if case["dev"] == "fuse":
        check_fuse(case, res)
    else:
        check_relay(case, res)
    return res
