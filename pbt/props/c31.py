"""C31 - Tabular tap dependency uses each transformer's own table row (DESIGN.md sec. 2, C31)."""
import cmath
import copy
import math

from hypothesis import strategies as st

from pbt import netgen, oracles
from pbt.core import Result, pf_tol, silence, pf_outcome

ID = "C31"
LEVEL = "exploration"
EXAMPLES = {"quick": 640, "thorough": 20000}
RULE = ("Hypothesis draws a network recipe with 2-5 two-winding (and 0-1 three-winding) transformers, for each transformer a "
        "characteristic id from {none, 0, 1, 2} (ids shared by some, distinct for others), a tap side and a tap position inside "
        "the table, and the table itself (ratio, angle, vk, vkr per (id, step); vk_hv/mv/lv for 3W). Oracle (differential): "
        "network B replaces every table transformer by the same transformer with tap_dependency_table=False, vk/vkr overwritten "
        "with its own row and a plain Ratio tap changer one step off neutral whose complex step reproduces ratio*exp(j*angle) of "
        "the row; res_bus, res_trafo, res_trafo3w of A and B must be equal; the transformer table of A is unchanged by the run. "
        "Non-trivial = converged and >= 2 transformers share an id at different tap positions; distinct by case hash.")
ASSUMPTIONS = ["a tap position outside the table is not generated (no documented meaning)",
               "3W transformers with tap_at_star_point are not given a table",
               "tolerance 2e-6 MVA scaled, vm 1e-9"]

PROFILE = netgen.profile(dcline=False, oos=0.0, switches=False, second_slack=False, noslack_island=False, trafo3w=True, custom_index=False,
                         level_sets=[[110.0, 20.0], [20.0, 0.4], [110.0, 10.0], [220.0, 110.0], [110.0, 20.0, 0.4], [380.0, 110.0, 20.0]],
                         nb_level=(2, 4), max_per_bus=2, shifts=(0.0, 0.0, 30.0, 150.0),
                         bus_kinds={"load": 6, "sgen": 3, "gen": 1, "storage": 0, "shunt": 1, "ward": 0, "xward": 0, "motor": 0,
                                    "asymmetric_load": 0, "asymmetric_sgen": 0})


@st.composite
def _case(draw, tier):
    recipe = draw(netgen.grid(PROFILE))
    # more two-winding transformers between the same voltage levels (same shift as the existing ones of that pair)
    tr = [e for e in recipe["el"] if e["t"] == "trafo"]
    for _ in range(draw(st.integers(1, 3))):
        if not tr:
            break
        base = draw(st.sampled_from(tr))
        vh = recipe["buses"][base["hv_bus"]]["vn_kv"]
        vl = recipe["buses"][base["lv_bus"]]["vn_kv"]
        hs = [i for i, b in enumerate(recipe["buses"]) if b["vn_kv"] == vh]
        ls = [i for i, b in enumerate(recipe["buses"]) if b["vn_kv"] == vl]
        d = draw(netgen.trafo_params(vh, vl, netgen.LEVELS[vl]["s"] * len(ls), base["shift_degree"], PROFILE))
        d.update(hv_bus=draw(st.sampled_from(hs)), lv_bus=draw(st.sampled_from(ls)))
        recipe["el"].append(d)
    netgen.normalize(recipe)
    assign = []
    for e in recipe["el"]:
        if e["t"] in ("trafo", "trafo3w"):
            assign.append({"id": draw(st.sampled_from([None, 0, 0, 1, 1, 2])), "pos": draw(st.integers(-3, 3)),
                           "side": draw(st.sampled_from(["hv", "lv"] if e["t"] == "trafo" else ["hv", "mv", "lv"]))})
    table = {str(i): {"dr": draw(netgen.q(0.002, 0.02, nd=3)), "da": draw(st.sampled_from([0.0, 0.0, 0.5, 2.0])),
                      # a measured table need not be (1, 0 degree) at the neutral step
                      "r0": draw(st.sampled_from([1.0, 1.0, 1.012, 0.985])), "a0": draw(st.sampled_from([0.0, 0.0, 0.4])),
                      "vk0": draw(netgen.q(5.0, 14.0, nd=1)), "dvk": draw(netgen.q(0.0, 0.5, nd=2)),
                      "vkr0": draw(netgen.q(0.2, 1.0, nd=2))} for i in range(3)}
    return {"recipe": recipe, "assign": assign, "table": table,
            "opt": {"trafo_model": draw(st.sampled_from(["t", "pi"])), "calculate_voltage_angles": draw(st.sampled_from([True, True, False]))}}


def strategy(tier):
    return _case(tier)


def row(table, i, step):
    t = table[str(i)]
    return {"voltage_ratio": t.get("r0", 1.0) + t["dr"] * step, "angle_deg": t.get("a0", 0.0) + t["da"] * step, "vk": t["vk0"] + t["dvk"] * step,
            "vkr": t["vkr0"] * (1 + 0.05 * step)}


def build_pair(case):
    import pandas as pd
    recipe, assign, table = case["recipe"], case["assign"], case["table"]
    ra, rb = copy.deepcopy(recipe), copy.deepcopy(recipe)
    k = 0
    used = []
    for ea, eb in zip(ra["el"], rb["el"]):
        if ea["t"] not in ("trafo", "trafo3w"):
            continue
        a = assign[k]
        k += 1
        if a["id"] is None or ea.get("tap_at_star_point"):
            continue
        pos = a["pos"]
        r = row(table, a["id"], pos)
        for e in (ea, eb):
            for key in [x for x in e if x.startswith("tap")]:
                del e[key]
        ea.update(tap_changer_type="Ratio", tap_side=a["side"], tap_neutral=0, tap_min=-3, tap_max=3, tap_step_percent=1.0,
                  tap_pos=pos, tap_dependency_table=True, id_characteristic_table=a["id"])
        n = r["voltage_ratio"] * cmath.exp(1j * math.radians(r["angle_deg"])) - 1
        eb.update(tap_changer_type="Ratio", tap_side=a["side"], tap_neutral=0, tap_min=-3, tap_max=3,
                  tap_step_percent=abs(n) * 100.0, tap_step_degree=math.degrees(cmath.phase(n)) if abs(n) > 0 else 0.0,
                  tap_pos=1 if abs(n) > 0 else 0, tap_dependency_table=False)
        if ea["t"] == "trafo":
            eb.update(vk_percent=r["vk"], vkr_percent=min(r["vkr"], r["vk"]))
        else:
            for s, f in (("hv", 1.0), ("mv", 1.1), ("lv", 0.9)):
                eb["vk_%s_percent" % s] = r["vk"] * f
                eb["vkr_%s_percent" % s] = min(r["vkr"], r["vk"]) * f * 0.5
        used.append((ea["t"], a["id"], pos))
    rows = []
    for i in range(3):
        for step in range(-3, 4):
            r = row(table, i, step)
            vkr = min(r["vkr"], r["vk"])
            rows.append({"id_characteristic": i, "step": step, "voltage_ratio": r["voltage_ratio"], "angle_deg": r["angle_deg"],
                         "vk_percent": r["vk"], "vkr_percent": vkr,
                         "vk_hv_percent": r["vk"] * 1.0, "vkr_hv_percent": vkr * 0.5, "vk_mv_percent": r["vk"] * 1.1,
                         "vkr_mv_percent": vkr * 1.1 * 0.5, "vk_lv_percent": r["vk"] * 0.9, "vkr_lv_percent": vkr * 0.9 * 0.5})
    return ra, rb, pd.DataFrame(rows), used


def check(case):
    import pandapower as pp
    res = Result()
    ra, rb, tab, used = build_pair(case)
    if not used:
        res.skipped = "no-table-transformer"
        return res
    try:
        netA, mA = netgen.build(ra)
        netB, mB = netgen.build(rb)
    except Exception as e:
        res.skipped = "build-rejected:" + type(e).__name__
        return res
    netA["trafo_characteristic_table"] = tab
    sn = ra.get("sn_mva", 1.0)
    snapA = oracles.snapshot(netA)
    out = []
    for net in (netA, netB):
        try:
            with silence():
                pp.runpp(net, tolerance_mva=pf_tol(sn), max_iteration=40, **case["opt"])
            out.append("ok")
        except Exception as e:
            kind, what = pf_outcome(e)
            if kind == "fail":
                res.fail(what, error=repr(e)[:300], which="table" if net is netA else "direct")
                return res
            out.append(what)
    d = oracles.compare_snapshot(snapA, netA)
    if d:
        res.fail("table-run-changes-input/" + d[0].split(":")[0], diffs=d[:4])
    if out != ["ok", "ok"]:
        if (out[0] == "ok") != (out[1] == "ok"):
            res.fail("convergence-differs", outcome=out)
        res.skipped = "not-converged"
        return res
    ids = {}
    for t, i, pos in used:
        ids.setdefault(i, set()).add(pos)
    shared = any(len(v) >= 2 for v in ids.values()) and sum(1 for _ in used) >= 2
    has3w = any(t == "trafo3w" for t, _, _ in used)
    diffs = oracles.compare_results(netB, netA, atol=2e-6 * max(1.0, sn / 100.0), rtol=1e-7, angle_tol=1e-6,
                                    tables=[t for t in ("res_bus", "res_trafo", "res_trafo3w", "res_line") if len(netA[t])])
    if diffs:
        kind = "shared-id" if shared else "single"
        res.fail("table-differs-from-direct-values/%s%s/%s" % (kind, "+3w" if has3w else "", diffs[0].split("[")[0]),
                 diffs=diffs[:6], used=used)
    res.nontrivial = shared
    if shared:
        res.label("shared-id-different-positions")
    if has3w:
        res.label("trafo3w-with-table")
    res.label("table-trafos:%d" % min(len(used), 4))
    if any(case["table"][str(i)]["da"] for i in ids):
        res.label("table-angle")
    if any(pos == 0 and (case["table"][str(i)].get("r0", 1.0) != 1.0 or case["table"][str(i)].get("a0", 0.0) != 0.0) for _, i, pos in used):
        res.label("neutral-step-with-offnominal-row")
    return res
