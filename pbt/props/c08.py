"""C08 - Calculations never corrupt the user's network, even when they fail (DESIGN.md sec. 2, C08)."""
import copy
import math

from hypothesis import strategies as st

from pbt import netgen, oracles, faults
from pbt.core import Result, silence, exc_sig

ID = "C08"
LEVEL = "fault_enumeration"
EXAMPLES = {"quick": 640, "thorough": 16000}
SHRINK_S = {"quick": 30, "thorough": 120}
CALCS = ["runpp", "runpp_bfsw", "runpp_qlims", "rundcpp", "runopp", "rundcopp", "runpp_3ph", "calc_sc_3ph", "calc_sc_2ph",
         "calc_sc_1ph", "calc_sc_min_branch", "estimate", "run_contingency"]
NATURAL = ["none", "no-slack", "df-zero", "nan-parameter", "unknown-algorithm", "overload", "zip-over-100", "conflicting-setpoints"]
RULE = ("Enumerated part: EVERY distinct crash point (function x first/last call x before/after) of the recorded call trace of fixed networks (dcline, tap table, 3W transformer) for 3 (quick) / all 14 x 2 (thorough) calculations. Generated part: Hypothesis draws a network recipe (dclines, tap-table transformers, short-circuit / zero-sequence / OPF / measurement "
        "data, tap controller), one calculation of " + ", ".join(CALCS) + " and a fault: none | natural (" + ", ".join(NATURAL[1:]) +
        ") | injected = InjectedFault raised before/after the n-th call of a pipeline function chosen from the recorded call "
        "trace of a fault-free run of the same calculation (pbt/faults.py wraps every plain-Python function of the pipeline "
        "modules). Oracle: deep snapshot of all input tables before, calculation inside try/except, comparison after: no changed "
        "pre-existing value, no added/removed rows, same std_types/user options. Non-trivial = the calculation raised, or the net "
        "contains a dcline / tap table; distinct by case hash (recipe, calculation, fault point).")
ASSUMPTIONS = ["a fault injected on entry of the restoring function itself (auxiliary._clean_up) is counted and not judged",
               "crash points are enumerated at function-call granularity of the Python pipeline (not inside numba/scipy kernels)",
               "added columns are not violations (the property speaks of values and rows); dtype-only changes are ignored",
               "DC elements appear only in one fixed fixture (two VSC converters on a DC line); b2b VSC is not covered"]

CLEANUP_CODE = {"auxiliary._clean_up"}
PROFILE = netgen.profile(dcline=True, oos=0.04, open_prob=0.15, nb_max=8, max_per_bus=2, second_slack=False, noslack_island=False,
                         trafo3w=True, custom_index=True,
                         bus_kinds={"load": 5, "sgen": 3, "gen": 2, "storage": 1, "shunt": 1, "ward": 1, "xward": 1, "motor": 1,
                                    "asymmetric_load": 0, "asymmetric_sgen": 0})


@st.composite
def _case(draw, tier):
    recipe = draw(netgen.grid(PROFILE))
    calc = draw(st.sampled_from(CALCS))
    kind = draw(st.sampled_from(["none", "natural", "injected", "injected", "injected"]))
    fault = {"kind": kind}
    if kind == "natural":
        fault["what"] = draw(st.sampled_from(NATURAL[1:]))
    elif kind == "injected":
        fault["point"] = draw(st.integers(0, 10 ** 6))
        fault["when"] = draw(st.sampled_from(["before", "after"]))
        fault["exc"] = draw(st.sampled_from(["exception", "exception", "interrupt"]))
    return {"recipe": recipe, "calc": calc, "fault": fault, "tap_table": draw(st.booleans()), "sel": draw(st.integers(0, 1000))}


def strategy(tier):
    return _case(tier)


def _line(a, b, vn=110.0):
    L = netgen.LEVELS[vn]
    return {"t": "line", "from_bus": a, "to_bus": b, "length_km": L["l"][0] * 2, "r_ohm_per_km": L["r"][0], "x_ohm_per_km": L["x"][0],
            "c_nf_per_km": 10.0, "max_i_ka": L["i"][1]}


FIXED_RECIPES = [
    # 110/20 kV feeder with a dcline, a PV gen, a tap-changer transformer (gets the tap table) and an impedance switch
    {"sn_mva": 1.0, "f_hz": 50.0, "buses": [{"vn_kv": 110.0}, {"vn_kv": 110.0}, {"vn_kv": 110.0}, {"vn_kv": 20.0}, {"vn_kv": 20.0}],
     "el": [_line(0, 1), _line(1, 2), _line(3, 4, 20.0),
            {"t": "trafo", "hv_bus": 2, "lv_bus": 3, "sn_mva": 25.0, "vn_hv_kv": 110.0, "vn_lv_kv": 20.0, "vk_percent": 12.0, "vkr_percent": 0.4,
             "pfe_kw": 14.0, "i0_percent": 0.07, "shift_degree": 0.0, "tap_changer_type": "Ratio", "tap_side": "hv", "tap_neutral": 0,
             "tap_min": -4, "tap_max": 4, "tap_step_percent": 1.25, "tap_pos": 1},
            {"t": "ext_grid", "bus": 0, "vm_pu": 1.01, "va_degree": 0.0},
            {"t": "gen", "bus": 2, "p_mw": 5.0, "vm_pu": 1.0, "min_q_mvar": -3.0, "max_q_mvar": 3.0},
            {"t": "load", "bus": 1, "p_mw": 8.0, "q_mvar": 2.0, "const_z_p_percent": 30.0}, {"t": "load", "bus": 4, "p_mw": 2.0, "q_mvar": 0.5},
            {"t": "sgen", "bus": 4, "p_mw": 0.5, "q_mvar": 0.0}, {"t": "shunt", "bus": 3, "q_mvar": -0.5, "p_mw": 0.0},
            {"t": "dcline", "from_bus": 0, "to_bus": 2, "p_mw": 3.0, "loss_percent": 1.0, "loss_mw": 0.01, "vm_from_pu": 1.01, "vm_to_pu": 1.0},
            {"t": "switch", "et": "l", "bus": 1, "element": 1, "closed": True}]},
    # three voltage levels with a three-winding transformer and an xward
    {"sn_mva": 10.0, "f_hz": 50.0, "buses": [{"vn_kv": 110.0}, {"vn_kv": 110.0}, {"vn_kv": 20.0}, {"vn_kv": 0.4}, {"vn_kv": 20.0}],
     "el": [_line(0, 1), _line(2, 4, 20.0),
            {"t": "trafo3w", "hv_bus": 1, "mv_bus": 2, "lv_bus": 3, "vn_hv_kv": 110.0, "vn_mv_kv": 20.0, "vn_lv_kv": 0.4, "sn_hv_mva": 40.0,
             "sn_mv_mva": 25.0, "sn_lv_mva": 1.0, "vk_hv_percent": 10.0, "vk_mv_percent": 11.0, "vk_lv_percent": 9.0, "vkr_hv_percent": 0.3,
             "vkr_mv_percent": 0.3, "vkr_lv_percent": 0.3, "pfe_kw": 20.0, "i0_percent": 0.1, "shift_mv_degree": 0.0, "shift_lv_degree": 0.0},
            {"t": "ext_grid", "bus": 0, "vm_pu": 1.0, "va_degree": 0.0}, {"t": "load", "bus": 4, "p_mw": 3.0, "q_mvar": 1.0},
            {"t": "load", "bus": 3, "p_mw": 0.2, "q_mvar": 0.05}, {"t": "storage", "bus": 2, "p_mw": -0.5, "q_mvar": 0.0, "max_e_mwh": 1.0},
            {"t": "xward", "bus": 4, "ps_mw": 0.3, "qs_mvar": 0.1, "pz_mw": 0.2, "qz_mvar": 0.05, "r_ohm": 0.5, "x_ohm": 4.0, "vm_pu": 1.0},
            {"t": "dcline", "from_bus": 0, "to_bus": 1, "p_mw": 2.0, "loss_percent": 0.5, "loss_mw": 0.0, "vm_from_pu": 1.0, "vm_to_pu": 1.0}]},
]
ENUM_CALCS = {"quick": [(0, "runpp"), (0, "runopp"), (0, "calc_sc_1ph"), (0, "run_contingency")],
              "thorough": [(r, c) for r in (0, 1) for c in CALCS]}
_ENUM_CACHE = {}


def enumerate_cases(tier):
    """every distinct crash point (function x first/last occurrence x before/after) of the recorded fault-free call trace
    of fixed networks with a dcline and a tap table"""
    if tier in _ENUM_CACHE:
        return _ENUM_CACHE[tier]
    faults.install()
    cases = []
    for ri, calc in ENUM_CALCS[tier]:
        base = {"recipe": FIXED_RECIPES[ri], "calc": calc, "fault": {"kind": "none"}, "tap_table": True, "sel": 3}
        try:
            net, maps = netgen.build(decorate(base["recipe"]))
            prepare(net, maps, base)
            with silence(), faults.recording() as st_:
                try:
                    runner(calc, "none")(net)
                except BaseException:
                    pass
            trace = list(st_.trace)
        except Exception:
            trace = []
        for name, n, when in faults.distinct_points(trace):
            cases.append(dict(base, fault={"kind": "injected", "name": name, "n": n, "when": when,
                                            "exc": "interrupt" if len(cases) % 3 == 2 else "exception"}))
    # fixture with DC elements (VSC converters): plain runs and a handful of crash points, two per-unit bases
    for sn in (1.0, 100.0):
        base = {"recipe": {"sn_mva": sn, "buses": [], "el": []}, "fixture": "vsc", "calc": "runpp", "fault": {"kind": "none"},
                "tap_table": False, "sel": 0}
        cases.append(base)
        for name in ("build_bus._build_bus_ppc", "pd2ppc._pd2ppc", "powerflow._ppci_to_net", "results._extract_results"):
            cases.append(dict(base, fault={"kind": "injected", "name": name, "n": 1, "when": "after", "exc": "exception"}))
    _ENUM_CACHE[tier] = cases
    return cases


def decorate(recipe):
    """add short-circuit / zero-sequence data so that the sc and 3ph calculations have a chance to run"""
    r = copy.deepcopy(recipe)
    for e in r["el"]:
        t = e["t"]
        if t == "ext_grid":
            e.update(s_sc_max_mva=1000.0, s_sc_min_mva=800.0, rx_max=0.1, rx_min=0.1, r0x0_max=0.1, x0x_max=1.0)
        elif t == "line":
            e.update(r0_ohm_per_km=3 * e["r_ohm_per_km"], x0_ohm_per_km=3 * e["x_ohm_per_km"], c0_nf_per_km=e["c_nf_per_km"],
                     endtemp_degree=80.0)
        elif t == "trafo":
            e.update(vector_group="Dyn", vk0_percent=e["vk_percent"], vkr0_percent=e["vkr_percent"], mag0_percent=100.0,
                     mag0_rx=0.0, si0_hv_partial=0.9)
        elif t == "gen":
            vn = r["buses"][e["bus"]]["vn_kv"]
            e.update(vn_kv=vn, xdss_pu=0.2, rdss_ohm=0.005, cos_phi=0.8, sn_mva=max(1.0, 2 * abs(e["p_mw"])))
        elif t == "sgen":
            e.update(sn_mva=max(0.1, 2 * abs(e["p_mw"])), k=1.2)
    return r


def prepare(net, maps, case):
    """deterministic additions that need the built net: tap table, OPF data, measurements, controller"""
    import pandapower as pp
    import pandas as pd
    calc = case["calc"]
    if case.get("tap_table") and len(net.trafo):
        tid = net.trafo.index[case["sel"] % len(net.trafo)]
        rows = []
        for step in range(-4, 5):
            rows.append({"id_characteristic": 0, "step": step, "voltage_ratio": 1 + 0.0125 * step, "angle_deg": 0.0,
                         "vk_percent": net.trafo.at[tid, "vk_percent"] + 0.1 * step, "vkr_percent": net.trafo.at[tid, "vkr_percent"],
                         "vk_hv_percent": float("nan"), "vkr_hv_percent": float("nan"), "vk_mv_percent": float("nan"),
                         "vkr_mv_percent": float("nan"), "vk_lv_percent": float("nan"), "vkr_lv_percent": float("nan")})
        net["trafo_characteristic_table"] = pd.DataFrame(rows)
        net.trafo["tap_dependency_table"] = False
        net.trafo["id_characteristic_table"] = pd.array([pd.NA] * len(net.trafo), dtype="Int64")
        net.trafo.at[tid, "tap_dependency_table"] = True
        net.trafo.at[tid, "id_characteristic_table"] = 0
        if not isinstance(net.trafo.at[tid, "tap_changer_type"], str):
            net.trafo.at[tid, "tap_changer_type"] = "Ratio"
            net.trafo.at[tid, "tap_side"] = "hv"
            net.trafo.at[tid, "tap_neutral"] = 0
            net.trafo.at[tid, "tap_min"] = -4
            net.trafo.at[tid, "tap_max"] = 4
            net.trafo.at[tid, "tap_step_percent"] = 1.25
        net.trafo.at[tid, "tap_pos"] = float((case["sel"] % 5) - 2)
    if calc in ("runopp", "rundcopp"):
        net.bus["min_vm_pu"] = 0.9
        net.bus["max_vm_pu"] = 1.1
        for i in net.gen.index:
            net.gen.at[i, "min_p_mw"] = 0.0
            net.gen.at[i, "max_p_mw"] = max(1.0, 2 * abs(net.gen.at[i, "p_mw"]))
            net.gen.at[i, "controllable"] = True
            if "min_q_mvar" not in net.gen or math.isnan(net.gen.at[i, "min_q_mvar"]):
                net.gen.at[i, "min_q_mvar"] = -max(1.0, abs(net.gen.at[i, "p_mw"]))
                net.gen.at[i, "max_q_mvar"] = max(1.0, abs(net.gen.at[i, "p_mw"]))
            pp.create_poly_cost(net, i, "gen", cp1_eur_per_mw=10.0 + int(i) % 7)
        for i in net.ext_grid.index:
            pp.create_poly_cost(net, i, "ext_grid", cp1_eur_per_mw=20.0)
        for i in net.dcline.index:
            net.dcline.at[i, "max_p_mw"] = max(1.0, 2 * abs(net.dcline.at[i, "p_mw"]))
            net.dcline.at[i, "min_q_from_mvar"] = -5.0
            net.dcline.at[i, "max_q_from_mvar"] = 5.0
            net.dcline.at[i, "min_q_to_mvar"] = -5.0
            net.dcline.at[i, "max_q_to_mvar"] = 5.0
    if calc == "estimate":
        for b in net.bus.index:
            pp.create_measurement(net, "v", "bus", 1.0, 0.01, element=b)
            pp.create_measurement(net, "p", "bus", 0.0, 0.1, element=b)
            pp.create_measurement(net, "q", "bus", 0.0, 0.1, element=b)
        for l in net.line.index:
            pp.create_measurement(net, "p", "line", 0.0, 0.1, element=l, side="from")
    if calc == "run_control" and len(net.trafo):
        from pandapower.control import DiscreteTapControl, ConstControl
        tid = net.trafo.index[case["sel"] % len(net.trafo)]
        if isinstance(net.trafo.at[tid, "tap_changer_type"], str):
            DiscreteTapControl(net, tid, 0.98, 1.02)


def apply_natural(net, what, sel):
    if what == "no-slack":
        net.ext_grid["in_service"] = False
        if len(net.gen):
            net.gen["slack"] = False
    elif what == "df-zero" and len(net.line):
        net.line.at[net.line.index[sel % len(net.line)], "df"] = 0.0
    elif what == "nan-parameter" and len(net.line):
        net.line.at[net.line.index[sel % len(net.line)], "x_ohm_per_km"] = float("nan")
    elif what == "overload":
        net.load["scaling"] = 200.0
    elif what == "zip-over-100" and len(net.load):
        net.load.at[net.load.index[sel % len(net.load)], "const_z_p_percent"] = 80.0
        net.load.at[net.load.index[sel % len(net.load)], "const_i_p_percent"] = 70.0
    elif what == "conflicting-setpoints" and len(net.gen):
        i = net.gen.index[sel % len(net.gen)]
        import pandapower as pp
        pp.create_gen(net, net.gen.at[i, "bus"], 0.1, vm_pu=net.gen.at[i, "vm_pu"] + 0.03)


def runner(calc, what):
    import pandapower as pp
    alg = "does-not-exist" if what == "unknown-algorithm" else None

    def f(net):
        if calc == "runpp":
            pp.runpp(net, algorithm=alg or "nr")
        elif calc == "runpp_bfsw":
            pp.runpp(net, algorithm=alg or "bfsw")
        elif calc == "runpp_qlims":
            pp.runpp(net, algorithm=alg or "nr", enforce_q_lims=True, calculate_voltage_angles=True, numba=False)
        elif calc == "rundcpp":
            pp.rundcpp(net)
        elif calc == "runopp":
            pp.runopp(net, calculate_voltage_angles=False)
        elif calc == "rundcopp":
            pp.rundcopp(net)
        elif calc == "runpp_3ph":
            from pandapower.pf.runpp_3ph import runpp_3ph
            runpp_3ph(net)
        elif calc.startswith("calc_sc"):
            import pandapower.shortcircuit as sc
            if calc == "calc_sc_min_branch":
                sc.calc_sc(net, fault="3ph", case="min", branch_results=True, ip=True, ith=True)
            else:
                sc.calc_sc(net, fault=calc.split("_")[-1], case="max")
        elif calc == "estimate":
            from pandapower.estimation import estimate
            estimate(net, init="flat")
        elif calc == "run_contingency":
            from pandapower.contingency import run_contingency
            kw = {"raise_errors": True} if what in ("overload", "df-zero") else {}
            run_contingency(net, {"line": {"index": list(net.line.index)}}, **kw)
        elif calc == "run_control":
            from pandapower.control import run_control
            run_control(net)
        else:
            raise KeyError(calc)
    return f


def classify(diffs, raised):
    d = diffs[0]
    head = d.split(":")[0]
    kind = "rows" if "rows added" in d or "row order" in d else ("values" if "values changed" in d else "other")
    return "%s/%s/%s" % (head, kind, "raise" if raised else "return")


def build_vsc_net(sn_mva):
    """HVDC link of two VSC converters (netgen has no DC elements): one converter controls the DC voltage, the other the power"""
    import pandapower as pp
    net = pp.create_empty_network(sn_mva=sn_mva)
    pp.create_buses(net, 3, 110.)
    pp.create_line_from_parameters(net, 0, 1, 30., 0.0487, 0.13823, 160., 0.664)
    pp.create_line_from_parameters(net, 0, 2, 30., 0.0487, 0.13823, 160., 0.664)
    pp.create_ext_grid(net, 0)
    pp.create_load(net, 2, 10., 5.)
    pp.create_bus_dc(net, 110., "A")
    pp.create_bus_dc(net, 110., "B")
    pp.create_line_dc_from_parameters(net, 0, 1, 100., 0.1, 1.)
    pp.create_vsc(net, 1, 0, 0.1, 5., 0.15, control_mode_ac="vm_pu", control_value_ac=1., control_mode_dc="vm_pu", control_value_dc=1.02)
    pp.create_vsc(net, 2, 1, 0.1, 5., 0.15, control_mode_ac="vm_pu", control_value_ac=1., control_mode_dc="p_mw", control_value_dc=5.)
    return net


def check(case):
    res = Result()
    faults.install()
    calc, fault = case["calc"], case["fault"]
    res.label("calc:" + calc, "fault:" + fault["kind"])
    try:
        if case.get("fixture") == "vsc":
            net, maps = build_vsc_net(case["recipe"]["sn_mva"]), {}
            res.label("fixture:vsc")
        else:
            recipe = decorate(case["recipe"])
            net, maps = netgen.build(recipe)
            prepare(net, maps, case)
    except Exception as e:
        res.skipped = "build-rejected:" + type(e).__name__
        return res
    what = fault.get("what", "none") if fault["kind"] == "natural" else "none"
    if what != "none":
        apply_natural(net, what, case["sel"])
        res.label("natural:" + what)
    run = runner(calc, what)
    plan = None
    if fault["kind"] == "injected":
        probe = copy.deepcopy(net)
        with silence(), faults.recording() as st_:
            try:
                run(probe)
            except BaseException:
                pass
        trace = list(st_.trace)
        if not trace:
            res.skipped = "empty-trace"
            return res
        if "name" in fault:      # enumerated crash point
            name, n = fault["name"], fault["n"]
        else:
            name, n = trace[fault["point"] % len(trace)]
        plan = (name, n, fault["when"], fault.get("exc", "exception"))
        if name in CLEANUP_CODE and fault["when"] == "before":
            # a crash on entry of the restoring code itself cannot be recovered by that code: counted, not judged
            res.skipped = "fault-inside-cleanup-code"
            return res
        res.label("inject:" + name.split(".")[0])
    snap = oracles.snapshot(net)
    raised = None
    with silence(), faults.recording(plan) as st_:
        try:
            run(net)
        except BaseException as e:    # noqa: the property covers every way of leaving the calculation
            raised = e
    if plan is not None:
        if not st_.fired:
            res.label("fault-not-reached")
        elif not isinstance(raised, (faults.InjectedFault, faults.InjectedInterrupt)):
            res.label("fault-swallowed")
        if plan[3] == "interrupt":
            res.label("fault:interrupt(BaseException)")
    diffs = oracles.compare_snapshot(snap, net)
    if diffs:
        res.fail(classify(diffs, raised is not None), calc=calc, diffs=diffs[:6],
                 raised=repr(raised)[:200] if raised is not None else None, plan=plan)
    special = len(net.dcline) > 0 or case.get("tap_table") or case.get("fixture")
    res.nontrivial = raised is not None or bool(special)
    res.label("outcome:" + ("raised" if raised is not None else "returned"))
    if len(net.dcline):
        res.label("has-dcline")
    if case.get("tap_table") and len(net.trafo):
        res.label("has-tap-table")
    return res
