"""C09 - Calculation results do not depend on the history of the network object (DESIGN.md sec. 2, C09)."""
import copy
import math

from hypothesis import strategies as st

from pbt import netgen, oracles
from pbt.core import Result, silence, pf_outcome, exc_sig
from pbt.props import c08

ID = "C09"
LEVEL = "exploration"
EXAMPLES = {"quick": 320, "thorough": 8000}
SHRINK_S = {"quick": 40, "thorough": 150}
RUNS = ["runpp", "runpp", "runpp", "rundcpp", "calc_sc", "runpp_3ph", "runopp", "run_control"]
RULE = ("Hypothesis draws a network recipe and a history of 3-12 JSON operations: edits (load/sgen p,q,scaling; gen vm/p; tap "
        "position; line length; sn_mva), in_service toggles, switch toggles, adding/dropping a load, and calculations (runpp with "
        "drawn algorithm/init incl. 'results'/angles/numba/lightsim2grid/recycle, rundcpp, runopp, calc_sc, runpp_3ph, "
        "run_control). The list is interpreted on ONE network object. Oracle after every calculation step: the same call on a "
        "fresh copy of the current state (deep copy with results, _ppc, lookups and options reset) gives the same outcome class, "
        "converged flag and result tables; init='results' (only drawn when the previous power flow used the same angle "
        "convention and <= 2 edit/switch steps lie in between) must converge to the fresh solution whenever the fresh run "
        "converges. Non-trivial = >= 2 calculations with >= 1 edit in between; distinct by case hash.")
ASSUMPTIONS = ["init='results' is only exercised after a successful run with the same calculate_voltage_angles and within 2 "
               "edit/switching steps (nearby state)", "result tolerance 1e-6 MVA scaled / 1e-8 p.u.; a spurious low-voltage solution "
               "(vm<0.5) of either run is counted, not compared"]

PROFILE = netgen.profile(dcline=False, oos=0.04, open_prob=0.3, nb_max=8, max_per_bus=2, second_slack=False, noslack_island=False,
                         trafo3w=True, custom_index=False, shifts=(0.0, 0.0, 30.0, 150.0),
                         bus_kinds={"load": 5, "sgen": 3, "gen": 2, "storage": 1, "shunt": 1, "ward": 1, "xward": 0, "motor": 0,
                                    "asymmetric_load": 0, "asymmetric_sgen": 0})


@st.composite
def _op(draw):
    k = draw(st.sampled_from(["edit", "edit", "toggle", "switch", "switch", "open_bb", "add", "drop", "add_gen", "slack_handover", "slack_back",
                            "run", "run", "run", "run", "run"]))
    if k == "edit":
        return {"op": "edit", "kind": draw(st.sampled_from(["load_p", "load_scaling", "sgen_q", "gen_vm", "gen_p", "tap", "line_len", "sn_mva"])),
                "sel": draw(st.integers(0, 30)), "val": draw(st.sampled_from([0.0, 0.5, 0.8, 1.25, 2.0]))}
    if k == "toggle":
        return {"op": "toggle", "table": draw(st.sampled_from(["line", "load", "sgen", "trafo", "gen", "bus", "ext_grid", "ext_grid"])),
                "sel": draw(st.integers(0, 30))}
    if k in ("switch", "add", "drop", "open_bb", "add_gen", "slack_handover", "slack_back"):
        return {"op": k, "sel": draw(st.integers(0, 30))}
    calc = draw(st.sampled_from(RUNS))
    o = {"op": "run", "calc": calc}
    if calc == "runpp":
        o.update(init=draw(st.sampled_from(["auto", "flat", "dc", "results", "results"])),
                 algorithm=draw(st.sampled_from(["nr", "nr", "nr", "iwamoto_nr", "gs"])),
                 angles=draw(st.sampled_from([True, True, False])), numba=draw(st.sampled_from([True, True, False])),
                 lightsim2grid=draw(st.sampled_from([False, "auto"])), recycle=draw(st.sampled_from([None, None, "bus_pq"])),
                 enforce_q_lims=draw(st.sampled_from([False, False, True])))
    return o


@st.composite
def _case(draw, tier):
    recipe = draw(netgen.grid(PROFILE))
    n = draw(st.integers(3, 8 if tier == "quick" else 12))
    ops = [draw(_op()) for _ in range(n)]
    if not any(o["op"] == "run" for o in ops):
        ops.append({"op": "run", "calc": "runpp", "init": "auto", "algorithm": "nr", "angles": True, "numba": True,
                    "lightsim2grid": False, "recycle": None})
    return {"recipe": recipe, "ops": ops}


def strategy(tier):
    return _case(tier)


def apply_edit(net, o):
    import pandapower as pp
    k = o["op"]
    sel = o["sel"]

    def pick(tab):
        return net[tab].index[sel % len(net[tab])] if len(net[tab]) else None
    if k == "edit":
        kind, v = o["kind"], o["val"]
        if kind == "load_p" and len(net.load):
            net.load.at[pick("load"), "p_mw"] *= v
        elif kind == "load_scaling" and len(net.load):
            net.load.at[pick("load"), "scaling"] = v
        elif kind == "sgen_q" and len(net.sgen):
            net.sgen.at[pick("sgen"), "q_mvar"] *= v
        elif kind == "gen_vm" and len(net.gen):
            i = pick("gen")
            b = net.gen.at[i, "bus"]
            newv = round(0.98 + 0.02 * v, 4)
            net.gen.loc[net.gen.bus == b, "vm_pu"] = newv
            net.ext_grid.loc[net.ext_grid.bus == b, "vm_pu"] = newv
        elif kind == "gen_p" and len(net.gen):
            net.gen.at[pick("gen"), "p_mw"] *= v
        elif kind == "tap" and len(net.trafo):
            i = pick("trafo")
            if isinstance(net.trafo.at[i, "tap_changer_type"], str):
                lo, hi = net.trafo.at[i, "tap_min"], net.trafo.at[i, "tap_max"]
                net.trafo.at[i, "tap_pos"] = float(lo + (sel % int(hi - lo + 1)))
        elif kind == "line_len" and len(net.line):
            net.line.at[pick("line"), "length_km"] *= (v if v > 0 else 1.5)
        elif kind == "sn_mva":
            net.sn_mva = {0.0: 1.0, 0.5: 10.0, 0.8: 100.0, 1.25: 0.5, 2.0: 1000.0}[v]
    elif k == "toggle":
        tab = o["table"]
        if len(net[tab]):
            i = pick(tab)
            net[tab].at[i, "in_service"] = not bool(net[tab].at[i, "in_service"])
    elif k == "switch" and len(net.switch):
        i = pick("switch")
        net.switch.at[i, "closed"] = not bool(net.switch.at[i, "closed"])
    elif k == "open_bb" and len(net.switch):
        net.switch.loc[net.switch.et == "b", "closed"] = False
    elif k == "add":
        b = net.bus.index[sel % len(net.bus)]
        pp.create_load(net, b, p_mw=0.01 * netgen.LEVELS.get(float(net.bus.at[b, "vn_kv"]), {"s": 1.0})["s"], q_mvar=0.0)
    elif k == "add_gen":
        # a further PV generator at a bus that already has a voltage-controlling element (same setpoint)
        if len(net.gen):
            i = pick("gen")
            b, v = net.gen.at[i, "bus"], float(net.gen.at[i, "vm_pu"])
        else:
            i = pick("ext_grid")
            b, v = net.ext_grid.at[i, "bus"], float(net.ext_grid.at[i, "vm_pu"])
        pp.create_gen(net, b, p_mw=0.05 * netgen.LEVELS.get(float(net.bus.at[b, "vn_kv"]), {"s": 1.0})["s"], vm_pu=v)
    elif k == "slack_handover" and len(net.gen):
        # all external grids go out of service, a generator becomes the slack
        net.ext_grid["in_service"] = False
        net.gen.at[pick("gen"), "slack"] = True
    elif k == "slack_back":
        net.ext_grid["in_service"] = True
        net.gen["slack"] = False
    elif k == "drop" and len(net.load) > 1:
        from pandapower.toolbox import drop_elements_simple
        drop_elements_simple(net, "load", [pick("load")])


def call(net, o, init_override=None):
    import pandapower as pp
    c = o["calc"]
    with silence():
        if c == "runpp":
            init = init_override or o["init"]
            kw = dict(algorithm=o["algorithm"], calculate_voltage_angles=o["angles"], numba=o["numba"], init=init,
                      tolerance_mva=1e-9 / float(net.sn_mva),
                      max_iteration={"nr": 30, "iwamoto_nr": 30, "gs": 10000}[o["algorithm"]])
            if o["algorithm"] == "nr":
                kw["lightsim2grid"] = o["lightsim2grid"]
            if o.get("enforce_q_lims") and o["algorithm"] in ("nr", "iwamoto_nr"):
                kw["enforce_q_lims"] = True
            if o.get("recycle") and o["algorithm"] == "nr":
                kw["recycle"] = {"bus_pq": True, "trafo": False, "gen": False}
            pp.runpp(net, **kw)
        elif c == "rundcpp":
            pp.rundcpp(net)
        elif c == "runopp":
            pp.runopp(net, calculate_voltage_angles=False)
        elif c == "calc_sc":
            import pandapower.shortcircuit as sc
            sc.calc_sc(net, case="max", ip=True)
        elif c == "runpp_3ph":
            from pandapower.pf.runpp_3ph import runpp_3ph
            runpp_3ph(net)
        elif c == "run_control":
            from pandapower.control import run_control
            run_control(net)


TABLES = {"runpp": None, "rundcpp": None, "run_control": None, "runopp": None,
          "calc_sc": ["res_bus_sc"], "runpp_3ph": ["res_bus_3ph", "res_line_3ph", "res_trafo_3ph", "res_ext_grid_3ph"]}


def outcome(fn):
    try:
        fn()
        return "ok", None
    except Exception as e:
        kind, what = pf_outcome(e)
        if kind == "skip":
            return what.split(":")[0], e
        return "crash:" + exc_sig(e), e


def check(case):
    res = Result()
    recipe = c08.decorate(case["recipe"])
    try:
        net, maps = netgen.build(recipe)
        # OPF data so that runopp has a chance
        import pandapower as pp
        net.bus["min_vm_pu"] = 0.9
        net.bus["max_vm_pu"] = 1.1
        for i in net.gen.index:
            net.gen.at[i, "min_p_mw"], net.gen.at[i, "max_p_mw"], net.gen.at[i, "controllable"] = 0.0, max(1.0, 2 * abs(net.gen.at[i, "p_mw"])), True
            pp.create_poly_cost(net, i, "gen", cp1_eur_per_mw=10.0)
        for i in net.ext_grid.index:
            pp.create_poly_cost(net, i, "ext_grid", cp1_eur_per_mw=20.0)
    except Exception as e:
        res.skipped = "build-rejected:" + type(e).__name__
        return res
    n_runs = 0
    edits_since_run = 0
    edits_between = False
    last_pf = None     # (angles, ok, edits since)
    only_pq_edits = True
    last_runpp = None
    for step, o in enumerate(case["ops"]):
        if o["op"] != "run":
            try:
                apply_edit(net, o)
            except Exception as e:
                res.skipped = "edit-rejected:" + type(e).__name__
                return res
            edits_since_run += 1
            if not (o["op"] == "edit" and o["kind"] in ("load_p", "load_scaling", "sgen_q")):
                only_pq_edits = False
            continue
        o = dict(o)
        calc = o["calc"]
        if calc == "runpp" and o["init"] == "results":
            nearby = last_pf is not None and last_pf[1] and last_pf[0] == o["angles"] and edits_since_run <= 2
            if not nearby:
                o["init"] = "auto"
                res.label("init-results-excluded(not nearby / other angle convention)")
            else:
                res.label("init-results")
                if net.res_bus.vm_pu.isna().any():
                    res.label("init-results-after-unsupplied-buses")
        if calc == "runpp" and o.get("recycle"):
            # recycle is a promise of the caller that only the named parts changed since the previous power flow:
            # only used directly after a successful runpp with the same options and PQ edits only
            same = last_runpp is not None and last_runpp == (o["algorithm"], o["angles"]) and only_pq_edits
            if not same or o["algorithm"] != "nr":
                o["recycle"] = None
            else:
                res.label("recycle-bus_pq")
        fresh = oracles.strip_results(net)
        oh, eh = outcome(lambda: call(net, o))
        of, ef = outcome(lambda: call(fresh, o, init_override="auto" if (calc == "runpp" and o["init"] == "results") else None))
        n_runs += 1
        if n_runs >= 2 and edits_since_run:
            edits_between = True
        tag = calc + ("/init-results" if calc == "runpp" and o["init"] == "results" else "") + \
            ("/recycle" if o.get("recycle") else "")
        res.label("run:" + calc, "outcome:" + oh.split(":")[0])
        if oh.startswith("crash") and of.startswith("crash"):
            pass    # the calculation itself fails on this state; not a history effect (other properties cover crashes)
        elif oh != of:
            if not (oh in ("rejected", "not-converged") and of in ("rejected", "not-converged")):
                res.fail("outcome-differs/%s/history:%s/fresh:%s" % (tag, oh.split("@")[0], of.split("@")[0]), step=step, op=o,
                         history=repr(eh)[:200], fresh=repr(ef)[:200])
        elif oh == "ok":
            sn = float(net.sn_mva)
            degenerate = False
            for t in ("res_bus",):
                if calc in ("runpp", "run_control") and len(net[t]) and (min(net[t].vm_pu.min(), fresh[t].vm_pu.min()) < 0.5):
                    degenerate = True
            if degenerate:
                res.label("degenerate-solution-skipped")
            else:
                tabs = TABLES[calc]
                if tabs is None:
                    tabs = sorted(set(oracles.res_tables(net)) | set(oracles.res_tables(fresh)))
                    tabs = [t for t in tabs if not t.endswith(("_sc", "_3ph", "_est"))]
                diffs = oracles.compare_results(fresh, net, atol=2e-6 * max(1.0, sn / 100.0), rtol=1e-7, angle_tol=1e-6, tables=tabs)
                if calc in ("runpp", "rundcpp", "run_control") and bool(net.get("converged")) != bool(fresh.get("converged")):
                    diffs.insert(0, "converged flag %s vs %s" % (fresh.get("converged"), net.get("converged")))
                if diffs:
                    first = diffs[0].split("[")[0].split(":")[0]
                    res.fail("results-differ/%s/%s" % (tag, first), step=step, op=o, diffs=diffs[:6])
        if calc in ("runpp", "run_control"):
            last_pf = (o.get("angles", True) if calc == "runpp" else last_pf[0] if last_pf else True, oh == "ok")
        elif calc in ("rundcpp", "runopp"):
            last_pf = (None, False)
        edits_since_run = 0
        only_pq_edits = True
        last_runpp = (o["algorithm"], o["angles"]) if (calc == "runpp" and oh == "ok") else None
        if res.failures:
            break
    res.nontrivial = n_runs >= 2 and edits_between
    return res
