"""C17 - OPF minimises exactly the user-defined cost functions (DESIGN.md sec. 2, C17)."""
import math

from pbt import c16_gen as gen
from pbt import c17_dcopf as ref
from pbt.core import Result, silence

ID = "C17"
LEVEL = "exploration"
EXAMPLES = {"quick": 192, "thorough": 9000}
SHRINK_S = {"quick": 4, "thorough": 30}     # hand-reduced witnesses of the known shapes are in replays/
DEADLINE_S = {"quick": 600, "thorough": 3000}
RULE = ("Hypothesis draws an OPF problem as for C16 (network, controllable flags, limits, dclines, branch limits) with cost entries on "
        "gen, sgen, load, storage, ext_grid and dcline: polynomial (c0, c1, c2 for p and q), piecewise linear (1-3 convex segments for "
        "generators, one segment for consumers and for q, as documented), poly+pwl mixes on different elements, costs on "
        "non-dispatched elements; all convex in the user's own variable; AC or DC OPF. Oracle A (AC+DC): net.res_cost equals the sum "
        "of the user's cost functions evaluated by the harness at the element's own result power (dcline: p_from_mw). Oracle B (DC): "
        "the optimum of an independent DC-OPF (own susceptance model from the element tables, table limits, documented dcline loss "
        "relation; HiGHS LP with epigraph variables for linear/pwl costs, trust-constr/SLSQP for convex quadratic costs) equals "
        "res_cost; a lower pandapower cost is classified as infeasible, a higher one as sub-optimal. Signatures: a res_cost deviation that is "
        "exactly explained by the recorded shapes (entry of a non-dispatched element left out; poly entry next to pwl costs keeps only "
        "cp1; q constant without q slope) is reported per shape (res_cost/<shape>), anything else as res_cost/<mode>/other; a "
        "sub-optimal DC result is dc-optimum/suboptimal/impedance-at-sn_mva only if the reference with the impedance rating as extra "
        "limit reproduces pandapower's cost. Non-trivial = converged and "
        "(a cost on a load/storage/dcline or a quadratic/constant term or a pwl cost); distinct by case hash.")
ASSUMPTIONS = ["oracle A tolerance 1e-6 * (1 + sum |cost parts|); AC OPF with pwl costs: a deviation <= 5e-3 is re-evaluated with 1000x tighter "
               "documented solver tolerances (PDIPM_*; the epigraph variable of a pwl cost meets the function only within them)", "oracle B tolerance 2e-4 * (1 + sum |cost parts|) + interior-point "
               "cost tolerance; only where the reference model supports every in-service element (no trafo3w / impedance switch / xward)",
               "pwl convention: first segment is the straight line through the origin, outer segments extended (doc/opf/formulation.rst)",
               "non-convergence and documented rejections are legal and counted"]

CFG = dict(p_dc=0.5, cost_prob=0.8, quad=0.4, pwl=0.35, const=0.35, even_on_consumers=0.25, fixed_cost=0.04, scaling=0.02,
           q_cost=0.45, tight_branch=0.6, tight_dc=0.85, gen_index_gap=0.08, dcline_lossless=0.7, oos_el=0.01, oos_bus=0.005, dead_terminal=0.03)


def strategy(tier):
    return gen.opf_case(cfg=CFG)


def input_shapes(case):
    """facts about the input, used as labels (and as detail of an unexplained failure)"""
    shapes = set()
    by_type = {}
    for e in case["recipe"]["el"]:
        by_type.setdefault(e["t"], []).append(e)
    has_pwl = any(c["kind"] == "pwl" for c in case["costs"])
    for c in case["costs"]:
        if c["kind"] == "poly":
            even = c.get("cp2_eur_per_mw2") or c.get("cp0_eur")
            if c["et"] in ("load", "storage"):
                even = even or c.get("cq2_eur_per_mvar2") or c.get("cq0_eur")
            if c["et"] in ("load", "storage", "dcline") and even:
                shapes.add("consumer-even-term")
            if has_pwl and (c.get("cp0_eur") or c.get("cq1_eur_per_mvar") or c.get("cq0_eur")):
                shapes.add("pwl+poly-const-or-q")
        if c["et"] == "dcline" and any("index" in g for g in by_type.get("gen", [])):
            shapes.add("dcline-cost+gen-index-gap")
    return shapes


def known_deviations(case, parts, dispatched, ac):
    """What the recorded (known, unrepaired) shapes take away from res_cost, computed by the harness from the input and the result
    powers: (a) the entry of an element that is not dispatched is left out; (b) next to pwl costs a polynomial entry keeps only
    its cp1 term (constant and reactive part are lost); (c) without any reactive cost slope a reactive constant is left out.
    Anything that these do not explain exactly gets the unlisted signature res_cost/<mode>/other."""
    comp = {}
    costs = case["costs"]
    has_pwl = any(c["kind"] == "pwl" for c in costs)
    any_q_slope = any(c.get("cq1_eur_per_mvar") or c.get("cq2_eur_per_mvar2") for c in costs) or \
        any(c["kind"] == "pwl" and c["power_type"] == "q" for c in costs)
    for k, (c, part) in enumerate(zip(costs, parts)):
        if not dispatched[k]:
            comp["undispatched-entry-dropped"] = comp.get("undispatched-entry-dropped", 0.0) + part[-1]
        elif c["kind"] == "poly":
            qv = part[4]
            if has_pwl:
                lost = c.get("cp0_eur", 0.0)
                if ac and qv is not None:
                    lost += c.get("cq1_eur_per_mvar", 0.0) * qv + c.get("cq2_eur_per_mvar2", 0.0) * qv * qv + c.get("cq0_eur", 0.0)
                comp["pwl-poly-mix-drops-const-or-q"] = comp.get("pwl-poly-mix-drops-const-or-q", 0.0) + lost
            elif ac and not any_q_slope and c.get("cq0_eur"):
                comp["q-constant-without-q-slope"] = comp.get("q-constant-without-q-slope", 0.0) + c["cq0_eur"]
    return comp


def oracle_a(net, maps, case, dispatched, ac):
    total, parts = gen.user_cost(net, maps, case["costs"], ac)
    scale = 1.0 + sum(abs(p[-1]) for p in parts)
    comp = known_deviations(case, parts, dispatched, ac) if not math.isnan(total) else {}
    return dict(total=total, parts=parts, scale=scale, comp=comp, got=float(net.res_cost),
                dev=float(net.res_cost) - (total - sum(comp.values())))


def check(case):
    res = Result()
    opt = case["opt"]
    ac = opt["mode"] == "ac"
    res.label("mode:" + opt["mode"])
    net, maps = gen.build(case)
    dead_dc = gen.dcline_dead_terminal(net)
    if dead_dc:
        res.label("dcline-dead-terminal")
    dispatched = gen.cost_entries_dispatched(case, net, maps)
    try:
        with silence():
            gen.run_opf(net, opt)
    except Exception as e:
        kind, what = gen.opf_outcome(e)
        if kind == "skip":
            res.skipped = what
        elif dead_dc:
            res.fail("dcline-dead-terminal/crash", error=repr(e)[:300], where=what, opt=opt)
        elif what.endswith("totcost.py:totcost") and case["costs"] and not any(dispatched):
            res.fail("crash/costs-only-on-undispatched-elements", error=repr(e)[:300], where=what, opt=opt)
        else:
            res.fail(what, error=repr(e)[:300], opt=opt)
        return res
    if not net.get("OPF_converged", False):
        res.skipped = "not-converged"
        return res
    if dead_dc:
        # the result of such a problem is not a valid operating point (known finding of C16, dcline-dead-terminal/wrong-result);
        # the cost oracles have nothing sound to compare it with
        res.skipped = "dcline-dead-terminal"
        return res
    shapes = input_shapes(case)
    # ---- oracle A: res_cost = sum of the user's cost functions at the result powers
    tolA = 1e-6
    A = oracle_a(net, maps, case, dispatched, ac)
    total, parts, scale = A["total"], A["parts"], A["scale"]
    if not case["costs"]:
        res.label("no-costs")          # documented: overall generated power is minimised
    elif math.isnan(total):
        res.label("cost-on-dead-element")
    else:
        if abs(A["dev"]) > tolA * scale and ac and abs(A["dev"]) <= 5e-3 * scale and any(c["kind"] == "pwl" for c in case["costs"]):
            # a pwl cost enters res_cost through an epigraph variable of the interior-point solver, which meets the cost function
            # only within the solver tolerances (measured up to 1.3e-3 relative; 1.4e-8 with 1000x tighter tolerances):
            # a small deviation is re-evaluated with tight tolerances before it counts
            net2, maps2 = gen.build(case)
            retried = False
            try:
                with silence():
                    gen.run_opf(net2, opt, tight=True)
                if net2.get("OPF_converged", False):
                    A = oracle_a(net2, maps2, case, dispatched, ac)
                    retried = not math.isnan(A["total"])
            except Exception:
                pass
            res.label("A:retried-with-tight-tolerances" if retried else "A:pwl-gap-not-reevaluated")
            if not retried:
                A = dict(A, dev=0.0)
        detail = dict(res_cost=A["got"], user_cost=A["total"], parts=[list(p) for p in A["parts"]][:10])
        if abs(A["dev"]) > tolA * A["scale"]:
            res.fail("res_cost/%s/other" % opt["mode"], unexplained=A["dev"], known_components=A["comp"], shapes=sorted(shapes), **detail)
        else:
            for name, val in sorted(A["comp"].items()):
                if abs(val) > tolA * A["scale"]:
                    res.label("shape:" + name)
                    res.fail("res_cost/" + name, missing_in_res_cost=val, **detail)
    # ---- oracle B: independent optimum (DC)
    if not ac and case["costs"] and not math.isnan(total):
        out = ref.reference_optimum(net, maps, case["costs"])
        res.label("B:" + out["status"])
        detail = dict(user_cost_of_result=total, res_cost=float(net.res_cost), parts=[list(p) for p in parts][:10])
        if out["status"] == "optimal":
            tolB = 2e-4 * scale
            d = total - out["cost"]        # the user's cost of pandapower's dispatch against the reference optimum
            if d > tolB:
                sig = "dc-optimum/suboptimal"
                at_rating = [int(i) for i in net.impedance.index
                             if not math.isnan(float(net.res_impedance.at[i, "p_from_mw"])) and
                             abs(float(net.res_impedance.at[i, "p_from_mw"])) >= float(net.impedance.at[i, "sn_mva"]) * (1 - 1e-4)]
                if at_rating:
                    # known: the OPF limits the flow of an impedance to impedance.sn_mva although no loading limit can be declared
                    # for it; only if the reference with exactly this extra limit has pandapower's cost the known signature applies
                    out2 = ref.reference_optimum(net, maps, case["costs"], impedance_rating=True)
                    if out2["status"] == "optimal" and abs(total - out2["cost"]) <= tolB:
                        sig = "dc-optimum/suboptimal/impedance-at-sn_mva"
                        res.label("shape:impedance-at-sn_mva")
                res.fail(sig, reference_optimum=out["cost"], reference_dispatch=out["dispatch"], shapes=sorted(shapes), **detail)
            elif d < -tolB:
                res.fail("dc-optimum/below-reference-optimum", reference_optimum=out["cost"], reference_dispatch=out["dispatch"],
                         shapes=sorted(shapes), **detail)
            if out.get("binding_branch"):
                res.label("B:binding-branch-limit")
        elif out["status"] == "infeasible":
            res.fail("dc-optimum/converged-on-infeasible-problem", why=out.get("why"), shapes=sorted(shapes), **detail)
    live = gen.energized_buses(net)
    zombies = [int(b) for b in net.bus.index if b not in live and not math.isnan(float(net.res_bus.at[b, "va_degree"]))]
    if zombies:
        # buses behind an out-of-service bus are optimised as an island without angle reference (see C16): one signature
        res.label("dead-island-kept-alive")
        if res.failures:
            detail = [[sg, d] for sg, d in res.failures][:3]
            del res.failures[:]
            res.fail("dead-island-kept-alive", buses=zombies[:6], other_failures=detail)
    # ---- classification
    kinds = set()
    for c in case["costs"]:
        if c["kind"] == "pwl":
            kinds.add("pwl" + ("-q" if c["power_type"] == "q" else ""))
            if len(c["points"]) > 1:
                kinds.add("pwl-multi-segment")
        else:
            if c.get("cp2_eur_per_mw2") or c.get("cq2_eur_per_mvar2"):
                kinds.add("quadratic")
            if c.get("cp0_eur") or c.get("cq0_eur"):
                kinds.add("constant")
            if c.get("cq1_eur_per_mvar") or c.get("cq2_eur_per_mvar2"):
                kinds.add("q-cost")
        kinds.add("on-" + c["et"])
    for k in sorted(kinds):
        res.label("cost:" + k)
    for s in sorted(shapes):
        res.label("shape:" + s)
    res.nontrivial = bool(kinds & {"on-load", "on-storage", "on-dcline", "quadratic", "constant", "pwl", "pwl-multi-segment"})
    return res
