"""C24 - creating elements in batch equals creating them one by one (DESIGN.md sec. 2, C24).

Differential oracle: net A = one call of the batch function, net B = loop of the single function over the same
argument vectors, both on (a deep copy of) the same base net.  Generator: pbt/c24_gen.py.
"""
import copy
import math

from pbt import c24_gen as G
from pbt import oracles
from pbt.core import Result, silence, exc_sig

ID = "C24"
LEVEL = "exploration"
EXAMPLES = {"quick": 3200, "thorough": 60000}
SHRINK_S = {"quick": 8, "thorough": 30}
RULE = ("Hypothesis draws one of 17 create pairs (bus, line, line_from_parameters, trafo, trafo_from_parameters, trafo3w, "
        "trafo3w_from_parameters, load, sgen, gen, storage, shunt, ward, switch, impedance, poly_cost, pwl_cost), a base net "
        "(4 voltage levels, 5-9 buses with range/offset/permuted indices, connected skeleton, generated std types with shift, "
        "tap changer, second tap changer, zero-sequence data, 0-2 pre-existing elements of the tested table, pre-existing costs) "
        "and argument columns of length 1-5 over the documented keyword set (scalar or vector per parameter, NaN = not set, "
        "index given or not, **kwargs column) plus, by construction, the documented invalid inputs (non-existent bus, duplicate "
        "index, existing index, duplicate cost, switch not connected). Oracle: batch call vs loop of single calls on identical "
        "base nets: both reject with the same exception class, or both succeed with equal index and equal cells in every column "
        "of every element table except name/geo ({None, NaN, '', 'None', 'nan'} = one missing value; a column missing in one "
        "table = all missing; bool/number/object dtype family equal), and for 1 case in 4 equal runpp outcome/results. "
        "Non-trivial = both sides accepted the input and (length >= 2 or a std type with tap changer / phase shift); "
        "distinct by case hash.")
ASSUMPTIONS = ["only keyword values that the signatures/docstrings of BOTH functions of a pair document (vector only where the "
               "batch annotation says Iterable; partial zero-sequence line data, df <= 0 and std-type overriding kwargs excluded)",
               "`name` and `geo` are labels, not electrical parameters: not compared (geodata is still passed)",
               "exact equality of cells (values are copied, not computed); result tables within 1e-8 / 1e-9 relative",
               "int vs float dtype is not a difference (numeric family), bool vs object and number vs object are"]
TECHNIQUE = "property-based testing: Hypothesis argument-vector generator per create pair + differential oracle (batch vs loop of single calls)"

NO_COMPARE = {"name", "geo"}
MISSING = "<missing>"
# (table, column): value that the documentation / the consuming code gives a missing cell or a missing column
IMPLIED_DEFAULT = {
    # shortcircuit/ppc_conversion.py:104 treats a missing generator_type column as "all current_source"; create_sgen fills
    # NaN cells of an existing column with "current_source"
    ("sgen", "generator_type"): "current_source",
    # opf/validate_opf_input.py:55-68: missing bus.min_vm_pu / max_vm_pu values (or columns) "are considered in OPF as 0.0 / 2.0 pu"
    ("bus", "min_vm_pu"): 0.0,
    ("bus", "max_vm_pu"): 2.0,
    # zero-sequence line conductance: create_line_from_parameters defaults to 0, create_lines_from_parameters to "not set";
    # the only consumer (toolbox) reads a missing column as "no conductance"
    ("line", "g0_us_per_km"): 0.0,
}


def strategy(tier):
    return G.case(tier)


# ---------------------------------------------------------------------------------------------------- building
def _dec(v):
    if isinstance(v, str) and v == G.NAN:
        import numpy
        return numpy.nan      # the very object pandapower's signatures use as default (some single functions test `is nan`)
    return v


def _value(name, v):
    if name == "geodata" and v is not None:
        if v and isinstance(v[0], list):
            return [tuple(p) for p in v]          # line: list of (x, y)
        return tuple(v)                            # bus: (x, y)
    return _dec(v)


_EMPTY = []


def _empty_net():
    # create_empty_network costs ~0.2 s; a pristine copy is kept and deep-copied (never handed out itself)
    import pandapower as pp
    if not _EMPTY:
        _EMPTY.append(pp.create_empty_network())
    return copy.deepcopy(_EMPTY[0])


def build_base(base):
    import pandapower as pp
    nb, bidx = base["nb"], base["bus_index"]
    net = _empty_net()
    ps = G.positions(nb)
    for vn in G.LEVELS:
        for p in ps[vn]:
            pp.create_bus(net, vn_kv=vn, index=bidx[p], name="b%d" % p)
    for el, types in sorted(base["std"].items()):
        for name, data in sorted(types.items()):
            pp.create_std_type(net, dict(data), name, element=el)
    sk = G.skeleton(nb)
    pp.create_ext_grid(net, bidx[sk["ext_grid"]], vm_pu=1.01)
    for a, b, vn in sk["lines"]:
        r, x, c, i, l = G.LINE_RANGES[vn]
        pp.create_line_from_parameters(net, bidx[a], bidx[b], length_km=l[0], r_ohm_per_km=r[0], x_ohm_per_km=x[0],
                                       c_nf_per_km=c[0], max_i_ka=i[1])
    for h, m, l in sk["trafo3w"]:
        pp.create_transformer3w_from_parameters(
            net, bidx[h], bidx[m], bidx[l], vn_hv_kv=110., vn_mv_kv=20., vn_lv_kv=10., sn_hv_mva=63., sn_mv_mva=40.,
            sn_lv_mva=25., vk_hv_percent=10., vk_mv_percent=10., vk_lv_percent=10., vkr_hv_percent=.3, vkr_mv_percent=.3,
            vkr_lv_percent=.3, pfe_kw=30., i0_percent=.1, shift_mv_degree=150., shift_lv_degree=150.)
    for h, l in sk["trafo"]:
        pp.create_transformer_from_parameters(net, bidx[h], bidx[l], sn_mva=.63, vn_hv_kv=20., vn_lv_kv=.4, vkr_percent=1.,
                                              vk_percent=6., pfe_kw=1., i0_percent=.2, shift_degree=150.)
    for p in sk["loads"]:
        pp.create_load(net, bidx[p], p_mw=0.01, q_mvar=0.002)
    return net


def columns(args, base, pair):
    """decode the argument columns: bus positions -> bus indices, 'nan' -> NaN"""
    bidx = base["bus_index"]
    missing_bus = max(bidx) + 7

    def bus(p):
        return missing_bus if p == G.MISSING_BUS else bidx[p]
    cols = {}
    for name, c in args.items():
        kind, v = ("s", c["s"]) if "s" in c else ("v", c["v"])
        if name in G.BUS_PARAMS:
            v = bus(v) if kind == "s" else [bus(p) for p in v]
        elif name == "element" and pair == "switch":
            ets = args["et"]
            et_of = (lambda k: ets["s"]) if "s" in ets else (lambda k: ets["v"][k])
            v = [bus(p) if et_of(k) == "b" else p for k, p in enumerate(v)]
        elif kind == "s":
            v = _value(name, v)
        else:
            v = [_value(name, x) for x in v]
        cols[name] = (kind, v)
    return cols


def single_kwargs(cols, k):
    return {name: (v if kind == "s" else v[k]) for name, (kind, v) in cols.items()}


def batch_kwargs(cols, n, pair, container):
    import numpy as np
    kw = {}
    for name, (kind, v) in cols.items():
        if kind == "v" and container == "array" and name not in ("points", "geodata") and \
                all(isinstance(x, (int, float)) and not isinstance(x, bool) for x in v):
            v = np.array(v)
        kw[G.BATCH_NAME.get(name, name)] = v
    if pair == "bus":
        kw["nr_buses"] = n
    return kw


def run_single(net, pair, n, cols):
    import pandapower as pp
    f = getattr(pp, G.PAIRS[pair][0])
    for k in range(n):
        f(net, **single_kwargs(cols, k))


def run_batch(net, pair, n, cols, container):
    import pandapower as pp
    getattr(pp, G.PAIRS[pair][1])(net, **batch_kwargs(cols, n, pair, container))


def add_pre(net, case):
    import pandapower as pp
    base, pair = case["base"], case["pair"]
    if base.get("pre"):
        run_single(net, pair, base["pre"]["n"], columns(base["pre"]["args"], base, pair))
    for c in base.get("pre_costs", []):
        if c["kind"] == "poly":
            pp.create_poly_cost(net, c["element"], c["et"], cp1_eur_per_mw=1.0)
        else:
            pp.create_pwl_cost(net, c["element"], c["et"], [[0, 1, 1.0]], power_type=c["power_type"])


# ---------------------------------------------------------------------------------------------------- comparison
def _norm(v):
    """cell -> comparable python value; None / NaN / NA / '' / 'None' / 'nan' are one missing value"""
    import numpy as np
    import pandas as pd
    if v is None or v is pd.NA:
        return MISSING
    if isinstance(v, (list, tuple, np.ndarray)):
        return [_norm(x) for x in (v.tolist() if isinstance(v, np.ndarray) else v)]
    if isinstance(v, np.generic):
        v = v.item()
    if isinstance(v, float) and math.isnan(v):
        return MISSING
    if isinstance(v, str) and v in ("", "None", "nan", "<NA>"):
        return MISSING
    return v


def _family(dtype):
    import pandas.api.types as pt
    if pt.is_bool_dtype(dtype):
        return "bool"
    if pt.is_numeric_dtype(dtype):
        return "number"
    if pt.is_object_dtype(dtype) or pt.is_string_dtype(dtype):
        return "object"
    return str(dtype)


def _cells(df, col, table):
    if col not in df.columns:
        vals = [MISSING] * len(df)
    else:
        vals = [_norm(v) for v in df[col].tolist()]
    d = IMPLIED_DEFAULT.get((table, col), MISSING)
    if d is not MISSING:
        vals = [d if v is MISSING else v for v in vals]
    return vals


def compare_tables(na, nb):
    """-> list of (kind, table, column, detail): differences between the element tables of net A (batch) and B (single)"""
    import pandas as pd
    diffs = []
    keys = sorted(k for k in set(na.keys()) | set(nb.keys())
                  if not k.startswith("_") and not k.startswith("res_") and
                  (isinstance(na.get(k), pd.DataFrame) or isinstance(nb.get(k), pd.DataFrame)))
    for t in keys:
        a, b = na.get(t), nb.get(t)
        if not isinstance(a, pd.DataFrame) or not isinstance(b, pd.DataFrame):
            diffs.append(("table", t, "", "table missing on one side"))
            continue
        if len(a) == 0 and len(b) == 0:
            continue
        ia, ib = [_norm(i) for i in a.index.tolist()], [_norm(i) for i in b.index.tolist()]
        if ia != ib:
            diffs.append(("index", t, "", {"batch": ia, "single": ib}))
            continue
        for c in sorted(set(a.columns) | set(b.columns), key=str):
            if c in NO_COMPARE:
                continue
            va, vb = _cells(a, c, t), _cells(b, c, t)
            if va != vb:
                rows = [k for k in range(len(va)) if va[k] != vb[k]]
                only = "only-batch" if c not in b.columns else "only-single" if c not in a.columns else "value"
                diffs.append((only, t, c, {"index": ia[rows[0]], "batch": va[rows[0]], "single": vb[rows[0]], "n_rows": len(rows)}))
                continue
            if c in a.columns and c in b.columns and any(v is not MISSING for v in va):
                fa, fb = _family(a[c].dtype), _family(b[c].dtype)
                if fa != fb:
                    diffs.append(("dtype", t, c, {"batch": str(a[c].dtype), "single": str(b[c].dtype)}))
    return diffs


# ---------------------------------------------------------------------------------------------------- classification
F12_COLS = {"shift_degree", "tap_side", "tap_neutral", "tap_min", "tap_max", "tap_step_percent", "tap_step_degree",
            "tap_changer_type", "tap_pos", "tap2_side", "tap2_neutral", "tap2_min", "tap2_max", "tap2_step_percent",
            "tap2_step_degree", "tap2_changer_type", "tap2_pos"}
LINE_STD_COLS = {"r0_ohm_per_km", "x0_ohm_per_km", "c0_nf_per_km", "alpha"}


def classify(pair, kind, table, col, detail):
    """root-cause signature of one table difference (facts about the input and the observation only)"""
    lost = isinstance(detail, dict) and detail.get("batch") == MISSING      # batch cell empty, single cell set
    if pair == "trafo" and table == "trafo" and col in F12_COLS and kind in ("value", "only-single") and \
            (lost or (col == "shift_degree" and detail.get("batch") == 0)):
        return "rows/trafo/std-type-shift-tap-dropped"
    if pair == "line" and table == "line" and col in LINE_STD_COLS and kind in ("value", "only-single") and lost:
        return "rows/line/std-type-zero-seq-alpha-dropped"
    if table == "line" and col == "tdpf" and lost and detail.get("single") is True:
        return "rows/line/tdpf-flag-of-other-lines"
    if pair == "gen" and table == "gen" and col in ("min_vm_pu", "max_vm_pu") and lost and detail.get("single") in (0.0, 2.0):
        return "rows/gen/vm-limit-defaults-not-filled"
    if table == "trafo3w" and pair in ("trafo3w", "trafo3w_fp") and col == "tag_x" and kind == "only-batch":
        return "rows/trafo3w/kwargs-column-dropped-by-single"
    if pair == "trafo_fp" and table == "trafo" and col == "tap2_pos" and lost:
        return "rows/trafo_fp/tap2_pos-not-defaulted-to-tap2_neutral"
    if pair == "ward" and kind == "index":
        return "rows/ward/index-taken-from-storage-table"
    return "rows/%s/%s:%s.%s" % (pair, kind, table, col)


HELPER_FRAMES = ("create/_utils.py:_not_nan", "create/_utils.py:_costs_existance_check")


def reject_sig(pair, exc):
    """signature of an exception only the batch function raises: helper-level root causes are not split by pair"""
    es = exc_sig(exc)
    if es.split("@", 1)[1] in HELPER_FRAMES:
        return "batch-rejects/" + es
    return "batch-rejects/%s/%s" % (pair, es)


def input_facts(case, cols, base_net):
    """which documented invalid inputs does the case contain (decided from the case and the base net only)"""
    import numpy as np
    pair, table = case["pair"], G.PAIRS[case["pair"]][2]
    facts = []
    buses = set(base_net.bus.index)
    for name in G.BUS_PARAMS:
        if name in cols:
            kind, v = cols[name]
            if any(b not in buses for b in ([v] if kind == "s" else v)):
                facts.append("missing-bus")
                break
    if "index" in cols:
        idx = cols["index"][1]
        if len(set(idx)) < len(idx):
            facts.append("dup-index")
        if set(idx) & set(base_net[table].index):
            facts.append("index-exists")
    if pair == "switch":
        n = case["n"]
        tabs = {"l": ("line", ["from_bus", "to_bus"]), "t": ("trafo", ["hv_bus", "lv_bus"]),
                "t3": ("trafo3w", ["hv_bus", "mv_bus", "lv_bus"])}
        for k in range(n):
            kw = single_kwargs(cols, k)
            if kw["et"] == "b":
                if kw["element"] not in buses and "missing-bus" not in facts:
                    facts.append("missing-bus")
            else:
                tab, bcols = tabs[kw["et"]]
                if kw["element"] not in base_net[tab].index:
                    facts.append("switch-unknown-element")
                elif kw["bus"] not in base_net[tab].loc[kw["element"], bcols].values:
                    facts.append("switch-not-connected")
    if pair in ("poly_cost", "pwl_cost") and cols.get("check", ("s", True))[1]:
        n = case["n"]
        seen_poly = {(int(e), t) for e, t in zip(base_net.poly_cost.element, base_net.poly_cost.et)}
        seen_pwl = {(int(e), t, p) for e, t, p in zip(base_net.pwl_cost.element, base_net.pwl_cost.et, base_net.pwl_cost.power_type)}
        pre_poly, pre_pwl = set(seen_poly), set(seen_pwl)
        for k in range(n):
            kw = single_kwargs(cols, k)
            e, t = kw["element"], kw["et"]
            if pair == "poly_cost":
                hit_pre = (e, t) in pre_poly or any(x[:2] == (e, t) for x in pre_pwl)
                hit = (e, t) in seen_poly or any(x[:2] == (e, t) for x in seen_pwl)
                seen_poly.add((e, t))
            else:
                p = kw.get("power_type", "p")
                hit_pre = (e, t) in pre_poly or (e, t, p) in pre_pwl
                hit = (e, t) in seen_poly or (e, t, p) in seen_pwl
                seen_pwl.add((e, t, p))
            if hit_pre:
                facts.append("dup-cost-existing")
            elif hit:
                facts.append("dup-cost-within")
    out = []
    for f in facts:
        if f not in out:
            out.append(f)
    return out


def std_features(case):
    """does the std type used by the tested call carry a phase shift / tap changer"""
    pair = case["pair"]
    if pair not in ("trafo", "trafo3w", "line"):
        return set()
    import pandapower as pp
    st_arg = case["args"].get("std_type")
    names = [st_arg["s"]] if "s" in st_arg else list(st_arg["v"])
    el = {"trafo": "trafo", "trafo3w": "trafo3w", "line": "line"}[pair]
    lib = _builtin_std()[el]
    out = set()
    for nme in names:
        d = case["base"]["std"].get(el, {}).get(nme) or lib.get(nme, {})
        if any(d.get(k) for k in ("shift_degree", "shift_mv_degree", "shift_lv_degree")):
            out.add("std:shift")
        if "tap_side" in d or "tap_changer_type" in d:
            out.add("std:tap")
        if "tap2_side" in d:
            out.add("std:tap2")
        if "r0_ohm_per_km" in d or "vk0_percent" in d:
            out.add("std:zero-seq")
        if nme in case["base"]["std"].get(el, {}):
            out.add("std:custom")
    return out


_STD = {}


def _builtin_std():
    if not _STD:
        import pandapower as pp
        _STD.update(copy.deepcopy(_empty_net().std_types))
    return _STD


# ---------------------------------------------------------------------------------------------------- power flow
def pf_outcome(net):
    import pandapower as pp
    try:
        with silence():
            pp.runpp(net, calculate_voltage_angles=True, numba=False, max_iteration=30)
    except pp.LoadflowNotConverged:
        return "not-converged"
    except Exception as e:   # noqa: BLE001 - any exception of the power flow is an outcome to compare
        return "exc:" + exc_sig(e)
    return "ok" if net.converged else "not-converged"


# ---------------------------------------------------------------------------------------------------- check
def check(case):
    res = Result()
    pair, n = case["pair"], case["n"]
    table = G.PAIRS[pair][2]
    res.label("pair:" + pair)
    with silence():
        base = build_base(case["base"])
        add_pre(base, case)
    net_a, net_b = copy.deepcopy(base), copy.deepcopy(base)
    cols = columns(case["args"], case["base"], pair)
    facts = input_facts(case, cols, base)
    for f in facts:
        res.label("invalid:" + f)
    if n >= 2:
        res.label("n>=2")
    if case["base"].get("pre") or case["base"].get("pre_costs"):
        res.label("pre-existing")
    if "index" in cols:
        res.label("index-given")
    if "tag_x" in cols:
        res.label("kwargs-column")
    if any(kind == "v" and any(isinstance(x, float) and math.isnan(x) for x in v) for kind, v in cols.values()):
        res.label("nan-in-vector")
    feats = std_features(case)
    for f in sorted(feats):
        res.label(f)

    exc_a = exc_b = None
    try:
        with silence():
            run_batch(net_a, pair, n, cols, case.get("container", "list"))
    except Exception as e:   # noqa: BLE001 - the rejection behaviour is what is compared
        exc_a = e
    try:
        with silence():
            run_single(net_b, pair, n, cols)
    except Exception as e:   # noqa: BLE001
        exc_b = e

    if exc_a is not None and exc_b is not None:
        res.label("both-reject")
        if not facts:
            res.label("both-reject-without-documented-reason")
        if type(exc_a).__name__ != type(exc_b).__name__:
            if exc_sig(exc_a).split("@", 1)[1] in HELPER_FRAMES:
                sig = reject_sig(pair, exc_a)         # the batch call crashed in a helper before it could reject
            elif exc_sig(exc_b) == "TypeError@create/_utils.py:_check_branch_element":
                sig = "exc-class/single-branch-missing-bus-without-index/%s-vs-TypeError" % type(exc_a).__name__
            else:
                sig = "exc-class/%s/%s-vs-%s" % (pair, type(exc_a).__name__, type(exc_b).__name__)
            res.fail(sig, batch=repr(exc_a)[:300], single=repr(exc_b)[:300], facts=facts)
        res.skipped = "rejected-by-both"
        return res
    if exc_a is not None:
        res.fail(reject_sig(pair, exc_a), batch=repr(exc_a)[:300], facts=facts)
        return res
    if exc_b is not None:
        why = "+".join(sorted({"dup-cost" if f.startswith("dup-cost") else f for f in facts})) if facts else \
            "other:" + exc_sig(exc_b)
        res.fail("batch-accepts/%s/%s" % (pair, why), single=repr(exc_b)[:300], facts=facts)
        return res

    res.label("both-accept")
    if facts:
        res.label("both-accept-despite:" + "+".join(facts))
    diffs = compare_tables(net_a, net_b)
    seen = set()
    for kind, t, c, detail in diffs:
        sig = classify(pair, kind, t, c, detail)
        if sig in seen:
            continue
        seen.add(sig)
        res.fail(sig, table=t, column=c, kind=kind, detail=detail)
    res.nontrivial = n >= 2 or bool(feats & {"std:shift", "std:tap"})

    if case.get("pf"):
        oa, ob = pf_outcome(net_a), pf_outcome(net_b)
        res.label("pf:" + (oa if oa == ob else "differs"))
        if not diffs:
            if oa != ob:
                res.fail("pf/outcome/%s/%s-vs-%s" % (pair, oa.split("@")[0], ob.split("@")[0]), batch=oa, single=ob)
            elif oa == "ok":
                d = oracles.compare_results(net_a, net_b, atol=1e-8, rtol=1e-9)
                if d:
                    res.fail("pf/results/%s" % pair, diffs=d[:6])
    return res
