"""C05 - Power flow results are invariant under equivalent re-representations (DESIGN.md sec. 2, C05)."""
import copy
import math

from hypothesis import strategies as st

from pbt import netgen, oracles
from pbt.core import Result, pf_tol, silence, pf_outcome

ID = "C05"
LEVEL = "exploration"
EXAMPLES = {"quick": 800, "thorough": 30000}
KINDS = ["sn_mva", "relabel", "split_pq", "parallel_lines", "swap_line", "add_dead", "split_bus", "reorder_switch"]
RULE = ("Hypothesis draws a network recipe R and one transformation T of " + ", ".join(KINDS) + " (with integer selectors "
        "that pick the target element); both networks are built from recipes and solved (AC with ZIP loads and angles, or DC). "
        "Oracle (metamorphic): results of T(R) mapped back through the transformation equal the results of R (voltages, every "
        "branch end, element powers; sums for split elements / parallel lines; both halves of a split bus report the same voltage "
        "and their res_bus p/q add up). Non-trivial = both converge and the transformation was applicable to an element that "
        "carries power (or changed labels/base); distinct by case hash.")
ASSUMPTIONS = ["per-generator reactive power is compared as a sum per electrical node (the split between machines of one node is not unique)",
               "comparison tolerance 2e-6 MVA*max(1,sn/100) + 1e-7 relative, vm 1e-9, va 1e-7 degree; solver tolerance scaled with sn_mva"]

PROFILE = netgen.profile(oos=0.05, open_prob=0.2, dcline=False, custom_index=False, noslack_island=False)
BUS_EL = ("load", "sgen", "storage", "gen", "shunt", "ward", "xward", "motor", "ext_grid")


@st.composite
def _case(draw, tier):
    recipe = draw(netgen.grid(PROFILE))
    T = {"kind": draw(st.sampled_from(KINDS)), "a": draw(st.integers(0, 50)), "b": draw(st.integers(0, 50)),
         "c": draw(st.integers(2, 3))}
    if T["kind"] == "sn_mva":
        T["sn"] = draw(st.sampled_from([0.1, 1.0, 10.0, 100.0, 1000.0]))
    if T["kind"] == "relabel":
        n = len(recipe["buses"])
        T["perm"] = [int(x) for x in draw(st.permutations(range(n)))]
        T["off"] = draw(st.sampled_from([0, 1, 7, 1000]))
    return {"recipe": recipe, "T": T, "mode": draw(st.sampled_from(["ac", "ac", "ac", "dc"]))}


def strategy(tier):
    return _case(tier)


def _positions(recipe, types):
    return [i for i, e in enumerate(recipe["el"]) if e["t"] in types]


def apply(recipe, T):
    """returns (new recipe, info) ; info describes how results map back. None if not applicable."""
    r = copy.deepcopy(recipe)
    el = r["el"]
    k = T["kind"]
    info = {"kind": k}
    if k == "sn_mva":
        if T["sn"] == r["sn_mva"]:
            return None
        r["sn_mva"] = T["sn"]
        return r, info
    if k == "relabel":
        for b, lab in zip(r["buses"], T["perm"]):
            b["index"] = lab + T["off"]
        # custom (reversed, offset) indices for all elements, reversed order of the bus elements
        counts = {}
        for e in el:
            counts[e["t"]] = counts.get(e["t"], 0) + 1
        seen = {}
        for e in el:
            n = seen.get(e["t"], 0)
            seen[e["t"]] = n + 1
            e["index"] = (counts[e["t"]] - 1 - n) * 2 + T["off"]
        return r, info
    if k == "split_pq":
        pos = _positions(r, ("load", "sgen", "storage"))
        if not pos:
            return None
        i = pos[T["a"] % len(pos)]
        e = el[i]
        n = T["c"]
        parts = []
        for j in range(n):
            c = copy.deepcopy(e)
            for key in ("p_mw", "q_mvar"):
                c[key] = e[key] / n
            if "max_e_mwh" in c:
                c["max_e_mwh"] = e["max_e_mwh"]
            parts.append(c)
        # keep the first part in place, append the others (ordinals of this type: original ordinal + new ones at the end)
        el[i] = parts[0]
        el.extend(parts[1:])
        ordinal = sum(1 for x in recipe["el"][:i] if x["t"] == e["t"])
        total = sum(1 for x in recipe["el"] if x["t"] == e["t"])
        info.update(t=e["t"], ordinal=ordinal, new=[total + j for j in range(n - 1)])
        return r, info
    if k == "parallel_lines":
        pos = _positions(r, ("line",))
        swl = {x["element"] for x in el if x["t"] == "switch" and x["et"] == "l"}
        pos = [i for i in pos if sum(1 for x in recipe["el"][:i] if x["t"] == "line") not in swl]
        if not pos:
            return None
        i = pos[T["a"] % len(pos)]
        n = T["c"]
        ordinal = sum(1 for x in recipe["el"][:i] if x["t"] == "line")
        total = sum(1 for x in recipe["el"] if x["t"] == "line")
        base = copy.deepcopy(el[i])
        base["parallel"] = 1
        # original network gets parallel=n, transformed one n single lines
        orig = copy.deepcopy(recipe)
        orig["el"][i]["parallel"] = n
        el[i] = base
        for j in range(n - 1):
            el.append(copy.deepcopy(base))
        info.update(ordinal=ordinal, new=[total + j for j in range(n - 1)], orig=orig)
        return r, info
    if k == "swap_line":
        pos = _positions(r, ("line",))
        if not pos:
            return None
        i = pos[T["a"] % len(pos)]
        el[i]["from_bus"], el[i]["to_bus"] = el[i]["to_bus"], el[i]["from_bus"]
        info.update(ordinal=sum(1 for x in recipe["el"][:i] if x["t"] == "line"))
        return r, info
    if k == "add_dead":
        nb = len(r["buses"])
        b1, b2 = T["a"] % nb, T["b"] % nb
        vn = r["buses"][b1]["vn_kv"]
        same = [j for j in range(nb) if r["buses"][j]["vn_kv"] == vn and j != b1]
        el.append({"t": "load", "bus": b1, "p_mw": 0.0, "q_mvar": 0.0})
        el.append({"t": "sgen", "bus": b2, "p_mw": 0.0, "q_mvar": 0.0})
        el.append({"t": "load", "bus": b1, "p_mw": 1.0, "q_mvar": 0.5, "in_service": False, "const_z_p_percent": 100.0})
        el.append({"t": "sgen", "bus": b2, "p_mw": 2.0, "q_mvar": 0.5, "in_service": False})
        el.append({"t": "gen", "bus": b2, "p_mw": 1.0, "vm_pu": 1.07, "in_service": False})
        el.append({"t": "ext_grid", "bus": b1, "vm_pu": 1.09, "va_degree": 10.0, "in_service": False})
        el.append({"t": "shunt", "bus": b1, "q_mvar": 0.0, "p_mw": 0.0})
        el.append({"t": "shunt", "bus": b2, "q_mvar": -1.0, "p_mw": 0.2, "in_service": False})
        el.append({"t": "storage", "bus": b2, "p_mw": 0.3, "q_mvar": 0.1, "max_e_mwh": 1.0, "scaling": 0.0})
        el.append({"t": "ward", "bus": b1, "ps_mw": 1.0, "qs_mvar": 0.2, "pz_mw": 0.5, "qz_mvar": 0.1, "in_service": False})
        if same:
            j = same[T["c"] % len(same)]
            L = netgen.LEVELS[vn]
            el.append({"t": "line", "from_bus": b1, "to_bus": j, "length_km": L["l"][0], "r_ohm_per_km": L["r"][0],
                       "x_ohm_per_km": L["x"][0], "c_nf_per_km": 10.0, "max_i_ka": 0.3, "in_service": False})
            el.append({"t": "impedance", "from_bus": b1, "to_bus": j, "rft_pu": 0.01, "xft_pu": 0.02, "sn_mva": 1.0, "in_service": False})
            el.append({"t": "switch", "et": "b", "bus": b1, "element": j, "closed": False})
        return r, info
    if k == "split_bus":
        nb = len(r["buses"])
        b = T["a"] % nb
        if not r["buses"][b].get("in_service", True):
            return None
        r["buses"].append({"vn_kv": r["buses"][b]["vn_kv"]})
        newb = nb
        moved = []
        cnt = {}
        for i, e in enumerate(el):
            o = cnt.get(e["t"], 0)
            cnt[e["t"]] = o + 1
            if e["t"] in BUS_EL and e.get("bus") == b and e["t"] != "xward" and (T["b"] >> (len(moved) % 5)) & 1:
                e["bus"] = newb
                moved.append((e["t"], o))
        el.append({"t": "switch", "et": "b", "bus": b, "element": newb, "closed": True})
        info.update(bus=b, new_bus=newb, moved=moved)
        return r, info
    if k == "reorder_switch":
        pos = _positions(r, ("switch",))
        if len(pos) < 2:
            return None
        sw = [el[i] for i in pos]
        rot = 1 + T["a"] % (len(sw) - 1)
        sw2 = sw[rot:] + sw[:rot]
        if T["b"] % 2:
            sw2 = sw2[::-1]
        for i, s in zip(pos, sw2):
            el[i] = s
        order = [sw.index(s) for s in sw2]   # new position -> old ordinal (by identity of dict objects)
        info.update(order=[next(j for j, o in enumerate(sw) if o is s) for s in sw2])
        return r, info
    raise KeyError(k)


def run(net, mode, sn):
    import pandapower as pp
    with silence():
        if mode == "dc":
            pp.rundcpp(net)
        else:
            pp.runpp(net, tolerance_mva=pf_tol(float(net.sn_mva)), max_iteration=40, calculate_voltage_angles=True, voltage_depend_loads=True)


def _cmp(res, sig, what, a, b, atol, rtol=1e-7, angle=False):
    if a is None or b is None:
        return
    a, b = float(a), float(b)
    if math.isnan(a) and math.isnan(b):
        return
    if math.isnan(a) != math.isnan(b):
        # an unsupplied element may report "no power" as 0 or as NaN (cf. C07); voltages must agree in their NaN pattern
        if not (what.endswith((".p", ".q", "p_mw", "q_mvar")) and (a == 0 or b == 0)):
            res.fail(sig + "/nan-pattern", what=what, a=a, b=b)
        return
    d = abs((a - b + 180.0) % 360.0 - 180.0) if angle else abs(a - b)
    if d > atol + rtol * max(abs(a), abs(b)):
        res.fail(sig, what=what, a=a, b=b, diff=d)


POWER = {"load": 1, "sgen": 1, "storage": 1, "shunt": 1, "ward": 1, "xward": 1, "motor": 1}


def check(case):
    res = Result()
    recipe, T, mode = case["recipe"], case["T"], case["mode"]
    res.label("T:" + T["kind"], "mode:" + mode)
    out = apply(recipe, T)
    if out is None:
        res.skipped = "transformation-not-applicable"
        return res
    r2, info = out
    r1 = info.pop("orig", recipe)
    try:
        netA, mA = netgen.build(r1)
        netB, mB = netgen.build(r2)
    except Exception as e:
        res.skipped = "build-rejected:" + type(e).__name__
        return res
    sn = max(r1.get("sn_mva", 1.0), r2.get("sn_mva", 1.0))
    outcome = []
    for net in (netA, netB):
        try:
            run(net, mode, sn)
            outcome.append("ok")
        except Exception as e:
            kind, what = pf_outcome(e)
            if kind == "fail":
                res.fail(what, error=repr(e)[:300])
                return res
            outcome.append(what)
    if outcome[0] != "ok" or outcome[1] != "ok":
        if (outcome[0] == "ok") != (outcome[1] == "ok") and not any(o.startswith("rejected") for o in outcome if o != "ok"):
            # one converges, the equivalent representation does not
            res.fail("convergence-differs/%s/%s" % (T["kind"], mode), outcome=outcome)
        res.skipped = "not-converged-or-rejected"
        return res
    sig = "results-differ/%s/%s" % (T["kind"], mode)
    ptol = 2e-6 * max(1.0, sn / 100.0)
    k = T["kind"]
    nbA = len(r1["buses"])
    # --- buses
    for pos in range(nbA):
        la, lb = mA["bus"][pos], mB["bus"][pos]
        _cmp(res, sig, "bus%d.vm" % pos, netA.res_bus.at[la, "vm_pu"], netB.res_bus.at[lb, "vm_pu"], 1e-9, 0)
        _cmp(res, sig, "bus%d.va" % pos, netA.res_bus.at[la, "va_degree"], netB.res_bus.at[lb, "va_degree"], 1e-7, 0, angle=True)
        pa, pb = netA.res_bus.at[la, "p_mw"], netB.res_bus.at[lb, "p_mw"]
        qa, qb = netA.res_bus.at[la, "q_mvar"], netB.res_bus.at[lb, "q_mvar"]
        if k == "split_bus" and pos == info["bus"]:
            ln = mB["bus"][info["new_bus"]]
            pb = pb + netB.res_bus.at[ln, "p_mw"]
            qb = qb + netB.res_bus.at[ln, "q_mvar"]
            _cmp(res, sig, "split-bus-halves.vm", netB.res_bus.at[lb, "vm_pu"], netB.res_bus.at[ln, "vm_pu"], 1e-12, 0)
            _cmp(res, sig, "split-bus-halves.va", netB.res_bus.at[lb, "va_degree"], netB.res_bus.at[ln, "va_degree"], 1e-9, 0, angle=True)
        _cmp(res, sig, "bus%d.p" % pos, pa, pb, ptol)
        if mode == "ac":
            _cmp(res, sig, "bus%d.q" % pos, qa, qb, ptol)
    # --- elements by ordinal
    def rows(t):
        return len(mA.get(t, []))
    for t in ("load", "sgen", "storage", "shunt", "ward", "xward", "motor"):
        for o in range(rows(t)):
            ia, ib = mA[t][o], mB[t][o]
            for c in ("p_mw", "q_mvar"):
                if mode == "dc" and c == "q_mvar":
                    continue
                a = netA["res_" + t].at[ia, c]
                b = netB["res_" + t].at[ib, c]
                if k == "split_pq" and info["t"] == t and info["ordinal"] == o:
                    b = b + sum(netB["res_" + t].at[mB[t][j], c] for j in info["new"])
                _cmp(res, sig, "%s%d.%s" % (t, o, c), a, b, ptol)
    # gens / ext_grids: p individually, q as a sum per electrical node of the ORIGINAL network
    nodeA = oracles.fused_nodes(netA)
    joint = {}
    for t in ("gen", "ext_grid"):
        for o in range(rows(t)):
            ia, ib = mA[t][o], mB[t][o]
            if t == "gen" and not netA.gen.at[ia, "slack"]:
                _cmp(res, sig, "%s%d.p" % (t, o), netA["res_" + t].at[ia, "p_mw"], netB["res_" + t].at[ib, "p_mw"], ptol)
            n = nodeA[netA[t].at[ia, "bus"]]
            z = lambda v: 0.0 if math.isnan(v) else float(v)   # noqa: E731
            sa = complex(z(netA["res_" + t].at[ia, "p_mw"]), 0.0 if mode == "dc" else z(netA["res_" + t].at[ia, "q_mvar"]))
            sb = complex(z(netB["res_" + t].at[ib, "p_mw"]), 0.0 if mode == "dc" else z(netB["res_" + t].at[ib, "q_mvar"]))
            a, b = joint.get(n, (0j, 0j))
            joint[n] = (a + sa, b + sb)
    for n, (x, y) in joint.items():
        _cmp(res, sig, "node%s.sum_gen_p" % n, x.real, y.real, ptol * 2)
        _cmp(res, sig, "node%s.sum_gen_q" % n, x.imag, y.imag, ptol * 2)
    # --- branches
    BR = {"line": ("from", "to"), "trafo": ("hv", "lv"), "trafo3w": ("hv", "mv", "lv"), "impedance": ("from", "to")}
    for t, ends in BR.items():
        for o in range(rows(t)):
            ia, ib = mA[t][o], mB[t][o]
            ra, rb = netA["res_" + t], netB["res_" + t]
            for e in ends:
                eb = e
                if k == "swap_line" and t == "line" and o == info["ordinal"]:
                    eb = "to" if e == "from" else "from"
                for c, unit in (("p_%s_mw", ptol), ("q_%s_mvar", ptol), ("i_%s_ka", None)):
                    ca, cb = c % e, c % eb
                    if ca not in ra.columns or (mode == "dc" and not c.startswith("p_")):
                        continue
                    a, b = ra.at[ia, ca], rb.at[ib, cb]
                    if k == "parallel_lines" and t == "line" and o == info["ordinal"]:
                        b = b + sum(rb.at[mB[t][j], cb] for j in info["new"])
                    if unit is None:
                        _cmp(res, sig, "%s%d.%s" % (t, o, ca), a, b, 1e-9, 1e-6)
                    else:
                        _cmp(res, sig, "%s%d.%s" % (t, o, ca), a, b, unit)
            if "loading_percent" in ra.columns:
                _cmp(res, sig, "%s%d.loading" % (t, o), ra.at[ia, "loading_percent"], rb.at[ib, "loading_percent"], 1e-6, 1e-6)
            _cmp(res, sig, "%s%d.pl" % (t, o), ra.at[ia, "pl_mw"],
                 rb.at[ib, "pl_mw"] + (sum(rb.at[mB[t][j], "pl_mw"] for j in info["new"]) if k == "parallel_lines" and t == "line" and o == info["ordinal"] else 0.0),
                 ptol)
    # applicability / non-triviality
    nt = True
    if k == "split_pq":
        t, o = info["t"], info["ordinal"]
        nt = abs(netA["res_" + t].at[mA[t][o], "p_mw"]) > 0 or abs(netA["res_" + t].at[mA[t][o], "q_mvar"] or 0) > 0
    elif k in ("parallel_lines", "swap_line"):
        v = netA.res_line.at[mA["line"][info["ordinal"]], "p_from_mw"]
        nt = not math.isnan(v) and abs(v) > 0
    elif k == "split_bus":
        nt = len(info["moved"]) > 0 and not math.isnan(netA.res_bus.at[mA["bus"][info["bus"]], "vm_pu"])
        if nt:
            res.label("split-bus-with-moved-elements")
    res.nontrivial = nt
    return res
