"""C26 - Topology graphs represent exactly the energizing connections (DESIGN.md sec. 2, C26).

Code under test: pandapower.topology.create_nxgraph / connected_component(s) / calc_distance_to_bus.
No power flow is run.  The expected graph is derived from the *recipe* (own edge model, own union-find, own
Dijkstra); networkx / pandapower.topology are only used on the side under test.
"""
import heapq
import os

from hypothesis import strategies as st

from pbt import netgen
from pbt.core import Result, silence, exc_sig

ID = "C26"
LEVEL = "exploration"
EXAMPLES = {"quick": 4800, "thorough": 100000}
SHRINK_S = {"quick": 5, "thorough": 40}
DEADLINE_S = {"quick": 900, "thorough": 3000}   # cap only; a quick run takes ~50 s on an idle 16-core machine
RULE = ("Hypothesis draws a network recipe (netgen.grid with 30 % out-of-service probability and 50 % open switches, plus "
        "module-local additions: extra dclines / impedances / tcsc / parallel lines between arbitrary buses, extra and "
        "re-drawn bus-bus, line, trafo and trafo3w switches, out-of-service buses incl. the slack bus, custom element index "
        "labels) and 4 option sets for create_nxgraph (respect_switches, every include_* as True / False / index subset given "
        "as list, numpy array or pandas Index in arbitrary order, nogobuses, notravbuses, multi, include_out_of_service, "
        "include_switches, trafo_length_km, switch_length_km). Oracle (own code on the recipe): expected node set = buses in "
        "service (or all with include_out_of_service) minus nogobuses; expected adjacency = branches that are included, in "
        "service (or include_out_of_service) and not interrupted by an open switch when switches are respected (3W: pairwise "
        "winding edges, an open switch at a winding removes the two edges of that winding), closed (or all) bus-bus switches, "
        "both end buses being nodes, keys (element, index), weight = line length (trafo/switch length options, else 0); "
        "notravbuses keep their incoming connections but have no outgoing ones (reachable, not traversable - as pinned by "
        "pandapower's own test_distance/test_connected_components). connected_components(g) must be a partition of the node "
        "set equal to the harness union-find components; connected_components(g, notravbuses=N) must partition the nodes "
        "outside N into the components of g-N, each extended by exactly the adjacent N buses, plus {f,t} for adjacent N pairs; "
        "connected_component(g, bus) = reach set; calc_distance_to_bus (own graph and g=graph under test, weight='weight' or "
        "None) equals the harness Dijkstra (index set and values). "
        "Non-trivial = the network has >=1 open switch and >=1 out-of-service bus or branch and at least one option set was "
        "compared completely with >=1 expected edge; distinct by case hash.")
ASSUMPTIONS = ["include_out_of_service=True also includes out-of-service branches (DESIGN C26; the docstring only mentions buses)",
               "notravbuses: reachable but not traversable (pandapower tests), not 'isolated' as the doc picture suggests",
               "multi=False: one edge per connected bus pair whose key/weight attributes belong to one of the expected parallel "
               "edges; weighted distances are only checked on MultiGraphs",
               "distance tolerance 1e-9 (sum order of float weights)",
               "nogobuses and notravbuses are disjoint and refer to existing buses; source bus of a search is a graph node",
               "calc_branch_impedances / branch_impedance_unit / library='graph_tool' / include_vsc / include_line_dc are not exercised"]
TECHNIQUE = "property-based testing: recipe generator + reference model (own edge rules, union-find, Dijkstra)"

BRANCH_TYPES = ("line", "impedance", "tcsc", "dcline", "trafo", "trafo3w")
INCLUDE_KW = {"line": "include_lines", "impedance": "include_impedances", "tcsc": "include_tcsc",
              "dcline": "include_dclines", "trafo": "include_trafos", "trafo3w": "include_trafo3ws"}
INDEXED = BRANCH_TYPES + ("switch",)
N_RUNS = 4
# development aid: C26_AVOID_KNOWN=1 never generates the shapes of the reported notravbuses / integer-argument defects
AVOID_ALL = os.environ.get("C26_AVOID_KNOWN", "") == "1"

PROFILE = netgen.profile(
    dcline=True, oos=0.3, open_prob=0.5, max_per_bus=0,
    branch_kinds={"line": 6, "impedance": 2, "bb": 3}, extra_branches=(0, 4),
    level_sets=netgen.LEVEL_SETS + [[110.0, 20.0, 0.4], [380.0, 110.0, 20.0], [220.0, 110.0, 10.0]] * 3,
    zip=False, scaling=False, gen_qlims=False, line_g=False, df=False, leakage=False,
    second_slack=False, slack_gen=False, tap_types=(None,), shifts=(0.0,), sn_choices=(1.0,))


# ----------------------------------------------------------------------------------------------------------------------
# reference model (recipe only)
# ----------------------------------------------------------------------------------------------------------------------
def potential_edges(recipe):
    """every connection of the recipe that can become a graph edge, with the facts the options act on.
    a/b are bus positions, ord is the ordinal of the element within its type (-> index label through maps)"""
    el = recipe["el"]
    open_sw = set()
    for e in el:
        if e["t"] == "switch" and e["et"] != "b" and not e.get("closed", True):
            open_sw.add((e["et"], e["element"], e["bus"]))
    open_any = {(et, k) for et, k, _ in open_sw}
    cnt = {}
    out = []
    for e in el:
        t = e["t"]
        k = cnt.get(t, 0)
        cnt[t] = k + 1
        ins = bool(e.get("in_service", True))
        if t in ("line", "impedance", "tcsc", "dcline"):
            out.append(dict(T=t, ord=k, a=e["from_bus"], b=e["to_bus"], ins=ins,
                            cut=(t == "line" and ("l", k) in open_any),
                            wk="line" if t == "line" else "zero", w=float(e["length_km"]) if t == "line" else 0.0))
        elif t == "trafo":
            out.append(dict(T=t, ord=k, a=e["hv_bus"], b=e["lv_bus"], ins=ins, cut=("t", k) in open_any, wk="trafo", w=0.0))
        elif t == "trafo3w":
            sides = ("hv_bus", "mv_bus", "lv_bus")
            for i in range(3):
                for j in range(i + 1, 3):
                    a, b = e[sides[i]], e[sides[j]]
                    out.append(dict(T=t, ord=k, a=a, b=b, ins=ins,
                                    cut=("t3", k, a) in open_sw or ("t3", k, b) in open_sw, wk="trafo", w=0.0))
        elif t == "switch" and e["et"] == "b":
            out.append(dict(T="switch", ord=k, a=e["bus"], b=e["element"], ins=True, cut=not e.get("closed", True),
                            wk="switch", w=0.0))
    return out


def expected_graph(recipe, pot, o):
    """-> (nodes:set of positions, edges:list of (a, b, T, ord, w), adj: pos -> list of (nbr, T, ord, w))
    adj is the directed view: notravbuses have no outgoing entries"""
    bus_is = [bool(b.get("in_service", True)) for b in recipe["buses"]]
    inc_oos = o.get("include_out_of_service", False)
    nogo = set(o.get("nogo") or [])
    notrav = set(o.get("notrav") or [])
    nodes = {i for i in range(len(bus_is)) if (bus_is[i] or inc_oos or o.get("_keep_oos_buses")) and i not in nogo}
    respect = o.get("respect_switches", True)
    edges = []
    for p in pot:
        if p["T"] == "switch":
            if not o.get("include_switches", True):
                continue
        else:
            inc = o.get("include", {}).get(p["T"], True)
            if inc is False:
                continue
            if inc is not True and p["ord"] not in inc["sel"]:
                continue
            if not (p["ins"] or inc_oos):
                continue
        if respect and p["cut"]:
            continue
        if p["a"] not in nodes or p["b"] not in nodes:
            continue
        w = p["w"]
        if p["wk"] == "trafo" and o.get("trafo_length_km") is not None:
            w = float(o["trafo_length_km"])
        if p["wk"] == "switch" and o.get("switch_length_km") is not None:
            w = float(o["switch_length_km"])
        edges.append((p["a"], p["b"], p["T"], p["ord"], w))
    adj = {n: [] for n in nodes}
    for a, b, T, k, w in edges:
        if a not in notrav:
            adj[a].append((b, T, k, w))
        if b not in notrav:
            adj[b].append((a, T, k, w))
    return nodes, edges, adj


def dijkstra(adj, src, weighted):
    dist = {src: 0.0 if weighted else 0}
    heap = [(dist[src], src)]
    done = set()
    while heap:
        d, u = heapq.heappop(heap)
        if u in done:
            continue
        done.add(u)
        for v, _, _, w in adj.get(u, ()):
            nd = d + (w if weighted else 1)
            if v not in dist or nd < dist[v]:
                dist[v] = nd
                heapq.heappush(heap, (nd, v))
    return dist


def components(nodes, edges, removed=()):
    """own union-find: components of the undirected graph (nodes - removed)"""
    par = {n: n for n in nodes if n not in removed}

    def find(a):
        while par[a] != a:
            par[a] = par[par[a]]
            a = par[a]
        return a
    for a, b, *_ in edges:
        if a in par and b in par:
            ra, rb = find(a), find(b)
            if ra != rb:
                par[max(ra, rb)] = min(ra, rb)
    comp = {}
    for n in par:
        comp.setdefault(find(n), set()).add(n)
    return list(comp.values())


def raw_neighbours(recipe, pot):
    nb = {i: set() for i in range(len(recipe["buses"]))}
    for p in pot:
        nb[p["a"]].add(p["b"])
        nb[p["b"]].add(p["a"])
    return nb


def risky_notrav(recipe, pot):
    """bus positions that trigger the known notravbuses defects: out-of-service buses and buses with any connection
    (whatever its state) to an out-of-service bus"""
    bus_is = [bool(b.get("in_service", True)) for b in recipe["buses"]]
    nb = raw_neighbours(recipe, pot)
    return {i for i in nb if not bus_is[i] or any(not bus_is[j] for j in nb[i])}


# ----------------------------------------------------------------------------------------------------------------------
# generator
# ----------------------------------------------------------------------------------------------------------------------
def _p(draw, prob):
    return draw(st.integers(0, 99)) < int(round(prob * 100))


@st.composite
def _network(draw):
    recipe = draw(netgen.grid(PROFILE))
    el = recipe["el"]
    # bus elements / slacks are irrelevant for the graph: keep the recipe small
    recipe["el"] = el = [e for e in el if e["t"] in BRANCH_TYPES or e["t"] == "switch"]
    nb = len(recipe["buses"])
    buses = list(range(nb))
    for b in recipe["buses"]:
        if _p(draw, 0.06):
            b["in_service"] = False

    def two():
        a = draw(st.sampled_from(buses))
        b = draw(st.sampled_from([x for x in buses if x != a]))
        return a, b

    # additional connections between arbitrary buses (no power flow is run: electrical plausibility is irrelevant)
    lines = [e for e in el if e["t"] == "line"]
    for _ in range(draw(st.integers(0, 4))):
        kind = draw(st.sampled_from(["dcline", "dcline", "impedance", "tcsc", "bb", "bb", "parallel-line"]))
        a, b = two()
        if kind == "dcline":
            d = {"t": "dcline", "from_bus": a, "to_bus": b, "p_mw": 1.0, "loss_percent": 1.0, "loss_mw": 0.0,
                 "vm_from_pu": 1.0, "vm_to_pu": 1.0}
        elif kind == "impedance":
            d = {"t": "impedance", "from_bus": a, "to_bus": b, "rft_pu": 0.01, "xft_pu": 0.05, "sn_mva": 10.0}
        elif kind == "tcsc":
            d = {"t": "tcsc", "from_bus": a, "to_bus": b, "x_l_ohm": 1.0, "x_cvar_ohm": -10.0, "set_p_to_mw": 1.0,
                 "thyristor_firing_angle_degree": 140.0}
        elif kind == "bb":
            d = {"t": "switch", "et": "b", "bus": a, "element": b, "closed": True}
        else:
            if lines and _p(draw, 0.7):
                src = draw(st.sampled_from(lines))
                a, b = src["from_bus"], src["to_bus"]
                if _p(draw, 0.5):
                    a, b = b, a
            d = {"t": "line", "from_bus": a, "to_bus": b, "length_km": draw(netgen.q(0.1, 20.0, nd=2)),
                 "r_ohm_per_km": 0.1, "x_ohm_per_km": 0.1, "c_nf_per_km": 10.0, "max_i_ka": 0.4}
        if d["t"] != "switch" and _p(draw, 0.2):
            d["in_service"] = False
        el.append(d)
    # additional element switches (also a second switch at an element end)
    by_type = {t: [e for e in el if e["t"] == t] for t in ("line", "trafo", "trafo3w")}
    ends = {"line": ("from_bus", "to_bus"), "trafo": ("hv_bus", "lv_bus"), "trafo3w": ("hv_bus", "mv_bus", "lv_bus")}
    ets = [(et, t) for et, t in netgen.ET_TABLE.items() if by_type[t]]
    if ets:
        for _ in range(draw(st.integers(0, 3))):
            et, t = draw(st.sampled_from(ets + [x for x in ets if x[0] == "t3"] * 2))
            k = draw(st.integers(0, len(by_type[t]) - 1))
            key = draw(st.sampled_from(ends[t]))
            el.append({"t": "switch", "et": et, "bus": by_type[t][k][key], "element": k, "closed": True})
    # re-draw the switch states: bus-bus switches of netgen are closed in 90 % of the cases
    for e in el:
        if e["t"] == "switch":
            e["closed"] = not _p(draw, 0.45)
    # custom index labels of the edge tables
    if _p(draw, 0.35):
        for t in INDEXED:
            es = [e for e in el if e["t"] == t]
            if es and _p(draw, 0.7):
                perm = draw(st.permutations(range(len(es))))
                off = draw(st.sampled_from([0, 2, 50]))
                for e, lab in zip(es, perm):
                    e["index"] = int(lab) + off
    return recipe


@st.composite
def _options(draw, recipe, pot, risky):
    nb = len(recipe["buses"])
    buses = list(range(nb))
    n = {t: sum(1 for e in recipe["el"] if e["t"] == t) for t in BRANCH_TYPES}
    o = {"respect_switches": draw(st.sampled_from([True, True, False]))}
    inc = {}
    for t in BRANCH_TYPES:
        mode = draw(st.sampled_from("TTTTTTFSSS"))
        if mode == "F":
            inc[t] = False
        elif mode == "S":
            sel = draw(st.lists(st.sampled_from(range(n[t])), unique=True, max_size=n[t])) if n[t] else []
            inc[t] = {"sel": sel, "form": draw(st.sampled_from(["list", "array", "index"]))}
    if inc:
        o["include"] = inc
    if not draw(st.sampled_from([True, True, True, False])):
        o["multi"] = False
    if draw(st.integers(0, 3)) == 0:
        o["include_out_of_service"] = True
    if draw(st.integers(0, 4)) == 0:
        o["include_switches"] = False
    if draw(st.integers(0, 4)) == 0:
        o["trafo_length_km"] = draw(netgen.q(0.0, 5.0, nd=1))
    if draw(st.integers(0, 4)) == 0:
        o["switch_length_km"] = draw(netgen.q(0.0, 2.0, nd=1))
    # shapes of the known notravbuses / integer-argument defects are avoided by construction in most cases
    # (a non-boundary value of the range: Hypothesis over-represents the ends)
    avoid = draw(st.integers(0, 24)) not in (7, 11, 17) or AVOID_ALL
    nogo = []
    if draw(st.integers(0, 2)) == 0 and nb > 2:
        nogo = draw(st.lists(st.sampled_from(buses), unique=True, min_size=1, max_size=2))
        o["nogo"] = nogo
        o["nogo_form"] = draw(st.sampled_from(["list", "set", "array"]))
        if not avoid and len(nogo) == 1 and _p(draw, 0.5):
            o["nogo_form"] = "int"
    if draw(st.integers(0, 2)) == 0:
        cand = [b for b in buses if b not in nogo and not (avoid and b in risky)]
        if cand:
            o["notrav"] = draw(st.lists(st.sampled_from(cand), unique=True, min_size=1, max_size=3))
            o["notrav_form"] = draw(st.sampled_from(["list", "set", "array"]))
            if not avoid and len(o["notrav"]) == 1 and _p(draw, 0.3):
                o["notrav_form"] = "int"
    o["src"] = draw(st.integers(0, nb - 1))
    o["weight"] = draw(st.sampled_from(["weight", "weight", None]))
    o["cc_notrav"] = draw(st.lists(st.sampled_from(buses), unique=True, max_size=3)) if draw(st.integers(0, 1)) else []
    return o


@st.composite
def _case(draw, tier):
    recipe = draw(_network())
    pot = potential_edges(recipe)
    risky = risky_notrav(recipe, pot)
    return {"recipe": recipe, "runs": [draw(_options(recipe, pot, risky)) for _ in range(N_RUNS)]}


def strategy(tier):
    return _case(tier)


# ----------------------------------------------------------------------------------------------------------------------
# check
# ----------------------------------------------------------------------------------------------------------------------
class _FastPP:
    """pandapower facade for netgen.build: create_empty_network (120 ms, 70 % of the cost of a case) is replaced by a
    deep copy of one pristine empty network (30 ms); every other attribute is pandapower's"""
    _empty = {}

    def __init__(self):
        import pandapower
        self._pp = pandapower

    def create_empty_network(self, sn_mva=1.0, f_hz=50.0, **kw):
        import copy
        key = (float(sn_mva), float(f_hz), tuple(sorted(kw.items())))
        if key not in self._empty:
            self._empty[key] = self._pp.create_empty_network(sn_mva=sn_mva, f_hz=f_hz, **kw)
        return copy.deepcopy(self._empty[key])

    def __getattr__(self, name):
        return getattr(self._pp, name)


def _form(vals, form):
    import numpy as np
    import pandas as pd
    if form == "int":
        return int(vals[0])
    if form == "set":
        return set(int(v) for v in vals)
    if form == "array":
        return np.array([int(v) for v in vals], dtype=np.int64)
    if form == "index":
        return pd.Index([int(v) for v in vals], dtype="int64")
    return [int(v) for v in vals]


def known_shape(recipe, pot, o, include_oos):
    """facts about the input that select one of the reported notravbuses / integer-argument defects"""
    if o.get("nogo_form") == "int":
        return "nogobuses-int"
    if o.get("notrav_form") == "int":
        return "notravbuses-int"
    notrav = set(o.get("notrav") or [])
    if not notrav or include_oos:
        return None
    bus_is = [bool(b.get("in_service", True)) for b in recipe["buses"]]
    o2 = dict(o)
    o2["_keep_oos_buses"] = True     # edges as they are before the out-of-service buses are removed
    o2["notrav"] = []
    nodes, edges, _ = expected_graph(recipe, pot, o2)
    dangling = False
    for a, b, *_ in edges:
        for u, v in ((a, b), (b, a)):
            if u in notrav and not bus_is[v] and v not in notrav:
                return "oos-bus-adjacent-to-notravbus"      # remove_node(v) fails
    for a, b, *_ in edges:
        for u, v in ((a, b), (b, a)):
            if u in notrav and not bus_is[u] and bus_is[v] and v not in notrav:
                dangling = True
    return "oos-notravbus" if dangling else None


def graph_kwargs(o, maps):
    kw = {"respect_switches": o.get("respect_switches", True)}
    for t, inc in o.get("include", {}).items():
        if inc is False:
            kw[INCLUDE_KW[t]] = False
        else:
            kw[INCLUDE_KW[t]] = _form([maps[t][k] for k in inc["sel"]], inc["form"])
    for k in ("multi", "include_out_of_service", "include_switches", "trafo_length_km", "switch_length_km"):
        if k in o:
            kw[k] = o[k]
    if o.get("nogo"):
        kw["nogobuses"] = _form([maps["bus"][b] for b in o["nogo"]], o.get("nogo_form", "list"))
    if o.get("notrav"):
        kw["notravbuses"] = _form([maps["bus"][b] for b in o["notrav"]], o.get("notrav_form", "list"))
    return kw


def edge_reason(p, o, kind, recipe, frm=None):
    """decisive facts about one potential edge under one option set (root-cause part of an edge signature):
    extra edge   -> the rules that exclude it; missing edge -> the option that overrides a would-be exclusion"""
    bus_is = [bool(b.get("in_service", True)) for b in recipe["buses"]]
    respect = o.get("respect_switches", True)
    inc_oos = bool(o.get("include_out_of_service", False))
    r = []
    subset = False
    if p["T"] == "switch":
        if not o.get("include_switches", True):
            r.append("switches-excluded")
    else:
        inc = o.get("include", {}).get(p["T"], True)
        if inc is False:
            r.append("type-excluded")
        elif inc is not True:
            subset = True
            if p["ord"] not in inc["sel"]:
                r.append("not-in-subset")
    oos_el = not p["ins"]
    oos_bus = not (bus_is[p["a"]] and bus_is[p["b"]])
    if kind == "extra":
        if oos_el and not inc_oos:
            r.append("element-oos")
        if p["cut"] and respect:
            r.append("open-switch")
        if oos_bus and not inc_oos:
            r.append("bus-oos")
        if p["a"] in (o.get("nogo") or []) or p["b"] in (o.get("nogo") or []):
            r.append("nogobus")
        if frm in (o.get("notrav") or []):
            r.append("from-notravbus")
    else:
        if subset:
            r.append("in-subset")
        if p["cut"] and not respect:
            r.append("open-switch-ignored")
        if (oos_el or oos_bus) and inc_oos:
            r.append("oos-included")
    return "+".join(r) or "plain"


def compare_graph(res, G, recipe, pot, o, maps, nodes, adj, edges):
    """node set and adjacency of the graph under test against the reference model. True if identical"""
    pos = {int(lab): i for i, lab in enumerate(maps["bus"])}
    multi = o.get("multi", True)
    ok = True
    try:
        got_nodes = {pos[int(n)] for n in G.nodes()}
    except KeyError:
        res.fail("nodes/unknown-node", nodes=[int(n) for n in G.nodes()], opt=o)
        return False
    bus_is = [bool(b.get("in_service", True)) for b in recipe["buses"]]
    for n in sorted(got_nodes ^ nodes):
        kind = "extra" if n in got_nodes else "missing"
        why = "nogobus" if n in (o.get("nogo") or []) else ("bus-oos" if not bus_is[n] else "in-service-bus")
        res.fail("nodes/%s/%s" % (kind, why), bus=maps["bus"][n], opt=o)
        ok = False
    potmap = {}
    for p in pot:
        potmap[(p["T"], maps[p["T"]][p["ord"]], frozenset((p["a"], p["b"])))] = p
    for n in sorted(got_nodes & nodes):
        got = {}
        for v, data in G.adj[maps["bus"][n]].items():
            v = int(v)
            if v not in pos or pos[v] not in got_nodes:
                shape = known_shape(recipe, pot, o, o.get("include_out_of_service", False))
                res.fail("create_nxgraph/dangling-adjacency/%s" % (shape or "other"), frm=maps["bus"][n], to=v, opt=o)
                ok = False
                continue
            items = data.items() if multi else [(data.get("key"), data)]
            for key, attr in items:
                try:
                    k = (str(key[0]), int(key[1]))
                except (TypeError, IndexError, ValueError):
                    res.fail("edges/bad-key", key=repr(key), opt=o)
                    ok = False
                    continue
                got.setdefault(pos[v], {})[k] = attr
        exp = {}
        for v, T, k, w in adj[n]:
            exp.setdefault(v, {})[(T, int(maps[T][k]))] = w
        for v in sorted(set(got) | set(exp)):
            gk, ek = got.get(v, {}), exp.get(v, {})
            if multi:
                extra, missing = set(gk) - set(ek), set(ek) - set(gk)
            else:
                # one edge per pair; its key must be one of the expected parallel connections
                extra = set(gk) - set(ek)
                missing = set(ek) if (ek and not gk) else set()
            for kind, keys in (("extra", extra), ("missing", missing)):
                for key in sorted(keys):
                    p = potmap.get((key[0], key[1], frozenset((n, v))))
                    why = edge_reason(p, o, kind, recipe, frm=n) if p else "no-such-connection"
                    res.fail("edges/%s/%s/%s" % (kind, key[0], why), frm=maps["bus"][n], to=maps["bus"][v], key=list(key),
                             multi=multi, opt=o)
                    ok = False
            for key in sorted(set(gk) & set(ek)):
                w = gk[key].get("weight")
                if w is None or abs(float(w) - ek[key]) > 1e-12:
                    res.fail("edges/weight/%s" % key[0], frm=maps["bus"][n], to=maps["bus"][v], key=list(key), got=w,
                             expected=ek[key], opt=o)
                    ok = False
    if ok and not o.get("notrav"):
        n_exp = len({(min(a, b), max(a, b)) for a, b, *_ in edges}) if not multi else len(edges)
        if G.number_of_edges() != n_exp:
            res.fail("edges/count", got=G.number_of_edges(), expected=n_exp, opt=o)
            ok = False
    return ok


def compare_dist(res, series, exp, maps, sig, o, weighted):
    try:
        got = {int(k): float(v) for k, v in series.items()}
    except (TypeError, ValueError):
        res.fail(sig + "/bad-series", got=repr(series)[:300], opt=o)
        return
    expd = {int(maps["bus"][k]): float(v) for k, v in exp.items()}
    if set(got) != set(expd):
        res.fail(sig + "/reached-set", extra=sorted(set(got) - set(expd)), missing=sorted(set(expd) - set(got)), opt=o)
        return
    for k in sorted(got):
        if abs(got[k] - expd[k]) > 1e-9 * max(1.0, abs(expd[k])):
            res.fail(sig + "/length", bus=k, got=got[k], expected=expd[k], opt=o)
            return
    if not weighted and hasattr(series, "dtype") and len(series) and series.dtype.kind not in "iu":
        res.fail(sig + "/topological-distance-not-int", dtype=str(series.dtype), opt=o)


def classify_exc(e, shape, where):
    name = type(e).__name__
    if shape in ("nogobuses-int", "notravbuses-int") and name == "TypeError":
        return "create_nxgraph/TypeError/%s" % shape
    if shape == "oos-bus-adjacent-to-notravbus" and name in ("KeyError", "NetworkXError"):
        return "create_nxgraph/%s/%s" % (name, shape)
    if shape == "oos-notravbus" and where != "create" and name in ("KeyError", "NodeNotFound"):
        return "create_nxgraph/dangling-adjacency/%s" % shape
    return "exc/%s/%s" % (where, exc_sig(e))


def check_cc(res, top, G, recipe, o, maps, nodes, edges, adj):
    pos = {int(lab): i for i, lab in enumerate(maps["bus"])}
    lab = maps["bus"]
    comps_exp = components(nodes, edges)
    if len(comps_exp) >= 2:
        res.label("graph:>=2-components")
    try:
        comps = [set(pos[int(x)] for x in c) for c in top.connected_components(G)]
    except Exception as e:  # noqa: BLE001
        res.fail("exc/connected_components/" + exc_sig(e), opt=o)
        return
    total = sum(len(c) for c in comps)
    union = set().union(*comps) if comps else set()
    if total != len(union):
        res.fail("cc/not-disjoint", comps=[sorted(lab[x] for x in c) for c in comps], opt=o)
    elif union != nodes:
        res.fail("cc/not-covering", missing=sorted(lab[x] for x in nodes - union), extra=sorted(lab[x] for x in union - nodes), opt=o)
    elif sorted(sorted(c) for c in comps) != sorted(sorted(c) for c in comps_exp):
        res.fail("cc/wrong-components", got=[sorted(lab[x] for x in c) for c in comps],
                 expected=[sorted(lab[x] for x in c) for c in comps_exp], opt=o)
    # documented notravbuses semantics of connected_components on a graph built without notravbuses
    N = set(b for b in o.get("cc_notrav", []) if b in nodes)
    if N:
        res.label("cc:notravbuses")
        nbr = {n: {v for v, *_ in adj[n]} for n in nodes}
        base = components(nodes, edges, removed=N)
        exp_sets = [frozenset(c | {x for x in N if nbr[x] & c}) for c in base]
        pairs = {frozenset((a, b)) for a in N for b in nbr[a] if b in N and a != b}
        if pairs:
            res.label("cc:adjacent-notravbuses")
        try:
            got = [frozenset(pos[int(x)] for x in c) for c in top.connected_components(G, notravbuses=set(lab[x] for x in N))]
        except Exception as e:  # noqa: BLE001
            res.fail("exc/connected_components-notrav/" + exc_sig(e), opt=o)
            return
        main = [g for g in got if g - N]
        rest = [g for g in got if not (g - N)]
        if sorted(sorted(g) for g in main) != sorted(sorted(g) for g in exp_sets):
            res.fail("cc/notrav/wrong-components", got=[sorted(lab[x] for x in g) for g in main],
                     expected=[sorted(lab[x] for x in g) for g in exp_sets], notrav=sorted(lab[x] for x in N), opt=o)
        elif set(rest) - pairs:
            res.fail("cc/notrav/spurious-notrav-only-set", got=[sorted(lab[x] for x in g) for g in rest], opt=o)
        elif pairs - set(rest):
            res.fail("cc/notrav/adjacent-pair-missing", missing=[sorted(lab[x] for x in g) for g in pairs - set(rest)], opt=o)


def check(case):
    import pandapower.topology as top
    res = Result()
    recipe = case["recipe"]
    with silence():
        net, maps = netgen.build(recipe, pp=_FastPP())
    for t in INDEXED:
        maps.setdefault(t, [])
    pot = potential_edges(recipe)
    nb = len(recipe["buses"])
    bus_is = [bool(b.get("in_service", True)) for b in recipe["buses"]]

    # ---- labels of the network
    sw = [e for e in recipe["el"] if e["t"] == "switch"]
    n_open = sum(1 for e in sw if not e.get("closed", True))
    for et in ("b", "l", "t", "t3"):
        if any(e["et"] == et and not e.get("closed", True) for e in sw):
            res.label("open-switch:" + et)
    oos_branch = any(not p["ins"] for p in pot)
    oos_bus = not all(bus_is)
    if oos_bus:
        res.label("oos-bus")
    if oos_branch:
        res.label("oos-branch")
    for t in ("trafo3w", "dcline", "impedance", "tcsc"):
        if maps[t]:
            res.label("has-" + t)
    pairs = [frozenset((p["a"], p["b"])) for p in pot]
    if len(pairs) != len(set(pairs)):
        res.label("parallel-connections")
    if any("index" in e for e in recipe["el"]):
        res.label("custom-element-index")
    if any(not bus_is[p["a"]] or not bus_is[p["b"]] for p in pot if p["ins"]):
        res.label("in-service-branch-at-oos-bus")

    complete = 0
    for o in case["runs"]:
        o = dict(o)
        o["nogo"] = [b % nb for b in o.get("nogo") or []]
        o["notrav"] = [b % nb for b in o.get("notrav") or [] if b % nb not in o["nogo"]]
        inc_oos = bool(o.get("include_out_of_service", False))
        for k, l in (("nogo", "opt:nogobuses"), ("notrav", "opt:notravbuses")):
            if o[k]:
                res.label(l)
        if not o.get("respect_switches", True):
            res.label("opt:respect_switches=False")
        if not o.get("multi", True):
            res.label("opt:multi=False")
        if inc_oos:
            res.label("opt:include_out_of_service")
        if not o.get("include_switches", True):
            res.label("opt:include_switches=False")
        if "trafo_length_km" in o or "switch_length_km" in o:
            res.label("opt:trafo/switch_length_km")
        for t, inc in o.get("include", {}).items():
            res.label("opt:include-False" if inc is False else "opt:include-subset")
            if inc is not False and inc["sel"] and len(inc["sel"]) < len(maps[t]):
                res.label("opt:include-proper-subset")
        shape = known_shape(recipe, pot, o, inc_oos)
        if shape:
            res.label("known-shape:" + shape)
        nodes, edges, adj = expected_graph(recipe, pot, o)
        kw = graph_kwargs(o, maps)

        # ---- create_nxgraph: nodes, adjacency
        G = None
        try:
            with silence():
                G = top.create_nxgraph(net, **kw)
        except Exception as e:  # noqa: BLE001
            res.fail(classify_exc(e, shape, "create"), error=repr(e)[:200], opt=o)
        same = False
        if G is not None:
            if type(G).__name__ != ("MultiGraph" if o.get("multi", True) else "Graph"):
                res.fail("graph/type", got=type(G).__name__, opt=o)
            same = compare_graph(res, G, recipe, pot, o, maps, nodes, adj, edges)
        src = None
        if nodes:
            ns = sorted(nodes)
            src = o["src"] % nb if o["src"] % nb in nodes else ns[o["src"] % len(ns)]
        weighted = o.get("weight") == "weight"
        if G is not None and same and src is not None:
            # ---- searches on the graph under test
            reach = dijkstra(adj, src, False)
            try:
                cc1 = {int(x) for x in top.connected_component(G, maps["bus"][src])}
                if cc1 != {int(maps["bus"][x]) for x in reach}:
                    res.fail("cc/connected_component/%s" % ("notrav-graph" if o["notrav"] else "plain"),
                             src=maps["bus"][src], got=sorted(cc1), expected=sorted(int(maps["bus"][x]) for x in reach), opt=o)
            except Exception as e:  # noqa: BLE001
                res.fail("exc/connected_component/" + exc_sig(e), opt=o)
            if not o["notrav"]:
                check_cc(res, top, G, recipe, o, maps, nodes, edges, adj)
            if o.get("multi", True) or not weighted:
                try:
                    with silence():
                        d = top.calc_distance_to_bus(net, maps["bus"][src], weight=o.get("weight"), g=G)
                    compare_dist(res, d, dijkstra(adj, src, weighted), maps, "dist/given-graph", o, weighted)
                    if weighted and any(w > 0 for *_, w in edges):
                        res.label("dist:weighted")
                except Exception as e:  # noqa: BLE001
                    res.fail("exc/calc_distance_to_bus-g/" + exc_sig(e), opt=o)
            if edges:
                complete += 1

        # ---- calc_distance_to_bus building its own graph (respect_switches / nogobuses / notravbuses only)
        od = {"respect_switches": o.get("respect_switches", True), "nogo": o["nogo"], "notrav": o["notrav"],
              "nogo_form": o.get("nogo_form", "list"), "notrav_form": o.get("notrav_form", "list")}
        nodes_d, edges_d, adj_d = expected_graph(recipe, pot, od)
        if nodes_d:
            ns = sorted(nodes_d)
            src_d = o["src"] % nb if o["src"] % nb in nodes_d else ns[o["src"] % len(ns)]
            shape_d = known_shape(recipe, pot, od, False)
            kwd = {"respect_switches": od["respect_switches"], "weight": o.get("weight")}
            if od["nogo"]:
                kwd["nogobuses"] = _form([maps["bus"][b] for b in od["nogo"]], od["nogo_form"])
            if od["notrav"]:
                kwd["notravbuses"] = _form([maps["bus"][b] for b in od["notrav"]], od["notrav_form"])
            try:
                with silence():
                    d = top.calc_distance_to_bus(net, maps["bus"][src_d], **kwd)
            except Exception as e:  # noqa: BLE001
                res.fail(classify_exc(e, shape_d, "calc_distance_to_bus"), error=repr(e)[:200], src=maps["bus"][src_d], opt=od)
            else:
                sig = "dist/own-graph" + ("/" + shape_d if shape_d else "")
                compare_dist(res, d, dijkstra(adj_d, src_d, weighted), maps, sig, od, weighted)
                if od["notrav"] and any(v in od["notrav"] for v in dijkstra(adj_d, src_d, False) if v != src_d):
                    res.label("dist:reaches-notravbus")
    res.nontrivial = bool(n_open >= 1 and (oos_bus or oos_branch) and complete >= 1)
    return res
