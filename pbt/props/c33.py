"""C33 - DER controller setpoints stay within the declared capability (DESIGN.md sec. 2, C33).

Code under test: pandapower.control.controller.DERController (der_control.DERController._determine_target_powers /
_saturate / _saturate_sn_mva_step, PQVAreas.*.in_area / q_flexibility). The reference evaluation of the areas below is
an own transcription (piecewise formulas and corner tables of VDE-AR-N 4105 / 4110 / 4120 / 4130 as declared by the
classes, evaluated without shapely and without the classes).
"""
import copy
import math

from hypothesis import strategies as st

from pbt.core import Result, silence, exc_sig
from pbt.netgen import q as qf

ID = "C33"
LEVEL = "exploration"
EXAMPLES = {"quick": 12000, "thorough": 240000}
DEADLINE_S = {"quick": 900, "thorough": 3600}   # generous: the machine is shared (cap hit => inconclusive, never a violation)
RULE = ("A case is one DERController over 1-4 sgens (own bus each) with sn_mva, start point (p, q) inside and outside the "
        "capability, saturate_sn_mva (none / scalar / per element, partly NaN), q_prio, damping_coef (1; 2 or 3 in a "
        "minority), a Q model (none, const Q, cosphi(P) fixed (P and PQ variant), cosphi(P) curve, Q(V) curve, cosphi(V) "
        "curve) and a PQV area (none, PQVArea4105 v1/v2, 4110, 4120 V1-V3 (2015/2018), 4130 V1-V3 (220/380 kV), STATCOM, "
        "generated convex PQ / QV / PQV polygons; raise_merge_overlap both), driven for 1-3 control steps with a bus "
        "voltage vector per step written to res_bus (voltages 0.8-1.2 incl. the break points of the areas), or in a "
        "minority through runpp(run_control=True) on a feeder. Oracle after every control_step, per element: "
        "saturation given -> p^2+q^2 <= saturate_sn_mva^2 (1+1e-9); only an area given -> q/sn_mva within "
        "[q_min, q_max](p/sn_mva, vm) of the reference evaluation (1e-9; run_control: the loop's own convergence tolerance 1.5*damping*(1e-6+1e-5*|value|) MVA for areas and damped runs); no NaN setpoints. "
        "Elements whose reference flexibility is empty / undefined (outside the polygon's p or vm range, PQ and QV part "
        "disjoint) and damped runs starting outside the capability are not judged. Non-trivial = for some judged element "
        "the limit is binding after the step or the (reference) unsaturated target lay outside it; distinct by case hash.")
ASSUMPTIONS = ["area corner data (VDE tables) are taken as declared by the area classes; the evaluation (sections of polygons, "
               "piecewise lines, merge of PQ and QV part, clipping) is independent",
               "a ValueError of q_flexibility for disjoint PQ / QV flexibility (raise_merge_overlap=True) is a documented rejection",
               "damping_coef > 1 only judged when the start point is inside the (convex) limit and the voltage is constant",
               "QModelCosphiSn is not generated (returns a scalar, unusable with areas or saturation)"]

T90, T925, T95, T975 = 0.484322, 0.410775, 0.328684, 0.227902     # tan(acos(0.9)), ... as declared by the classes
MINMAX_412X = {1: (-T975, T90), 2: (-T95, T925), 3: (-T925, T95)}
TOL = 1e-9
_BASE = []


# ------------------------------------------------------------------------------------------------ reference areas

def vline_section(pts, c):
    """[ymin, ymax] of the section of the polygon (list of (x, y), closed or not) with the line x = c, None if empty"""
    ys = []
    n = len(pts)
    for i in range(n):
        (x1, y1), (x2, y2) = pts[i], pts[(i + 1) % n]
        if x1 == x2:
            if x1 == c:
                ys += [y1, y2]
            continue
        if min(x1, x2) <= c <= max(x1, x2):
            ys.append(y1 + (y2 - y1) * (c - x1) / (x2 - x1))
    if not ys:
        return None
    return min(ys), max(ys)


def interp(x, xp, fp):
    if x <= xp[0]:
        return fp[0]
    if x >= xp[-1]:
        return fp[-1]
    for i in range(len(xp) - 1):
        if xp[i] <= x <= xp[i + 1]:
            if xp[i + 1] == xp[i]:
                return fp[i + 1]
            return fp[i] + (fp[i + 1] - fp[i]) * (x - xp[i]) / (xp[i + 1] - xp[i])


def pq_412x(p, qmin, qmax, p0, p1, q_under):
    if p < p0:
        return -0.05, q_under
    if p < p1:
        return -0.1 + (p - p0) * (qmin + 0.1) / (p1 - p0), 0.1 + (p - p0) * (qmax - 0.1) / (p1 - p0)
    return qmin, qmax


def qv_4120(v, qmin, qmax):
    vmin, vmax, d = 96.0 / 110, 127.0 / 110, 7.0 / 110
    lf = (qmax - qmin) / d
    if v < vmin:
        return qmax, qmax
    if v <= vmin + d:
        return qmax - lf * (v - vmin), qmax
    if v <= vmax - d:
        return qmin, qmax
    if v <= vmax:
        return qmin, qmin + lf * (vmax - v)
    return qmin, qmin


def qv_4130(v, qmin, qmax, variant, vn):
    eps = 1e-3
    s = math.sin
    ac = math.acos
    if variant == 1:
        lo_v = [350 - eps, 350, 380, 400] if vn == 380 else [193 - eps, 193, 220, 233.5]
        hi_v = [420, 440] if vn == 380 else [245, 253]
        lo_q = [qmax, qmax * s(ac(0.95)) / s(ac(0.9)), 0.0, qmin]
        hi_q = [qmax, qmin]
    elif variant == 2:
        lo_v = [350 - eps, 350, 380, 410] if vn == 380 else [193 - eps, 193, 220, 240]
        hi_v = [420, 440, 440 + eps] if vn == 380 else [245, 253, 253 + eps]
        lo_q = [qmax, qmax * s(ac(0.95)) / s(ac(0.925)), 0.0, qmin]
        hi_q = [qmax, 0.0, qmin]
    else:
        lo_v = [350, 380] if vn == 380 else [193, 220]
        hi_v = [420, 440, 440 + eps] if vn == 380 else [245, 253, 253 + eps]
        lo_q = [qmax, qmin]
        hi_q = [qmax, 0.0, qmin]
    return interp(v, [x / vn for x in lo_v], lo_q), interp(v, [x / vn for x in hi_v], hi_q)


POLY_4110_PQ = list(zip((-1e-7, 0.05, 0.05, 1., 1., 0.05, 0.05, 1e-7), (-1e-7, -1e-7, -0.01961505, -T90, T90, 0.01961505, 0., 1e-7)))


def poly_qv_410x(qm):
    return list(zip((0.9, 0.95, 1.1, 1.1, 1.05, 0.9), (0., -qm, -qm, 0., qm, qm)))


def ref_flex(area, p, v):
    """(qmin, qmax) in p.u. of sn_mva, or a string naming why no flexibility is defined"""
    t = area["t"]
    pq = qv = None
    if t == "statcom":
        return area["min_q"], area["max_q"]
    if t == "4120":
        qmin, qmax = MINMAX_412X[area["variant"]]
        p0 = 0.1 if area["version"] == 2015 else 0.05
        pq, qv = pq_412x(p, qmin, qmax, p0, 0.2, 0.0), qv_4120(v, qmin, qmax)
    elif t == "4130":
        qmin, qmax = MINMAX_412X[area["variant"]]
        pq, qv = pq_412x(p, qmin, qmax, 0.05, 0.2, 0.05), qv_4130(v, qmin, qmax, area["variant"], area["vn_kv"])
    elif t == "4110":
        pq, qv = vline_section(POLY_4110_PQ, p), vline_section(poly_qv_410x(T90), v)
    elif t == "4105":
        qm = T95 if area["variant"] == 1 else T90
        pq, qv = vline_section([(0., 0.), (1., -qm), (1., qm)], p), vline_section(poly_qv_410x(qm), v)
    elif t == "pq_polygon":
        pq = vline_section(area["pq"], p)
        qv = (-math.inf, math.inf)
    elif t == "qv_polygon":
        qv = vline_section(area["qv"], v)
        pq = (-math.inf, math.inf)
    elif t == "pqv_polygon":
        pq, qv = vline_section(area["pq"], p), vline_section(area["qv"], v)
    if pq is None:
        return "p-outside-polygon"
    if qv is None:
        return "vm-outside-polygon"
    lo, hi = max(pq[0], qv[0]), min(pq[1], qv[1])
    if lo > hi:
        return "pq-qv-disjoint"
    return lo, hi


def breakpoints(area):
    t = area["t"]
    if t == "4120":
        return [96.0 / 110, (96.0 + 7) / 110, (127.0 - 7) / 110, 127.0 / 110]
    if t == "4130":
        vn = area["vn_kv"]
        return [x / vn for x in ([350, 380, 400, 410, 420, 440] if vn == 380 else [193, 220, 233.5, 240, 245, 253])]
    if t in ("4110", "4105"):
        return [0.9, 0.95, 1.05, 1.1]
    if t in ("qv_polygon", "pqv_polygon"):
        return sorted({x for x, _ in area["qv"]})
    return [1.0]


# ------------------------------------------------------------------------------------------------ strategy

@st.composite
def _hexagon(draw, xl, xm, xh):
    """convex hexagon (pointed or blunt left end) as list of (x, q)"""
    hi = draw(qf(0.1, 0.6, 3))
    lo = -draw(qf(0.1, 0.6, 3))
    hi_l = draw(qf(0.0, hi, 3))
    lo_l = -draw(qf(0.0, -lo, 3))
    if draw(st.integers(0, 3)) == 0:
        lo_l = hi_l = 0.0
    return [[xl, hi_l], [xm, hi], [xh, hi], [xh, lo], [xm, lo], [xl, lo_l]]


@st.composite
def _area(draw):
    t = draw(st.sampled_from(["none", "none", "4105", "4110", "4110", "4120", "4120", "4120", "4130", "4130", "statcom",
                              "pq_polygon", "qv_polygon", "pqv_polygon"]))
    a = {"t": t, "raise_merge_overlap": draw(st.sampled_from([True, True, False]))}
    if t == "4105":
        a["variant"] = draw(st.integers(1, 2))
    elif t == "4120":
        a["variant"] = draw(st.integers(1, 3))
        a["version"] = draw(st.sampled_from([2015, 2018]))
    elif t == "4130":
        a["variant"] = draw(st.sampled_from([1, 1, 1, 3, 3, 3, 2]))
        a["vn_kv"] = draw(st.sampled_from([380, 220]))
    elif t == "statcom":
        a["min_q"] = -draw(qf(0.0, 0.6, 3))
        a["max_q"] = draw(qf(0.0, 0.6, 3))
    if t in ("pq_polygon", "pqv_polygon"):
        xl = draw(qf(0.0, 0.2, 2))
        a["pq"] = draw(_hexagon(xl, round(xl + draw(qf(0.05, 0.3, 2)), 2), draw(qf(0.9, 1.3, 2))))
    if t in ("qv_polygon", "pqv_polygon"):
        xl = draw(qf(0.85, 0.95, 2))
        a["qv"] = draw(_hexagon(xl, round(xl + draw(qf(0.02, 0.08, 2)), 2), draw(qf(1.05, 1.15, 2))))
    return a


@st.composite
def _qmodel(draw):
    t = draw(st.sampled_from(["none", "none", "constq", "cosphip", "cosphipq", "cosphipcurve", "qvcurve", "cosphivcurve"]))
    m = {"t": t}
    sgn = draw(st.sampled_from([1, -1]))
    if t == "constq":
        m["q_pu"] = sgn * draw(qf(0.0, 1.2, 3))
    elif t in ("cosphip", "cosphipq"):
        m["cosphi"] = sgn * draw(qf(0.3, 1.0, 3))
    elif t == "cosphipcurve":
        m["p_points_pu"] = [0.0, 0.5, 1.0]
        m["cosphi_points"] = [1.0, 1.0, sgn * draw(qf(0.5, 0.99, 2))]
    elif t == "qvcurve":
        qm = draw(qf(0.1, 1.2, 2))
        m["vm_points_pu"] = [0.0, 0.93, 0.97, 1.03, 1.07, 2.0]
        m["q_points_pu"] = [qm, qm, 0.0, 0.0, -qm, -qm]
    elif t == "cosphivcurve":
        c = draw(qf(0.5, 0.99, 2))
        m["vm_points_pu"] = [0.0, 0.93, 0.97, 1.03, 1.07, 2.0]
        m["cosphi_points"] = [c, c, 1.0, 1.0, -c, -c]
    return m


@st.composite
def _case(draw, tier):
    n = draw(st.integers(1, 4))
    area = draw(_area())
    case = {"n": n, "area": area, "qmodel": draw(_qmodel()), "q_prio": draw(st.booleans()),
            "damping": draw(st.sampled_from([1, 1, 1, 1, 1, 2, 3])),
            "mode": "run_control" if draw(st.integers(0, 39)) == 17 else "direct"}
    sat_kind = draw(st.sampled_from(["none", "scalar", "list", "list"] if area["t"] != "none" else ["scalar", "list"]))
    case["sgen"] = []
    for _ in range(n):
        sn = draw(st.sampled_from([0.05, 0.5, 1.0, 2.5, 40.0]))
        # the VDE areas have all their structure at low power and |q| < 0.5: half of the points are drawn there
        p_pu = draw(qf(0.0, 0.25, 3)) if draw(st.integers(0, 2)) == 0 else draw(qf(0.0, 1.3, 3))
        q_pu = draw(qf(-0.55, 0.55, 3)) if draw(st.booleans()) else draw(qf(-1.2, 1.2, 3))
        case["sgen"].append({"sn_mva": sn, "p_pu": p_pu, "q_pu": q_pu})
    if sat_kind == "none":
        case["sat"] = None
    elif sat_kind == "scalar":
        case["sat"] = round(draw(qf(0.3, 1.3, 2)) * min(s["sn_mva"] for s in case["sgen"]), 6)
    else:
        case["sat"] = [None if (draw(st.integers(0, 5)) == 0 and area["t"] != "none") else round(draw(qf(0.3, 1.3, 2)) * s["sn_mva"], 6)
                       for s in case["sgen"]]
    bps = breakpoints(area)
    steps = []
    for _ in range(draw(st.integers(1, 3))):
        vs = []
        for _ in range(n):
            k = draw(st.integers(0, 9))
            if k == 0:
                vs.append(["bp", draw(st.integers(0, len(bps) - 1)), draw(st.sampled_from([0.0, 0.0, 1e-9, -1e-9]))])
            elif k <= 2:
                vs.append(["v", draw(qf(0.8, 1.2, 3))])
            else:
                vs.append(["v", draw(qf(0.92, 1.09, 3))])
        steps.append(vs)
    case["steps"] = steps
    return case


def strategy(tier):
    return _case(tier)


# ------------------------------------------------------------------------------------------------ check

def base_net(n, case, full):
    """feeder with one sgen per controlled element. Building / deep-copying a net costs 20-100 ms, so the direct mode works on
    a shallow copy of a cached base net in which only the tables that are written (sgen, controller, res_bus) are fresh."""
    import pandapower as pp
    if not _BASE:
        net = pp.create_empty_network()
        pp.create_buses(net, 5, 20.0)
        pp.create_ext_grid(net, 0, vm_pu=1.02)
        for k in range(1, 5):
            pp.create_line(net, 0, k, 0.5 + k, "NA2XS2Y 1x95 RM/25 12/20 kV")
            pp.create_load(net, k, p_mw=0.3 * k, q_mvar=0.05)
            pp.create_sgen(net, k, p_mw=0.0, q_mvar=0.0, sn_mva=1.0)
        _BASE.append(net)
    base = _BASE[0]
    if full:
        net = copy.deepcopy(base)
        net.sgen.drop(net.sgen.index[n:], inplace=True)
    else:
        from pandapower.auxiliary import pandapowerNet
        net = pandapowerNet({k: v for k, v in base.items()})
        net["sgen"] = base.sgen.iloc[:n].copy()
        for tab in ("controller", "res_bus", "res_sgen"):
            if tab in base:
                net[tab] = base[tab].copy()
    net.sgen["sn_mva"] = [s["sn_mva"] for s in case["sgen"]]
    net.sgen["p_mw"] = [s["p_pu"] * s["sn_mva"] for s in case["sgen"]]
    net.sgen["q_mvar"] = [s["q_pu"] * s["sn_mva"] for s in case["sgen"]]
    return net


def build_area(a):
    from pandapower.control.controller.DERController import PQVAreas as A
    t, rmo = a["t"], a["raise_merge_overlap"]
    if t == "none":
        return None
    if t == "4105":
        return A.PQVArea4105(a["variant"], raise_merge_overlap=rmo)
    if t == "4110":
        return A.PQVArea4110(raise_merge_overlap=rmo)
    if t == "4120":
        return getattr(A, "PQVArea4120V%d" % a["variant"])(version=a["version"], raise_merge_overlap=rmo)
    if t == "4130":
        return getattr(A, "PQVArea4130V%d" % a["variant"])(vn_kv=a["vn_kv"], raise_merge_overlap=rmo)
    if t == "statcom":
        return A.PQAreaSTATCOM(min_q_pu=a["min_q"], max_q_pu=a["max_q"])
    close = lambda pts: [tuple(p) for p in pts] + [tuple(pts[0])]
    if t == "pq_polygon":
        pts = close(a["pq"])
        return A.PQAreaPOLYGON([p for p, _ in pts], [q for _, q in pts])
    if t == "qv_polygon":
        pts = close(a["qv"])
        return A.QVAreaPOLYGON([q for _, q in pts], [v for v, _ in pts])
    pq, qv = close(a["pq"]), close(a["qv"])
    return A.PQVAreaPOLYGON([p for p, _ in pq], [q for _, q in pq], [q for _, q in qv], [v for v, _ in qv],
                            raise_merge_overlap=rmo)


def build_qmodel(m):
    from pandapower.control.controller.DERController import QModels as Q
    t = m["t"]
    if t == "none":
        return None
    if t == "constq":
        return Q.QModelConstQ(m["q_pu"])
    if t == "cosphip":
        return Q.QModelCosphiP(m["cosphi"])
    if t == "cosphipq":
        return Q.QModelCosphiPQ(m["cosphi"])
    if t == "cosphipcurve":
        return Q.QModelCosphiPCurve({"p_points_pu": m["p_points_pu"], "cosphi_points": m["cosphi_points"]})
    if t == "qvcurve":
        return Q.QModelQVCurve({"vm_points_pu": m["vm_points_pu"], "q_points_pu": m["q_points_pu"]})
    return Q.QModelCosphiVCurve({"vm_points_pu": m["vm_points_pu"], "cosphi_points": m["cosphi_points"]})


def ref_target_q(m, p_pu, q_now_pu):
    """unsaturated Q target (p.u.) for the simple models, None if not transcribed"""
    t = m["t"]
    if t == "none":
        return q_now_pu
    if t == "constq":
        return m["q_pu"]
    if t in ("cosphip", "cosphipq"):
        c = m["cosphi"]
        s = math.copysign(math.sqrt(max(0.0, 1 - c * c)), c)
        return p_pu * s if t == "cosphip" else p_pu / abs(c) * s
    return None


def exc_signature(a, vm, e, p_pu=()):
    """root-cause class of an exception in a control step, from facts about the input"""
    if a["t"] == "4110" and any(abs(p - 0.05) <= 1e-12 for p in p_pu):
        # the line p = 0.05 runs along three collinear vertical edges of the PQ polygon of VDE-AR-N 4110
        return "control-step-exc/4110-p-exactly-0.05/" + type(e).__name__
    if "qv" in a:
        for v in vm:
            sec = vline_section(a["qv"], v)
            if sec is not None and abs(sec[1] - sec[0]) <= 1e-12 and any(v == x for x, _ in a["qv"]):
                # the voltage line touches the QV polygon in a single vertex
                return "control-step-exc/qv-polygon-touched-in-one-vertex/" + type(e).__name__
    return "control-step-exc/%s/%s" % (a["t"], exc_sig(e))


def check(case):
    import numpy as np
    import pandas as pd
    import pandapower as pp
    from pandapower.control.controller.DERController.der_control import DERController
    res = Result()
    a, n = case["area"], case["n"]
    res.label("area:" + a["t"], "qmodel:" + case["qmodel"]["t"], "mode:" + case["mode"], "damping:%d" % case["damping"],
              "q_prio" if case["q_prio"] else "p_prio", "elements:%d" % n)
    sat = case["sat"]
    sat_list = [None] * n if sat is None else ([sat] * n if not isinstance(sat, list) else sat)
    res.label("sat:" + ("none" if sat is None else ("list" if isinstance(sat, list) else "scalar")))
    net = base_net(n, case, full=case["mode"] == "run_control")
    sn = [s["sn_mva"] for s in case["sgen"]]
    try:
        with silence():
            area = build_area(a)
    except Exception as e:
        res.fail("area-constructor-exc/%s%s/%s" % (a["t"], ("V%d" % a["variant"]) if "variant" in a else "", exc_sig(e)),
                 msg=str(e)[:200])
        return res
    kw = {}
    if sat is not None:
        kw["saturate_sn_mva"] = [float("nan") if v is None else v for v in sat] if isinstance(sat, list) else sat
    try:
        with silence():
            ctrl = DERController(net, list(range(n)), q_model=build_qmodel(case["qmodel"]), pqv_area=area,
                                 q_prio=case["q_prio"], damping_coef=case["damping"], **kw)
    except Exception as e:
        res.fail("controller-constructor-exc/" + exc_sig(e), msg=str(e)[:200])
        return res

    area_only = a["t"] != "none"
    binding = [False]

    def inside(k, p_pu, q_pu, v, tol_pu):
        """reference membership of one element: True / False / None (not judged); records why"""
        if sat_list[k] is not None:
            lim = sat_list[k] / sn[k]
            s2 = p_pu * p_pu + q_pu * q_pu
            if abs(math.sqrt(s2) - lim) <= 1e-9:
                binding[0] = True
            return math.sqrt(s2) <= lim * (1 + TOL) + tol_pu, ("s", lim)
        if not area_only:
            return None, "no-limit"
        fl = ref_flex(a, p_pu, v)
        if isinstance(fl, str):
            res.label("unjudged:" + fl)
            return None, fl
        if abs(q_pu - fl[0]) <= 1e-9 or abs(q_pu - fl[1]) <= 1e-9:
            binding[0] = True
        return fl[0] - TOL - tol_pu <= q_pu <= fl[1] + TOL + tol_pu, ("q", fl)

    def judge(vm, tol_mva, step_no, judged_mask):
        out_target = False
        for k in range(n):
            p, qv = float(net.sgen.p_mw.at[k]), float(net.sgen.q_mvar.at[k])
            if math.isnan(p) or math.isnan(qv):
                res.fail("nan-setpoint", element=k, p=p, q=qv, step=step_no)
                continue
            if not judged_mask[k]:
                continue
            ok, why = inside(k, p / sn[k], qv / sn[k], vm[k], tol_mva / sn[k])
            if ok is None or ok:
                continue
            if why[0] == "s":
                res.fail("s-limit-exceeded/%s" % ("q_prio" if case["q_prio"] else "p_prio"), element=k, p_pu=p / sn[k],
                         q_pu=qv / sn[k], limit_pu=why[1], step=step_no, area=a["t"])
            else:
                at_bp = any(abs(vm[k] - b) <= 2e-9 for b in breakpoints(a))
                res.fail("q-outside-area/%s%s" % (a["t"], "/at-voltage-breakpoint" if at_bp else
                                                 (("V%d" % a["variant"]) if "variant" in a else "")),
                         element=k, p_pu=p / sn[k], q_pu=qv / sn[k], vm_pu=vm[k], flexibility=list(why[1]), step=step_no)
        return out_target

    if case["mode"] == "run_control":
        if case["damping"] != 1:
            res.label("damped")
        try:
            with silence():
                pp.runpp(net, run_control=True, max_iter=60)
        except pp.LoadflowNotConverged:
            res.skipped = "pf-not-converged"
            return res
        except ValueError as e:
            if "q flexibility" in str(e) or "max_q > min_q" in str(e):
                res.skipped = "rejected:pq-qv-disjoint"
                return res
            res.fail("run_control-exc/" + exc_sig(e), msg=str(e)[:200])
            return res
        except Exception as e:
            if type(e).__name__ == "ControllerNotConverged":
                res.skipped = "controller-not-converged"
                return res
            pl = [float(net.sgen.p_mw.at[k]) / sn[k] for k in range(n)]
            sig = exc_signature(a, [float(v) for v in net.res_bus.vm_pu.values[1:n + 1]] if len(net.res_bus) else [], e, pl)
            res.fail(sig if "4110-p-exactly" in sig or "one-vertex" in sig else "run_control-exc/" + exc_sig(e), msg=str(e)[:200])
            return res
        vm = [float(net.res_bus.vm_pu.at[k + 1]) for k in range(n)]
        # the loop stops when |damped target - value| <= max_error + 1e-5*|value| (np.allclose): a damped run that started
        # outside (and an area evaluated at the voltage of the last power flow) is only that close to the limit
        big = max(max(abs(float(net.sgen.p_mw.at[k])), abs(float(net.sgen.q_mvar.at[k]))) for k in range(n))
        conv_tol = 1.5 * case["damping"] * (1e-6 + 1e-5 * big)
        judge(vm, conv_tol if (case["damping"] != 1 or area_only) else 0.0, 0, [True] * n)
        res.nontrivial = binding[0]
        return res

    # ---- direct driving: one voltage vector per step
    bps = breakpoints(a)
    judged = [True] * n
    first_vm = None
    for step_no, vs in enumerate(case["steps"]):
        vm = []
        for spec in vs:
            if spec[0] == "bp":
                vm.append(bps[spec[1] % len(bps)] * (1.0 + spec[2]))
                res.label("vm-at-breakpoint")
            else:
                vm.append(spec[1])
        if case["damping"] != 1:
            if first_vm is None:
                first_vm = vm
            vm = first_vm                    # constant voltage for damped runs
        if step_no == 0:
            for k, s in enumerate(case["sgen"]):
                ok, why = inside(k, s["p_pu"], s["q_pu"], vm[k], 0.0)
                tq = ref_target_q(case["qmodel"], s["p_pu"], s["q_pu"])
                if tq is not None:
                    ok_t, _ = inside(k, s["p_pu"], tq, vm[k], 0.0)
                    if ok_t is False:
                        binding[0] = True
                        res.label("target-outside-limit")
                if case["damping"] != 1 and ok is False:
                    judged[k] = False
                    res.label("unjudged:damped-from-outside")
            binding_start = binding[0]
            binding[0] = binding_start and any(judged)
        vals = [1.0] + vm + [1.0] * (len(net.bus) - 1 - n)
        net["res_bus"] = pd.DataFrame({"vm_pu": vals, "va_degree": 0.0, "p_mw": 0.0, "q_mvar": 0.0}, index=net.bus.index.copy())
        try:
            with silence():
                if ctrl.is_converged(net):
                    res.label("converged-before-step")
                ctrl.control_step(net)
        except ValueError as e:
            if "q flexibility" in str(e) or "max_q > min_q" in str(e):
                res.label("rejected:pq-qv-disjoint")
                expected = any(ref_flex(a, float(net.sgen.p_mw.at[k]) / sn[k], vm[k]) == "pq-qv-disjoint" for k in range(n)) \
                    if area_only else False
                if not expected:
                    res.fail("unexpected-disjoint-rejection/%s" % a["t"], msg=str(e)[:200], vm=vm,
                             p_pu=[float(net.sgen.p_mw.at[k]) / sn[k] for k in range(n)])
                if step_no == 0:
                    res.skipped = "rejected:pq-qv-disjoint"
                break
            res.fail(exc_signature(a, vm, e, [float(net.sgen.p_mw.at[k]) / sn[k] for k in range(n)]), msg=str(e)[:200], vm=vm)
            break
        except Exception as e:
            res.fail(exc_signature(a, vm, e, [float(net.sgen.p_mw.at[k]) / sn[k] for k in range(n)]), msg=str(e)[:200], vm=vm)
            break
        judge(vm, 0.0, step_no, judged)
    res.nontrivial = binding[0] and any(judged) and not res.skipped
    return res
