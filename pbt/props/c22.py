"""C22 - Network edits never leave dangling references (DESIGN.md sec. 2, C22): histories of creations and toolbox
edits, referential integrity checked after every step by a schema-driven checker (pbt/c22_integrity.py)."""
import traceback

from hypothesis import strategies as st

from pbt import netgen
from pbt import c22_integrity as integ
from pbt import c22_ops as ops
from pbt.core import Result, silence, exc_sig

ID = "C22"
LEVEL = "exploration"
EXAMPLES = {"quick": 480, "thorough": 12000}
SHRINK_S = {"quick": 20, "thorough": 90}
DEADLINE_S = {"quick": 240, "thorough": 3000}
TECHNIQUE = "property-based testing: generated operation histories + invariant (referential integrity) oracle"
RULE = ("case = network recipe (netgen, 1-3 voltage levels, trafo3w favoured) + extras (switches of the kinds b/l/t/t3, "
        "measurements on buses, branches (side as name or bus index) and bus elements, poly/pwl costs, groups by index "
        "and by reference column 'name', ConstControl on load/sgen/gen/storage, Discrete/ContinuousTapControl on "
        "trafo/trafo3w, tap/shunt characteristic tables (+ spline objects), optional svc/ssc/tcsc, result tables from "
        "runpp/rundcpp) + a list of 1-7 JSON operations (create_*, drop_*, fuse_buses, select_subnet, merge_nets with a "
        "second generated net, reindex_buses, reindex_elements on every table, create_continuous_*_index, replace_*, "
        "merge_parallel_line, set_isolated_areas_out_of_service, ...) whose integer selectors are resolved against the "
        "current tables. Oracle after every operation: own schema-driven checker - every bus column in net.bus.index, "
        "switch.element in the table named by et, measurement (element_type, element, side), cost (et, element), group "
        "members (by index or reference value), controller element_index and characteristic ids point to existing "
        "rows, res_<x>.index is a subset of <x>.index, indices unique. New violations are attributed to the operation "
        "that introduced them (signature '<operation family>/<reference kind>', reduced by signature() to one per root cause: "
        "functions sharing their clean-up code share the family); afterwards the harness removes the "
        "dangling rows itself and the history goes on. Exceptions raised by an explicit raise/assert of pandapower are "
        "legal no-ops, any other exception is a failure '<family>/exception:<type>@<frame>' if it leaves dangling references "
        "behind (a crash that leaves the net consistent is only counted as label crash-without-damage:*). "
        "Non-trivial = at least one edit operation (not a creation) executed on rows that were referenced from another "
        "table (switch, measurement, cost, group, controller, result or bus column); distinct by case hash.")
ASSUMPTIONS = ["the initial enriched network is checked to be free of violations before the history starts",
               "drop_buses/fuse_buses are only called in the variants that promise to clean up (drop_elements=True, "
               "fuse_bus_measurements=True); reindex lookups are valid re-labellings (no collision with untouched rows)",
               "documented rejection = exception whose innermost frame is an explicit raise/assert statement inside pandapower",
               "after a violation the harness repairs the net (drops the dangling rows) so that later steps are judged on their own"]

_THREE = [s for s in netgen.LEVEL_SETS if len(s) == 3]
PROFILE = netgen.profile(level_sets=netgen.LEVEL_SETS + _THREE * 8, nb_level=(1, 4), nb_max=9, max_per_bus=2,
                         dcline=True, oos=0.08, open_prob=0.3, noslack_island=True, custom_index=True,
                         bus_kinds={"load": 5, "sgen": 3, "gen": 2, "storage": 1, "shunt": 2, "ward": 1, "xward": 1,
                                    "motor": 1, "asymmetric_load": 1, "asymmetric_sgen": 1},
                         shifts=(0.0, 0.0, 30.0, 150.0), extra_branches=(0, 2))
PROFILE2 = netgen.profile(level_sets=[[20.0], [110.0, 20.0], [20.0, 0.4], [110.0, 20.0, 0.4]], nb_level=(1, 2),
                          nb_max=5, max_per_bus=2, dcline=False, oos=0.0, noslack_island=False, custom_index=False,
                          extra_branches=(0, 1), shifts=(0.0,))

K = st.integers(0, 11)
KS = st.lists(K, min_size=1, max_size=3)
B = st.booleans()


def _w(d):
    return st.sampled_from([k for k, w in d.items() for _ in range(w)])


# ---------------------------------------------------------------------------------------------------------------
# strategies

@st.composite
def _extras(draw, small=False):
    n = 1 if small else 2
    ex = {}
    ex["switches"] = draw(st.lists(st.fixed_dictionaries(
        {"et": _w({"b": 1, "l": 2, "t": 2, "t3": 3}), "k": K, "side": st.integers(0, 5), "closed": B}),
        min_size=n, max_size=3 * n))
    ex["meas"] = draw(st.lists(st.fixed_dictionaries(
        {"mt": st.sampled_from(["p", "q", "i", "v"]),
         "et": _w({"bus": 3, "line": 3, "trafo": 2, "trafo3w": 2, "load": 1, "sgen": 1, "gen": 1, "ext_grid": 1,
                   "shunt": 1, "ward": 1, "xward": 1}),
         "k": K, "side": st.integers(0, 2), "side_as_bus": st.sampled_from([False, False, True])}),
        min_size=n, max_size=3 * n))
    ex["costs"] = draw(st.lists(st.fixed_dictionaries(
        {"et": _w({"gen": 3, "sgen": 3, "ext_grid": 2, "load": 3, "storage": 1, "dcline": 1}), "k": K, "pwl": B}),
        min_size=1, max_size=2 * n))
    member = st.fixed_dictionaries({"et": _w({"bus": 3, "line": 3, "trafo": 2, "trafo3w": 2, "load": 3, "sgen": 2,
                                              "gen": 1, "switch": 2, "impedance": 1, "ward": 1, "xward": 1,
                                              "ext_grid": 1, "shunt": 1}), "ks": KS})
    ex["groups"] = draw(st.lists(st.fixed_dictionaries(
        {"ref": st.sampled_from([None, None, "name"]), "members": st.lists(member, min_size=1, max_size=3)}),
        min_size=0 if small else 1, max_size=2))
    const = st.fixed_dictionaries({"kind": st.just("const"), "et": _w({"load": 3, "sgen": 3, "gen": 1, "storage": 1}),
                                   "ks": KS, "single": st.sampled_from([False, False, True]),
                                   "var": st.sampled_from(["p_mw", "scaling"])})
    tap = st.fixed_dictionaries({"kind": st.sampled_from(["dtap", "ctap"]), "table": st.sampled_from(["trafo", "trafo3w"]),
                                 "k": K})
    ex["ctrl"] = draw(st.lists(st.one_of(const, tap), min_size=0 if small else 1, max_size=3))
    if draw(B):
        ex["tap_table"] = draw(KS)
    if draw(B):
        ex["tap_table3"] = draw(KS)
    if draw(st.integers(0, 2)) == 0:
        ex["shunt_table"] = draw(KS)
    if draw(st.integers(0, 2)) == 0:
        ex["spline"] = True
    if draw(st.integers(0, 4)) == 0:
        ex["facts"] = draw(st.lists(st.fixed_dictionaries({"t": st.sampled_from(ops.FACTS), "a": K, "b": K}),
                                    min_size=1, max_size=2))
    if not small and draw(st.integers(0, 2)) > 0:
        ex["add_t3"] = {"a": draw(K), "b": draw(K), "c": draw(K)}      # a trafo3w if the recipe has none
    ex["run"] = draw(_w({"pp": 8, "dc": 1, "none": 1}))
    if ex["run"] == "none":
        ex["run"] = None
    if small:
        ex["char_id0"] = draw(st.sampled_from([0, 0, 5]))
    return ex


def _op(name, **fields):
    d = {"op": st.just(name)}
    d.update(fields)
    return st.fixed_dictionaries(d)


MODE = st.sampled_from(["offset", "reverse", "sub", "swap"])
OFF = st.sampled_from([1, 2, 7, 100])
ANY_ET = _w({"line": 4, "trafo": 4, "trafo3w": 12, "load": 3, "sgen": 3, "gen": 2, "ext_grid": 1, "storage": 1,
             "shunt": 1, "ward": 1, "xward": 1, "motor": 1, "impedance": 2, "dcline": 1, "switch": 2, "measurement": 1,
             "poly_cost": 1, "pwl_cost": 1, "bus": 2, "group": 1, "svc": 1, "ssc": 1, "tcsc": 1, "asymmetric_load": 1,
             "asymmetric_sgen": 1})
DROP_ET = _w({"line": 2, "trafo": 2, "trafo3w": 3, "load": 4, "sgen": 4, "gen": 3, "ext_grid": 1, "storage": 2,
              "shunt": 1, "ward": 1, "xward": 1, "motor": 1, "impedance": 2, "dcline": 2, "switch": 2, "measurement": 1,
              "bus": 2, "svc": 1, "tcsc": 1})
SIMPLE_ET = _w({"load": 4, "sgen": 4, "gen": 3, "ext_grid": 1, "storage": 2, "shunt": 1, "ward": 1, "xward": 1,
                "motor": 1, "impedance": 2, "dcline": 2, "switch": 2, "measurement": 1})
TOWARD = st.sampled_from([None, None, None, "controller", "controller", "cost", "measurement", "t3", "t3", "t3"])
OOS = st.dictionaries(st.sampled_from(["bus", "line", "trafo", "trafo3w", "load", "sgen", "gen", "impedance", "dcline",
                                       "shunt", "ward", "xward", "storage"]), KS, max_size=3)
PQ = st.sampled_from(["load", "sgen", "storage"])

CREATE_OPS = {
    "create_bus": (2, _op("create_bus", k=K)),
    "create_buses": (1, _op("create_buses", k=K, n=st.integers(1, 3))),
    "create_bus_element": (3, _op("create_bus_element", k=K, et=st.sampled_from(
        ["load", "sgen", "gen", "ext_grid", "storage", "shunt", "ward", "xward", "motor"]))),
    "create_loads": (1, _op("create_loads", ks=KS)),
    "create_line": (2, _op("create_line", a=K, b=K, parallel=st.sampled_from([1, 1, 2]))),
    "create_lines": (1, _op("create_lines", a=KS, b=st.lists(K, min_size=3, max_size=3))),
    "create_impedance": (1, _op("create_impedance", a=K, b=K)),
    "create_trafo": (1, _op("create_trafo", a=K, b=K)),
    "create_trafo3w": (2, _op("create_trafo3w", a=K, b=K, c=K)),
    "create_switch": (3, _op("create_switch", et=_w({"b": 1, "l": 2, "t": 2, "t3": 3}), k=K, side=st.integers(0, 5),
                             closed=B)),
    "create_measurement": (2, _op("create_measurement", mt=st.sampled_from(["p", "q", "i", "v"]),
                                  et=st.sampled_from(ops.MEAS_ETS), k=K, side=st.integers(0, 2), side_as_bus=B)),
    "create_cost": (2, _op("create_cost", et=st.sampled_from(ops.COST_ETS), k=K, pwl=B)),
    "create_ctrl": (1, _op("create_ctrl", kind=st.just("const"), et=st.sampled_from(["load", "sgen"]), ks=KS,
                           single=B, var=st.just("p_mw"))),
    "runpp": (3, _op("runpp", mode=st.sampled_from(["pp", "pp", "dc"]))),
}
EDIT_OPS = {
    "reindex_elements": (12, _op("reindex_elements", et=ANY_ET, mode=MODE, ks=KS, off=OFF, toward=TOWARD,
                                 via=st.sampled_from(["lookup", "new"]))),
    "drop_buses": (5, _op("drop_buses", ks=KS, via_drop_elements=st.sampled_from([False, False, True]))),
    "drop_lines": (3, _op("drop_lines", ks=KS)),
    "drop_trafos": (4, _op("drop_trafos", ks=KS, table=st.sampled_from(["trafo", "trafo3w"]))),
    "drop_elements": (6, _op("drop_elements", et=DROP_ET, ks=KS, toward=TOWARD)),
    "drop_elements_simple": (3, _op("drop_elements_simple", et=SIMPLE_ET, ks=KS)),
    "drop_elements_at_buses": (3, _op("drop_elements_at_buses", ks=KS, bus_elements=st.sampled_from([True, True, False]),
                                      branch_elements=st.sampled_from([True, True, False]),
                                      drop_measurements=st.sampled_from([True, True, False]))),
    "drop_switches_at_buses": (1, _op("drop_switches_at_buses", ks=KS)),
    "drop_references": (1, st.one_of(
        _op("drop_measurements_at_elements", et=st.sampled_from(["bus", "line", "trafo", "trafo3w", "load", "sgen"]),
            ks=KS, all=B),
        _op("drop_controllers_at_elements", et=st.sampled_from(["load", "sgen", "trafo", "trafo3w", "gen"]), ks=KS, all=B),
        _op("drop_controllers_at_buses", ks=KS))),
    "drop_inner_branches": (2, _op("drop_inner_branches", ks=st.lists(K, min_size=2, max_size=5),
                                   branch_elements=st.sampled_from([None, None, ["line"], ["line", "switch"],
                                                                    ["trafo", "trafo3w"]]))),
    "drop_out_of_service_elements": (4, _op("drop_out_of_service_elements", oos=OOS)),
    "drop_inactive_elements": (4, _op("drop_inactive_elements", oos=OOS, open=st.lists(K, max_size=2),
                                      respect_switches=st.sampled_from([True, True, False]))),
    "set_isolated_areas_out_of_service": (2, _op("set_isolated_areas_out_of_service", oos=OOS, open=st.lists(K, max_size=2),
                                                 respect_switches=st.sampled_from([True, True, False]))),
    "fuse_buses": (6, _op("fuse_buses", b1=K, b2=KS, drop=st.sampled_from([True, True, True, False]), single=B)),
    "select_subnet": (5, _op("select_subnet", drop=st.lists(K, min_size=1, max_size=4), include_switch_buses=B,
                             include_results=B, keep_everything_else=st.sampled_from([False, False, False, False, False, True]))),
    "merge_nets": (4, _op("merge_nets", merge_results=st.sampled_from([True, True, False]),
                          swap=st.sampled_from([False, False, True]))),
    "reindex_buses": (5, _op("reindex_buses", mode=MODE, ks=KS, off=OFF, via_reindex_elements=st.sampled_from([False, False, True]))),
    "create_continuous_bus_index": (2, _op("create_continuous_bus_index", start=st.sampled_from([0, 0, 1, 50]), store=B)),
    "create_continuous_elements_index": (3, _op("create_continuous_elements_index", start=st.sampled_from([0, 0, 1, 50]))),
    "replace_line_by_impedance": (2, _op("replace_line_by_impedance", ks=KS, all=st.sampled_from([False, False, True]),
                                         only_valid=B)),
    "replace_impedance_by_line": (2, _op("replace_impedance_by_line", ks=KS, all=st.sampled_from([False, False, True]),
                                         only_valid=B)),
    "replace_ext_grid_by_gen": (2, _op("replace_ext_grid_by_gen", ks=KS, all=B, slack=B)),
    "replace_gen_by_ext_grid": (1, _op("replace_gen_by_ext_grid", ks=KS, all=B)),
    "replace_gen_by_sgen": (2, _op("replace_gen_by_sgen", ks=KS, all=B)),
    "replace_sgen_by_gen": (2, _op("replace_sgen_by_gen", ks=KS, all=B)),
    "replace_pq_elmtype": (3, _op("replace_pq_elmtype", old=PQ, new=PQ, ks=KS, all=st.sampled_from([False, False, True]))),
    "replace_ward_by_internal_elements": (1, _op("replace_ward_by_internal_elements", ks=KS, all=B)),
    "replace_xward_by_internal_elements": (1, _op("replace_xward_by_internal_elements", ks=KS, all=B)),
    "replace_xward_by_ward": (1, _op("replace_xward_by_ward", ks=KS, all=st.sampled_from([False, False, True]), drop=B)),
    "replace_zero_branches_with_switches": (2, _op("replace_zero_branches_with_switches", ks=KS, drop_affected=B,
                                                   in_service_only=B)),
    "create_replacement_switch_for_branch": (1, _op("create_replacement_switch_for_branch",
                                                    et=st.sampled_from(["line", "impedance"]), k=K)),
    "merge_parallel_line": (1, _op("merge_parallel_line", k=K)),
    "merge_same_bus_generation_plants": (1, _op("merge_same_bus_generation_plants", add_info=B)),
}


def _one_op():
    names_c = [n for n, (w, _) in CREATE_OPS.items() for _ in range(w)]
    names_e = [n for n, (w, _) in EDIT_OPS.items() for _ in range(w)]
    create = st.sampled_from(names_c).flatmap(lambda n: CREATE_OPS[n][1])
    edit = st.sampled_from(names_e).flatmap(lambda n: EDIT_OPS[n][1])
    return st.one_of(edit, edit, edit, create)


@st.composite
def _case(draw, tier):
    recipe = draw(netgen.grid(PROFILE))
    extras = draw(_extras())
    # explicit length: st.lists alone gives 40 % one-step histories
    lengths = [1, 2, 3, 3, 4, 4, 5, 5, 6, 7] if tier == "quick" else [1, 2, 3, 4, 5, 6, 7, 8, 9, 10]
    n = draw(st.sampled_from(lengths))
    history = draw(st.lists(_one_op(), min_size=n, max_size=n))
    case = {"recipe": recipe, "extras": extras, "ops": history}
    if any(o["op"] == "merge_nets" for o in history):
        case["recipe2"] = draw(netgen.grid(PROFILE2))
        case["extras2"] = draw(_extras(small=True))
    return case


def strategy(tier):
    return _case(tier)


# ---------------------------------------------------------------------------------------------------------------
# classification

def _cls(et):
    return ops._cls(et)


def classify(kind, info):
    """reference kind of a violation, coarse enough that one root cause gives one signature"""
    target = info.get("target")
    head, _, tail = kind.partition(":")
    if head == "res_index":
        base = tail[4:]
        for s in integ.RES_SUFFIXES:
            if base.endswith(s):
                base = base[:-len(s)]
        if base == target or target == "*" and base != "switch":
            return "res_index:own"
        return "res_index:res_" + _cls(base)
    if head == "dup_index":
        t = tail[4:] if tail.startswith("res_") else tail
        return "dup_index:" + ("res_" if tail.startswith("res_") else "") + _cls(t)
    if head in ("poly_cost.element", "pwl_cost.element"):
        return "cost.element:" + _cls(tail)
    if head == "controller.element_index":
        return "controller.element_index"
    if head in ("group.member", "measurement.element"):
        return head + ":" + _cls(tail)
    if head == "switch.element":
        return kind
    t, _, col = kind.partition(".")
    if col in integ.BUS_COLS:
        return "bus_ref:" + _cls(t)
    return kind


DROP_FAMILIES = ("drop_buses", "drop_elements_at_buses", "drop_branches", "drop_elements", "drop_out_of_service",
                 "fuse_buses", "replace_branch")
REPLACE_FAMILIES = ("replace_gen_like", "replace_pq_elmtype", "replace_ward_like")


def signature(fam, kind):
    """'<operation family>/<reference kind>' reduced to one signature per root cause: functions that share their
    clean-up code (drop_lines/drop_trafos/drop_switches_at_buses/_inner_branches/drop_elements_simple are the leaves
    of every drop_* function, of fuse_buses and of replace_line_by_impedance) share the family."""
    if kind == "bus_ref:facts":
        return "bus_edits/bus_ref:facts"            # element_bus_tuples() does not know svc / ssc / tcsc
    if fam == "merge_same_bus_generation_plants":
        return fam + "/references-to-merged-plants"
    if fam == "select_subnet:keep_everything_else":
        return fam + ("/res_index:res_switch" if kind == "res_index:res_switch" else "/kept-tables")
    if fam in DROP_FAMILIES:
        if kind in ("res_index:res_switch", "group.member:switch"):
            return "drop/" + kind
        if kind == "controller.element_index":
            # drop_elements_at_buses keeps the controllers of the bus elements it drops (get_equivalent relies on it)
            return (fam if fam in ("drop_buses", "drop_elements_at_buses") else "drop_elements") + "/" + kind
        if kind.startswith("cost.element"):
            return "drop_elements/cost.element"
        if kind == "measurement.element:bus_element":
            return "drop_elements/" + kind
        if kind in ("res_index:res_other_branch", "group.member:other_branch"):
            return "drop_inner_branches/res_index:res_other_branch"   # one generic net[elm].drop() without clean-up
    if fam in REPLACE_FAMILIES:
        fam = "replace"
        if kind.startswith("exception:") and ":replace_" in kind:
            kind = kind.rsplit(":", 1)[0] + ":replace_*"
    if fam == "create_continuous_elements_index":
        if kind in ("switch.element:t3", "controller.element_index", "measurement.element:bus_element"):
            fam = "reindex_elements"               # inherited from reindex_elements
        elif kind.startswith("res_index"):
            kind = "res_index"                      # res_switch / res_asymmetric_* are not in its table list
    return "%s/%s" % (fam, kind)


def _documented_rejection(e):
    """an exception raised by an explicit `raise`/`assert` statement in pandapower code is the API's way of rejecting
    the call (UserWarning, ValueError, NotImplementedError, ...)"""
    tb = traceback.extract_tb(e.__traceback__)
    if not tb:
        return False
    last = tb[-1]
    if "/pandapower/" not in last.filename:
        return False
    line = (last.line or "").strip()
    return line.startswith("raise ") or line.startswith("assert ") or line == "raise"


# ---------------------------------------------------------------------------------------------------------------
# check

STAR_TABLES = ("bus", "line", "trafo", "trafo3w", "load", "sgen", "gen", "impedance", "switch")


def check(case):
    import pandapower as pp
    res = Result()
    ctx = ops.Ctx()
    with silence():
        net, maps = netgen.build(case["recipe"])
        for l in ops.enrich(net, case["extras"], ctx, pp):
            res.label(l)
    first = integ.violations(net)
    if first:
        raise RuntimeError("generator produced an inconsistent net: %r" % first[:3])
    _describe(net, res)

    def net2():
        if "recipe2" not in case:
            return None
        with silence():
            n2, _ = netgen.build(case["recipe2"])
            ops.enrich(n2, case["extras2"], ctx, pp)
        if integ.violations(n2):
            raise RuntimeError("generator produced an inconsistent second net")
        return n2

    def pre(n, info):
        t = info.get("target")
        if t == "*":
            refs = set()
            for tt in STAR_TABLES:
                refs |= integ.incoming_refs(n, tt)
        elif t is not None and t in n:
            refs = integ.incoming_refs(n, t, info.get("rows"))
        else:
            refs = set()
        info["refs"] = sorted(refs)

    aux = {"net2": net2, "pre": pre}
    nontrivial = False
    for step, op in enumerate(case["ops"]):
        name = op["op"]
        info = {"family": name}
        aux["last_info"] = None
        status = "ok"
        err = None
        try:
            with silence():
                net, info = ops.apply_op(net, op, ctx, pp, aux)
        except ops.NoOp:
            status = "noop"
        except Exception as e:      # noqa: BLE001 - classified below
            if isinstance(e, pp.LoadflowNotConverged) or _documented_rejection(e):
                status = "rejected"
                rej = e
            else:
                status = "exception"
                err = e
        if status == "noop":
            res.label("noop")
            continue
        info = aux.get("last_info") or info
        fam = info.get("family", name)
        if status == "rejected":
            res.label("rejected:%s:%s" % (name, type(rej).__name__))
        vs = integ.violations(net)
        if status == "exception":
            # a crash is a C22 failure only if it leaves the net half-edited (dangling references); a crash that leaves
            # the net consistent is counted in the labels (reported as a side finding, not as a violation)
            if vs:
                res.fail(signature(fam, "exception:" + exc_sig(err)), step=step, op=op, error=repr(err)[:300],
                         left_behind=sorted({classify(v["kind"], info) for v in vs}), violation=vs[0])
            else:
                res.label("crash-without-damage:%s" % exc_sig(err))
        elif vs:
            seen = set()
            for v in vs:
                sig = signature(fam, classify(v["kind"], info))
                if sig in seen:
                    continue
                seen.add(sig)
                res.fail(sig, step=step, op=op, violation=v, refs_before=info.get("refs"))
        if vs and not integ.repair(net):
            res.label("unrepairable")
            break
        if status == "ok":
            res.label("op:" + name)
            if info.get("edit"):
                refs = info.get("refs") or []
                for r in refs:
                    res.label("%s<-%s" % (_short(fam), r.split(":")[0] if not r.startswith("switch:") else r))
                if refs:
                    nontrivial = True
    res.nontrivial = nontrivial
    if res.failures:
        res.label("violating-history")
    return res


def _short(fam):
    return fam.split(":")[0]


def _describe(net, res):
    """labels for the shapes the property names"""
    for et in sorted(set(net.switch.et.values.tolist())):
        res.label("switch:" + et)
    if len(net.measurement):
        for et in sorted(set(net.measurement.element_type.values.tolist())):
            res.label("meas:" + (et if et in ("bus", "line", "trafo", "trafo3w") else "bus_element"))
        import pandas as pd
        if pd.to_numeric(net.measurement.side, errors="coerce").notna().any():
            res.label("meas:side-as-bus")
    if len(net.poly_cost):
        res.label("poly_cost")
    if len(net.pwl_cost):
        res.label("pwl_cost")
    if len(net.group):
        res.label("group:by-reference" if net.group.reference_column.notna().any() else "group:by-index")
    if len(net.controller):
        for obj in net.controller["object"].values:
            res.label("ctrl:" + type(obj).__name__)
    if "trafo_characteristic_table" in net:
        res.label("tap-table")
    if "trafo_characteristic_spline" in net:
        res.label("tap-spline")
    if "shunt_characteristic_table" in net:
        res.label("shunt-table")
    if len(net.trafo3w):
        res.label("has-trafo3w")
    for t in ops.FACTS:
        if len(net[t]):
            res.label("facts")
    if len(net.res_bus):
        res.label("has-results")
