"""C20 - Saving and loading a network loses nothing (DESIGN.md sec. 2, C20)."""
import copy
import io
import math
import os
import shutil
import tempfile

from hypothesis import strategies as st

from pbt import netgen, oracles
from pbt import c20_compare as cc
from pbt.core import Result, pf_tol, silence, exc_sig

ID = "C20"
LEVEL = "exploration"
EXAMPLES = {"quick": 400, "thorough": 8000}
DEADLINE_S = {"quick": 240, "thorough": 3000}
SHRINK_S = {"quick": 25, "thorough": 90}
RULE = ("Hypothesis draws a network recipe (netgen.grid, <=9 buses, optional non-contiguous / unsorted element indices), "
        "a list of 1-9 'decorations' (awkward / unicode / numeric-looking / empty names, NaN / +-inf / 1e308 / tiny / "
        "17-digit floats in columns where they are valid, custom columns of dtype bool/int/float/Int64/boolean/string/"
        "category/object(str, list, dict)/datetime64, geodata, user std types, ConstControl+DFData, tap controllers, "
        "TapDependentImpedance+characteristics, groups, measurements, poly/pwl costs, user_pf_options, an extra "
        "user table), whether result tables are present, and one of 9 save/load paths (to_json string/file/file object "
        "with and without encryption_key, to_pickle file/file object, to_excel, to_sqlite). Oracle: own recursive "
        "comparator (pbt/c20_compare.py) original vs loaded: same public keys, per table same index (values, dtype, "
        "name), same columns (order, dtype), equal cells (JSON floats within 1e-14*max(1,|a|), pickle exact, NaN==NaN), "
        "std_types / controller and characteristic object attributes / groups / options equal, and runpp on loaded "
        "vs original identical within 1e-9; Excel/SQLite: every non-empty table keeps every row and every column "
        "with >=1 non-null value, equal values, dtype ignored. "
        "Non-trivial = the save/load path ran and >= 1 decoration was really applied; distinct by case hash.")
ASSUMPTIONS = [
    "JSON float bound 1e-14*max(1,|a|) (pandas double_precision=15 = decimal places); pickle exact; Excel 1e-15 relative",
    "None / NaN / pd.NA / NaT are one null value inside one column; rows may come back in ascending index order (documented)",
    "no tuples inside DataFrame cells (documented xfail test_json_tuple_in_pandas), dict cells have str keys, no subnormals",
    "Excel/SQLite: only scalar custom columns (bool/int/float/str/Int64/string), text without control characters for Excel, "
    "'' == null for Excel (an empty cell), std_types compared by value only",
    "PostgreSQL path not reachable offline",
    "runpp comparison tolerance 1e-9 (absolute and relative), angles 1e-9 degree",
]
TECHNIQUE = "property-based testing: generated decorated networks + round-trip oracle with an own recursive comparator"

PROFILE = netgen.profile(nb_level=(1, 4), nb_max=9, max_per_bus=2, extra_branches=(0, 2), oos=0.08, dcline=True,
                         noslack_island=False, custom_index=True,
                         shifts=(0.0, 0.0, 30.0, 150.0), sn_choices=(1.0, 1.0, 10.0, 100.0))

FORMATS = {"json_str": 4, "json_str_enc": 2, "json_file": 3, "json_file_enc": 1, "json_fobj": 1,
           "pickle_file": 3, "pickle_fobj": 1, "excel": 3, "sqlite": 3}

AWKWARD = ["", " ", "123", "007", "1e5", "-0", "1.0", "0x1F", "1_000", "nan", "NaN", "None", "null", "NA", "N/A", "<NA>",
           "true", "False", "inf", "-Infinity", '{"x":1}', "[1,2]", "[]", "{}", "ünïcödé", "名前", "😀", 'a"b', "a'b",
           "a\\b", "a\nb", "a\tb", "a,b;c", "=1+1", " lead", "trail ", "2024-01-01", "12:30", "pv_module_3", "_module",
           "_object", "x" * 300, "%s", "{0}", "​", "é", "é", "Ω", "a/b", "<b>&amp;</b>", "NULL", "#N/A", "1,5"]

AWKWARD_NUMERIC = ["123", "007", "1e5", "-0", "1.0", "1_000", "0x1F", "1,5"]
NAME_TABLES = ["bus", "line", "trafo", "trafo3w", "load", "sgen", "gen", "ext_grid", "storage", "shunt", "ward", "xward",
               "impedance", "switch", "motor", "dcline"]

# (table, column) where the documentation allows missing / unbounded values (limits of the OPF, optional ratings)
LIMIT_CELLS = [("gen", "max_p_mw"), ("gen", "min_p_mw"), ("gen", "max_q_mvar"), ("gen", "min_q_mvar"),
               ("sgen", "max_p_mw"), ("sgen", "min_p_mw"), ("sgen", "max_q_mvar"), ("sgen", "min_q_mvar"),
               ("load", "max_p_mw"), ("load", "min_p_mw"), ("load", "max_q_mvar"), ("load", "min_q_mvar"),
               ("storage", "max_p_mw"), ("storage", "min_p_mw"), ("ext_grid", "max_p_mw"), ("ext_grid", "min_p_mw"),
               ("ext_grid", "max_q_mvar"), ("ext_grid", "min_q_mvar"), ("bus", "max_vm_pu"), ("bus", "min_vm_pu"),
               ("line", "max_loading_percent"), ("trafo", "max_loading_percent"), ("trafo3w", "max_loading_percent"),
               ("storage", "max_e_mwh"), ("storage", "min_e_mwh"), ("dcline", "max_p_mw"), ("dcline", "max_q_from_mvar")]
DBL_MAX = 1.7976931348623157e308     # "no limit" sentinel (numpy.finfo(float).max)
SPECIALS = ["nan", "inf", "-inf", 1e308, -1e308, DBL_MAX, 1e15, 123456789.123456789]
# electrical parameters for which a tiny positive value is a valid input
TINY_CELLS = [("line", "g_us_per_km"), ("line", "r_ohm_per_km"), ("line", "c_nf_per_km"), ("trafo", "pfe_kw"),
              ("impedance", "rft_pu"), ("impedance", "rtf_pu"), ("load", "p_mw"), ("load", "q_mvar"), ("sgen", "p_mw"),
              ("shunt", "p_mw"), ("ward", "pz_mw"), ("xward", "r_ohm"), ("trafo", "vkr_percent"), ("line", "length_km")]
TINIES = [1e-9, 1e-12, 1e-15, 1e-16, 1e-18, 3.3e-17, 1e-30, 1e-300, 1.2345678901234567e-10]
# parameters that take any finite value of ordinary size: 17 significant digits must survive
DIGIT_CELLS = [("load", "p_mw"), ("load", "q_mvar"), ("sgen", "p_mw"), ("sgen", "q_mvar"), ("line", "length_km"),
               ("line", "x_ohm_per_km"), ("gen", "vm_pu"), ("ext_grid", "vm_pu"), ("trafo", "vk_percent"),
               ("shunt", "q_mvar"), ("storage", "p_mw"), ("bus", "vn_kv")]

COLNAMES = ["my_col", "Comment", "x", "col with space", "größe", "123", "1.5", "sub_net", "geo2", "profile", "dtype",
            "index_", "level_0", "éé", "a.b", "name2", "in_service2", "Q (Mvar)"]

PF_OPTION_SETS = [
    {"tolerance_mva": 1e-9}, {"max_iteration": 25}, {"calculate_voltage_angles": True}, {"trafo_model": "pi"},
    {"init": "dc"}, {"enforce_q_lims": True}, {"algorithm": "nr", "max_iteration": 30, "tolerance_mva": 1e-10},
    {"numba": False}, {"check_connectivity": True, "voltage_depend_loads": False}, {"trafo_loading": "power"},
    {"switch_rx_ratio": 1.5}, {"init_vm_pu": 1.02, "init_va_degree": 0.0, "init": "auto"},
]


NA_STRINGS = {"", "#N/A", "#N/A N/A", "#NA", "-1.#IND", "-1.#QNAN", "-NaN", "-nan", "1.#IND", "1.#QNAN", "<NA>", "N/A", "NA",
              "NULL", "NaN", "None", "n/a", "nan", "null"}


def _plain(s):
    """text that a spreadsheet cell keeps as text: pandas.read_excel (used by from_excel, documented as lossy) turns
    NA-like strings into NaN, all-numeric-looking columns into numbers, 'true'/'false' into bool and xlsxwriter
    turns '=...' into a formula"""
    if s in NA_STRINGS or s != s.strip() or s.startswith("=") or s.lower() in ("true", "false", "inf", "-inf", "infinity", "-infinity"):
        return False
    try:
        float(s.replace(",", "."))
        return False
    except ValueError:
        pass
    try:
        int(s, 0)
        return False
    except ValueError:
        pass
    return len(s) < 200


def _text(plain):
    if plain:
        alpha = st.characters(exclude_categories=["Cs", "Cc"])
        return st.one_of(st.sampled_from([a for a in AWKWARD if _plain(a) and not any(ord(c) < 32 for c in a)]),
                         st.text(alpha, min_size=1, max_size=10).filter(_plain))
    alpha = st.characters(exclude_categories=["Cs"])
    return st.one_of(st.sampled_from(AWKWARD), st.sampled_from(AWKWARD), st.text(alpha, max_size=10))


def _finite(lo, hi):
    # magnitudes near the smallest normal double are mapped to 0 (no power-system meaning, see DESIGN.md C20: subnormals)
    return st.floats(lo, hi, allow_nan=False, allow_infinity=False, allow_subnormal=False).map(
        lambda x: 0.0 if abs(x) < 1e-300 else x)


@st.composite
def _custom_col(draw, fam):
    scalar_only = fam in ("excel", "sqlite")
    kinds = ["bool", "int", "float", "Int64", "string", "obj_str", "boolean"]
    if not scalar_only and draw(st.integers(0, 9)) < 6:
        kinds = ["category", "list", "dict", "datetime", "mixed"]
    kind = draw(st.sampled_from(kinds))
    n = draw(st.integers(1, 4))
    txt = _text(fam == "excel")
    specials = [v for v in SPECIALS if not (fam == "excel" and v == DBL_MAX)]
    big = 2 ** 53 if fam == "excel" else 2 ** 62      # a spreadsheet number is a double
    if kind == "bool":
        vals = draw(st.lists(st.booleans(), min_size=n, max_size=n))
    elif kind == "int":
        vals = draw(st.lists(st.integers(-big, big) | st.integers(-5, 5), min_size=n, max_size=n))
    elif kind == "float":
        vals = draw(st.lists(st.sampled_from(specials + TINIES) | _finite(-1e6, 1e6), min_size=n, max_size=n))
    elif kind == "Int64":
        vals = draw(st.lists(st.none() | st.integers(-2 ** 53, 2 ** 53) | st.integers(-big, big), min_size=n, max_size=n))
    elif kind == "boolean":
        vals = draw(st.lists(st.none() | st.booleans(), min_size=n, max_size=n))
    elif kind in ("string", "obj_str"):
        vals = draw(st.lists(st.none() | txt, min_size=n, max_size=n))
    elif kind == "category":
        vals = draw(st.lists(txt, min_size=n, max_size=n))
    elif kind == "list":
        leaf = st.integers(-9, 9) | _finite(-1e3, 1e3) | txt | st.booleans() | st.none()
        vals = draw(st.lists(st.none() | st.lists(leaf | st.lists(leaf, max_size=2), max_size=3), min_size=n, max_size=n))
    elif kind == "dict":
        leaf = st.integers(-9, 9) | _finite(-1e3, 1e3) | txt | st.booleans() | st.none()
        key = st.sampled_from(["a", "b", "1", "", "_module", "_class", "_object", "x y", "ä"])
        vals = draw(st.lists(st.none() | st.dictionaries(key, leaf | st.lists(leaf, max_size=2), max_size=3),
                             min_size=n, max_size=n))
    elif kind == "datetime":
        # nanoseconds since the epoch, 1900 .. 2200
        vals = draw(st.lists(st.none() | st.integers(-2208988800, 7258118400).map(lambda s: s * 10 ** 9) |
                             st.integers(0, 2 * 10 ** 18), min_size=n, max_size=n))
    else:  # mixed object column
        vals = draw(st.lists(st.none() | st.integers(-9, 9) | _finite(-1e3, 1e3) | txt | st.booleans(), min_size=n, max_size=n))
    tabs = NAME_TABLES[:8] if not scalar_only else NAME_TABLES[:8]
    return {"op": "col", "tab": draw(st.sampled_from(tabs)), "name": draw(st.sampled_from(COLNAMES)), "kind": kind,
            "vals": vals}


@st.composite
def _deco(draw, fam):
    lossy = fam in ("excel", "sqlite")
    txt = _text(fam == "excel")
    menu = {"name": 6, "netname": 1, "limit": 7, "tiny": 2, "digits": 3, "col": 9, "geo": 3, "std_type": 3,
            "const_ctrl": 3, "tap_ctrl": 3, "tdi": 2, "characteristic": 1, "group": 3, "measurement": 3, "poly_cost": 2,
            "pwl_cost": 2, "pf_options": 2, "table": 1}
    if lossy:
        # known shape: list-valued columns (group.element_index, pwl_cost.points) are not written as JSON text, to_sqlite
        # raises and hides everything else -> kept as a minority
        menu.update(group=1, pwl_cost=1)
    op = draw(netgen.weighted(menu))
    row = st.integers(0, 40)
    if op == "name":
        return {"op": "name", "tab": draw(st.sampled_from(NAME_TABLES)), "row": draw(row), "v": draw(st.sampled_from([None] + AWKWARD_NUMERIC) | txt | txt | txt) if not lossy else draw(st.none() | txt | txt | txt)}
    if op == "netname":
        return {"op": "netname", "v": draw(txt)}
    if op == "limit":
        t, c = draw(st.sampled_from(LIMIT_CELLS))
        return {"op": "cell", "what": "limit", "tab": t, "col": c, "row": draw(row), "v": draw(st.sampled_from([v for v in SPECIALS if not (fam == "excel" and v == DBL_MAX)]))}
    if op == "tiny":
        t, c = draw(st.sampled_from(TINY_CELLS))
        return {"op": "cell", "what": "tiny", "tab": t, "col": c, "row": draw(row), "v": draw(st.sampled_from(TINIES))}
    if op == "digits":
        t, c = draw(st.sampled_from(DIGIT_CELLS))
        # factor applied to the generated (valid) value: keeps the value in its valid range and fills the mantissa
        return {"op": "cell", "what": "digits", "tab": t, "col": c, "row": draw(row), "v": draw(_finite(0.9, 1.1))}
    if op == "col":
        return draw(_custom_col(fam))
    if op == "geo":
        pt = st.tuples(_finite(-180, 180), _finite(-90, 90)).map(list) | \
            st.tuples(st.integers(-10 ** 6, 10 ** 6), st.integers(-10 ** 6, 10 ** 6)).map(list)
        if draw(st.booleans()):
            return {"op": "geo", "tab": "bus", "row": draw(row), "coords": draw(pt)}
        return {"op": "geo", "tab": "line", "row": draw(row), "coords": draw(st.lists(pt, min_size=2, max_size=4))}
    if op == "std_type":
        el = draw(st.sampled_from(["line", "line", "trafo"]))
        if el == "line":
            data = {"r_ohm_per_km": draw(_finite(0.01, 1.0)), "x_ohm_per_km": draw(_finite(0.05, 0.5)),
                    "c_nf_per_km": draw(_finite(0.0, 300.0) | st.integers(0, 300)), "max_i_ka": draw(_finite(0.1, 2.0))}
            if draw(st.booleans()):
                data["type"] = draw(st.sampled_from(["cs", "ol"]))
                data["q_mm2"] = draw(st.integers(10, 600))
            if draw(st.booleans()):
                data["alpha"] = 0.00403
            if draw(st.integers(0, 3)) == 0:
                data["comment"] = draw(txt)      # user keys are allowed in a std type
        else:
            data = {"sn_mva": draw(_finite(0.1, 100.0)), "vn_hv_kv": 20.0, "vn_lv_kv": 0.4,
                    "vk_percent": draw(_finite(4.0, 12.0)), "vkr_percent": draw(_finite(0.1, 1.5)),
                    "pfe_kw": draw(_finite(0.0, 5.0)), "i0_percent": draw(_finite(0.0, 0.5)), "shift_degree": draw(st.sampled_from([0, 150, 30.0])),
                    "vector_group": "Dyn5", "tap_side": "hv", "tap_neutral": 0, "tap_min": -2, "tap_max": 2,
                    "tap_step_percent": 2.5, "tap_step_degree": 0, "tap_changer_type": "Ratio"}
        return {"op": "std_type", "element": el, "name": draw(txt.filter(lambda s: isinstance(s, str))), "data": data,
                "apply": draw(st.none() | row)}
    if op == "const_ctrl":
        ncol = draw(st.integers(1, 3))
        nstep = draw(st.integers(1, 4))
        el, var = draw(st.sampled_from([("load", "p_mw"), ("load", "q_mvar"), ("sgen", "p_mw"), ("gen", "vm_pu"),
                                        ("storage", "p_mw"), ("load", "scaling")]))
        data = [[draw(st.sampled_from([0.0, 1.0, 1 / 3]) | _finite(-5, 5)) for _ in range(ncol)] for _ in range(nstep)]
        return {"op": "const_ctrl", "element": el, "variable": var, "rows": draw(st.lists(row, min_size=ncol, max_size=ncol)),
                "colkind": draw(st.sampled_from(["int", "str", "str"])), "data": data,
                "scale_factor": draw(st.sampled_from([1.0, 1.0, 0.5, 1 / 3])), "recycle": draw(st.sampled_from([True, True, False])),
                "single": draw(st.booleans()), "order": draw(st.sampled_from([-1, 0, 2])), "in_service": draw(st.sampled_from([True, True, False])),
                "step_start": draw(st.sampled_from([0, 0, 5])), "np_index": draw(st.booleans())}
    if op == "tap_ctrl":
        return {"op": "tap_ctrl", "kind": draw(st.sampled_from(["cont", "disc"])), "row": draw(row),
                "vm": draw(netgen.q(0.97, 1.03, 3)), "side": draw(st.sampled_from(["lv", "hv"])),
                "tol": draw(st.sampled_from([1e-3, 1e-4, 0.01])), "level": draw(st.integers(0, 2)),
                "extra": draw(st.none() | txt)}
    if op == "tdi":
        n = draw(st.integers(2, 5))
        xs = sorted(draw(st.lists(st.integers(-9, 9), min_size=n, max_size=n, unique=True)))
        ys = [draw(_finite(4.0, 12.0)) for _ in xs]
        return {"op": "tdi", "row": draw(row), "x": xs, "y": ys, "spline": draw(st.booleans()),
                "kind": draw(st.sampled_from(["interp1d", "interp1d", "pchip"])), "var": draw(st.sampled_from(["vk_percent", "vkr_percent"]))}
    if op == "characteristic":
        n = draw(st.integers(2, 5))
        xs = sorted(draw(st.lists(_finite(-10, 10), min_size=n, max_size=n, unique=True)))
        return {"op": "characteristic", "x": xs, "y": [draw(_finite(-10, 10)) for _ in xs], "spline": draw(st.booleans())}
    if op == "group":
        ets = draw(st.lists(st.sampled_from(["bus", "line", "load", "sgen", "trafo", "gen", "switch"]), min_size=1, max_size=3, unique=True))
        return {"op": "group", "name": draw(txt), "ets": ets, "rows": [draw(st.lists(row, min_size=1, max_size=3)) for _ in ets],
                "refcol": draw(st.sampled_from([None, None, "name"])), "index": draw(st.none() | st.integers(0, 50))}
    if op == "measurement":
        return {"op": "measurement", "mt": draw(st.sampled_from(["v", "p", "q", "i"])), "et": draw(st.sampled_from(["bus", "line", "trafo"])),
                "row": draw(row), "value": draw(_finite(-50, 50)), "std": draw(st.sampled_from([0.01, 1e-3, 1 / 3])),
                "side": draw(st.integers(0, 1)), "name": draw(st.none() | txt)}
    if op == "poly_cost":
        return {"op": "poly_cost", "et": draw(st.sampled_from(["gen", "ext_grid", "sgen", "load", "storage", "dcline"])), "row": draw(row),
                "cp1": draw(_finite(-100, 100)), "cp0": draw(st.sampled_from([0, 0.0, 1.5])), "cp2": draw(st.sampled_from([0, 0.01, 1 / 3])),
                "cq1": draw(st.sampled_from([0, 0.5]))}
    if op == "pwl_cost":
        n = draw(st.integers(1, 3))
        pts = sorted(draw(st.lists(st.integers(-20, 20) | _finite(-20, 20), min_size=n + 1, max_size=n + 1, unique=True)))
        points = [[pts[i], pts[i + 1], draw(st.integers(0, 9) | _finite(0, 9))] for i in range(n)]
        return {"op": "pwl_cost", "et": draw(st.sampled_from(["gen", "ext_grid", "sgen", "load"])), "row": draw(row), "points": points,
                "power_type": draw(st.sampled_from(["p", "p", "q"]))}
    if op == "pf_options":
        return {"op": "pf_options", "opts": draw(st.sampled_from(PF_OPTION_SETS))}
    if op == "table":
        ncol = draw(st.integers(1, 3))
        nrow = draw(st.integers(0, 3))
        return {"op": "table", "key": draw(st.sampled_from(["my_table", "profiles_x", "Notes"])),
                "cols": draw(st.lists(st.sampled_from(COLNAMES), min_size=ncol, max_size=ncol, unique=True)),
                "data": [[draw(st.integers(-5, 5) | _finite(-9, 9)) for _ in range(ncol)] for _ in range(nrow)],
                "index0": draw(st.sampled_from([0, 0, 7]))}
    raise KeyError(op)


@st.composite
def _case(draw, tier):
    fmt = draw(netgen.weighted(FORMATS))
    fam = fmt.split("_")[0]
    recipe = draw(netgen.grid(PROFILE))
    # non-contiguous (and sometimes unsorted) element indices
    if draw(st.integers(0, 2)) == 0:
        for t in draw(st.lists(st.sampled_from(["line", "load", "trafo", "gen", "sgen", "switch", "ext_grid"]), min_size=1, max_size=3, unique=True)):
            els = [e for e in recipe["el"] if e["t"] == t]
            if not els:
                continue
            # labels stay small: pandapower allocates lookup arrays of size max(index)+1 (index 2**40 -> tens of GB)
            labs = draw(st.lists(st.integers(0, 60) | st.integers(0, 5000), min_size=len(els), max_size=len(els), unique=True))
            if draw(st.booleans()):
                labs = sorted(labs)
            for e, lab in zip(els, labs):
                e["index"] = lab
    deco = draw(st.lists(_deco(fam), min_size=1, max_size=9))
    case = {"recipe": recipe, "deco": deco, "fmt": fmt, "results": draw(st.sampled_from([False, True, True]))}
    if fmt.endswith("_enc"):
        case["key"] = draw(st.sampled_from(["k", "secret", "pässwörd 🔑", ""]) | st.text(max_size=8))
    if fam in ("excel", "sqlite"):
        case["include_results"] = draw(st.booleans())
    return case


def strategy(tier):
    return _case(tier)


# ---------------------------------------------------------------------------------------------------------
# building the decorated network

def _f(v):
    if isinstance(v, str):
        return float(v)
    return v


def _pick(tab, row):
    if not len(tab):
        return None
    return tab.index[row % len(tab)]


def decorate(net, deco, res):
    """applies the decorations through the documented API; returns the set of decoration kinds really applied"""
    import numpy as np
    import pandas as pd
    import pandapower as pp
    import pandapower.control as ct
    from pandapower.timeseries import DFData
    import geojson

    done = []
    for d in deco:
        op = d["op"]
        if op == "name":
            t = net[d["tab"]]
            i = _pick(t, d["row"])
            if i is None:
                continue
            t.at[i, "name"] = d["v"]
            done.append("name:" + _nameclass(d["v"]))
        elif op == "netname":
            net.name = d["v"]
            done.append("netname")
        elif op == "cell":
            t = net[d["tab"]]
            i = _pick(t, d["row"])
            if i is None:
                continue
            v = _f(d["v"])
            what = d["what"]
            if what == "digits":
                old = t.at[i, d["col"]] if d["col"] in t.columns else float("nan")
                if not isinstance(old, (float, np.floating)) or math.isnan(old) or old == 0:
                    continue
                v = float(old) * v
            elif what == "tiny":
                if d["col"] not in t.columns:
                    continue
                if d["tab"] == "trafo" and d["col"] == "pfe_kw" and not (t.at[i, "i0_percent"] * 10 * t.at[i, "sn_mva"] >= v):
                    continue
                if d["tab"] == "trafo" and d["col"] == "vkr_percent" and not t.at[i, "vk_percent"] > v:
                    continue
            if d["col"] not in t.columns:
                t[d["col"]] = float("nan")
            t.at[i, d["col"]] = v
            if what == "limit":
                done.append("float:" + ("nan" if math.isnan(v) else "inf" if math.isinf(v) else "huge"))
            else:
                done.append("float:" + what)
        elif op == "col":
            t = net[d["tab"]]
            if not len(t) or d["name"] in t.columns:
                continue
            vals = [d["vals"][k % len(d["vals"])] for k in range(len(t))]
            kind = d["kind"]
            if kind == "bool":
                col = pd.Series(vals, index=t.index, dtype=bool)
            elif kind == "int":
                col = pd.Series(vals, index=t.index, dtype="int64")
            elif kind == "float":
                col = pd.Series([_f(v) for v in vals], index=t.index, dtype="float64")
            elif kind == "Int64":
                col = pd.Series(pd.array(vals, dtype="Int64"), index=t.index)
            elif kind == "boolean":
                col = pd.Series(pd.array(vals, dtype="boolean"), index=t.index)
            elif kind == "string":
                col = pd.Series(pd.array(vals, dtype="string"), index=t.index)
            elif kind == "category":
                col = pd.Series(pd.Categorical(vals), index=t.index)
            elif kind == "datetime":
                col = pd.Series(pd.to_datetime(pd.Series(vals, dtype="object"), unit="ns").values, index=t.index)
                col = col.astype("datetime64[ns]")
            else:   # obj_str, list, dict, mixed
                col = pd.Series([copy.deepcopy(v) for v in vals], index=t.index, dtype=object)
            t[d["name"]] = col
            done.append("col:" + kind)
        elif op == "geo":
            t = net[d["tab"]]
            i = _pick(t, d["row"])
            if i is None:
                continue
            if d["tab"] == "bus":
                t.at[i, "geo"] = geojson.dumps(geojson.Point(tuple(d["coords"])))
            else:
                t.at[i, "geo"] = geojson.dumps(geojson.LineString([tuple(p) for p in d["coords"]]))
            done.append("geo:" + d["tab"])
        elif op == "std_type":
            el = d["element"]
            pp.create_std_type(net, copy.deepcopy(d["data"]), d["name"], element=el)
            done.append("std_type:" + el)
            if d["apply"] is not None and el == "line" and len(net.line):
                i = _pick(net.line, d["apply"])
                pp.change_std_type(net, i, d["name"], element="line")
                done.append("std_type-applied")
        elif op == "const_ctrl":
            t = net[d["element"]]
            if not len(t):
                continue
            idx = []
            for r in d["rows"]:
                i = _pick(t, r)           # numpy.int64, as returned by create_*
                if not d.get("np_index"):
                    i = int(i)
                if i not in idx:
                    idx.append(i)
            cols = list(range(len(idx))) if d["colkind"] == "int" else ["prof_%d" % k for k in range(len(idx))]
            df = pd.DataFrame([r[:len(idx)] for r in d["data"]], columns=cols,
                              index=range(d["step_start"], d["step_start"] + len(d["data"])), dtype=float)
            ds = DFData(df)
            if d["single"] and len(idx) == 1:
                ct.ConstControl(net, element=d["element"], variable=d["variable"], element_index=idx[0], profile_name=cols[0],
                                data_source=ds, scale_factor=d["scale_factor"], recycle=d["recycle"], order=d["order"],
                                in_service=d["in_service"])
            else:
                ct.ConstControl(net, element=d["element"], variable=d["variable"], element_index=idx, profile_name=cols,
                                data_source=ds, scale_factor=d["scale_factor"], recycle=d["recycle"], order=d["order"],
                                in_service=d["in_service"])
            done.append("ctrl:const")
        elif op == "tap_ctrl":
            t = net.trafo
            cand = [i for i in t.index if isinstance(t.at[i, "tap_changer_type"], str) and not pd.isna(t.at[i, "tap_pos"])] \
                if "tap_changer_type" in t.columns else []
            if not cand:
                continue
            i = int(cand[d["row"] % len(cand)])
            kw = {} if d["extra"] is None else {"user_tag": d["extra"]}
            if d["kind"] == "cont":
                ct.ContinuousTapControl(net, i, vm_set_pu=d["vm"], tol=d["tol"], side=d["side"], level=d["level"], **kw)
            else:
                ct.DiscreteTapControl(net, i, vm_lower_pu=d["vm"] - 0.02, vm_upper_pu=d["vm"] + 0.02, side=d["side"],
                                      tol=d["tol"], level=d["level"], **kw)
            done.append("ctrl:tap-" + d["kind"])
        elif op == "tdi":
            if not len(net.trafo):
                continue
            i = int(_pick(net.trafo, d["row"]))
            if d["spline"]:
                c = ct.SplineCharacteristic(net, d["x"], d["y"], interpolator_kind=d["kind"])
            else:
                c = ct.Characteristic(net, d["x"], d["y"])
            ct.TapDependentImpedance(net, [i], c.index, output_variable=d["var"])
            done.append("ctrl:tdi")
            done.append("characteristic:" + ("spline" if d["spline"] else "linear"))
        elif op == "characteristic":
            if d["spline"]:
                ct.SplineCharacteristic(net, d["x"], d["y"])
            else:
                ct.Characteristic(net, d["x"], d["y"])
            done.append("characteristic:" + ("spline" if d["spline"] else "linear"))
        elif op == "group":
            ets, idxs = [], []
            for et, rows in zip(d["ets"], d["rows"]):
                t = net[et]
                if not len(t):
                    continue
                ii = []
                for r in rows:
                    i = int(_pick(t, r))
                    if i not in ii:
                        ii.append(i)
                ets.append(et)
                idxs.append(ii)
            if not ets:
                continue
            refcol = d["refcol"]
            if refcol == "name":
                # reference by name needs unique string names (documented requirement of reference columns)
                for et in ets:
                    net[et]["name"] = ["%s_%s" % (et, i) for i in net[et].index]
                idxs = [["%s_%s" % (et, i) for i in ii] for et, ii in zip(ets, idxs)]
            gi = d["index"]
            if gi is not None and gi in net.group.index:
                gi = None
            pp.create_group(net, ets, idxs, name=d["name"], reference_columns=refcol, index=gi)
            done.append("group" + (":refcol" if refcol else ""))
        elif op == "measurement":
            et = d["et"]
            t = net[et]
            i = _pick(t, d["row"])
            if i is None:
                continue
            mt = d["mt"]
            if et == "bus":
                if mt == "i":
                    mt = "v"
                side = None
            else:
                if mt == "v":
                    mt = "p"
                side = (["from", "to"] if et == "line" else ["hv", "lv"])[d["side"]]
            pp.create_measurement(net, mt, et, d["value"], d["std"], int(i), side=side, name=d["name"])
            done.append("measurement")
        elif op == "poly_cost":
            t = net[d["et"]]
            i = _pick(t, d["row"])
            if i is None:
                continue
            if _has_cost(net, d["et"], i):
                continue
            pp.create_poly_cost(net, int(i), d["et"], cp1_eur_per_mw=d["cp1"], cp0_eur=d["cp0"], cp2_eur_per_mw2=d["cp2"],
                                cq1_eur_per_mvar=d["cq1"])
            done.append("cost:poly")
        elif op == "pwl_cost":
            t = net[d["et"]]
            i = _pick(t, d["row"])
            if i is None:
                continue
            if _has_cost(net, d["et"], i):
                continue
            pp.create_pwl_cost(net, int(i), d["et"], copy.deepcopy(d["points"]), power_type=d["power_type"])
            done.append("cost:pwl")
        elif op == "pf_options":
            pp.set_user_pf_options(net, **d["opts"])
            done.append("user_pf_options")
        elif op == "table":
            if d["key"] in net:
                continue
            net[d["key"]] = pd.DataFrame(d["data"], columns=d["cols"],
                                         index=pd.Index(range(d["index0"], d["index0"] + len(d["data"])), dtype="int64"))
            done.append("extra-table" + ("-empty" if not d["data"] else ""))
    return done


def _has_cost(net, et, i):
    """one cost function per element (create_*_cost rejects a second one with a UserWarning)"""
    for tab in ("poly_cost", "pwl_cost"):
        t = net[tab]
        if len(t) and ((t.et == et) & (t.element == i)).any():
            return True
    return False


def _nameclass(v):
    if v is None:
        return "none"
    if v == "":
        return "empty"
    try:
        float(v)
        return "numeric-looking"
    except ValueError:
        pass
    if v in ("None", "null", "NA", "N/A", "<NA>", "NULL", "#N/A", "true", "False"):
        return "keyword"
    if any(ord(ch) > 127 for ch in v):
        return "unicode"
    if any(ord(ch) < 32 for ch in v):
        return "control"
    return "other"


# ---------------------------------------------------------------------------------------------------------
# the save / load paths

def roundtrip(net, case, tmp):
    import pandapower as pp
    fmt = case["fmt"]
    key = case.get("key")
    if fmt in ("json_str", "json_str_enc"):
        s = pp.to_json(net, encryption_key=key)
        if not isinstance(s, str):
            raise AssertionError("to_json without filename did not return a string")
        return "load", lambda: pp.from_json_string(s, encryption_key=key)
    if fmt in ("json_file", "json_file_enc"):
        fn = os.path.join(tmp, "net.json")
        pp.to_json(net, fn, encryption_key=key)
        return "load", lambda: pp.from_json(fn, encryption_key=key)
    if fmt == "json_fobj":
        buf = io.StringIO()
        pp.to_json(net, buf)
        buf.seek(0)
        return "load", lambda: pp.from_json(buf)
    if fmt == "pickle_file":
        fn = os.path.join(tmp, "net.p")
        pp.to_pickle(net, fn)
        return "load", lambda: pp.from_pickle(fn)
    if fmt == "pickle_fobj":
        buf = io.BytesIO()
        pp.to_pickle(net, buf)
        buf.seek(0)
        return "load", lambda: pp.from_pickle(buf)
    if fmt == "excel":
        fn = os.path.join(tmp, "net.xlsx")
        pp.to_excel(net, fn, include_results=case.get("include_results", True))
        return "load", lambda: pp.from_excel(fn)
    if fmt == "sqlite":
        fn = os.path.join(tmp, "net.db")
        pp.to_sqlite(net, fn, include_results=case.get("include_results", False))
        return "load", lambda: pp.from_sqlite(fn)
    raise KeyError(fmt)


def _excel_hidden_error(fn, sig, err):
    import pandas as pd
    from pandapower.io_utils import from_dict_of_dfs
    try:
        with silence():
            from_dict_of_dfs(pd.read_excel(fn, sheet_name=None, index_col=0, engine="openpyxl"))
    except Exception as e2:
        return exc_sig(e2), repr(e2)[:300]
    return sig, err


def _exc_feature(net, fam, stage):
    """facts about the input that name the root cause of a save/load exception"""
    import numpy as np
    import pandas as pd
    big = False
    for k in cc.public_keys(net):
        t = net[k]
        if isinstance(t, pd.DataFrame) and len(t):
            for c in t.columns:
                if t[c].dtype.kind == "f":
                    v = np.abs(t[c].values[np.isfinite(t[c].values)])
                    if len(v) and v.max() > 1.797693134862315e308:
                        big = True
    if big and fam == "json" and stage == "load":
        return "/dbl-max"
    if fam in ("excel", "sqlite") and stage == "save":
        cols = []
        for k in cc.public_keys(net):
            t = net[k]
            if isinstance(t, pd.DataFrame) and len(t) and not k.startswith("res_"):
                for c in t.columns:
                    if c not in ("object", "recycle") and t[c].dtype == object and any(isinstance(v, (list, dict)) for v in t[c].values):
                        cols.append("%s.%s" % (k, c))
        if cols:
            return "/list-cells"
    return ""


def _loc_class(where):
    head = where.split(".")[0].split("[")[0]
    if head in ("controller", "characteristic") and ".object" in where:
        return head + "-object"
    if head == "std_types":
        return "std_types"
    if head == "user_pf_options":
        return "user_pf_options"
    if head.startswith("res_"):
        return "res"
    if head == "group":
        return "group"
    if head == "net":
        return "net"
    return "table"


def _features(done):
    return sorted({x.split(":")[0] for x in done})


def _input_loss(orig, loaded):
    """why do results differ: largest relative change of a float input cell"""
    import numpy as np
    import pandas as pd
    worst = 0.0
    small = False
    for k in cc.public_keys(orig):
        a = orig[k]
        if not isinstance(a, pd.DataFrame) or k.startswith("res_") or not len(a) or k not in loaded:
            continue
        b = loaded[k]
        for c in a.columns:
            if a[c].dtype.kind != "f" or c not in b.columns or len(b) != len(a):
                continue
            try:
                x = a[c].values.astype(float)
                y = b[c].reindex(a.index).values.astype(float)
            except (TypeError, ValueError):
                continue
            if (np.isinf(x) & ~(x == y)).any():
                return "inf-lost"
            with np.errstate(all="ignore"):
                rel = np.abs(x - y) / np.abs(x)
            rel = rel[np.isfinite(rel)]
            if len(rel) and rel.max() > worst:
                worst = float(rel.max())
                small = bool(np.abs(x[np.isfinite(x) & (x != y)]).min() < 1e-3) if (x != y).any() else False
    if worst > 1e-13:
        return "small-float-truncated" if small else "float-changed"
    return "inputs-equal"


def run_pf(net, sn, has_user_opts):
    import pandapower as pp
    with silence():
        if has_user_opts:
            pp.runpp(net)
        else:
            pp.runpp(net, tolerance_mva=pf_tol(sn), max_iteration=30)


def _pf_outcome(net, sn, has_user_opts):
    try:
        run_pf(net, sn, has_user_opts)
        return "ok" if net.converged else "not-converged"
    except Exception as e:   # the outcome (incl. the error class) must be the same for both nets
        return "exc:" + type(e).__name__


def check(case):
    import pandas as pd
    import pandapower as pp
    res = Result()
    fmt = case["fmt"]
    fam = fmt.split("_")[0]
    mode = {"json": "json", "pickle": "exact", "excel": "lossy", "sqlite": "lossy"}[fam]
    recipe = case["recipe"]
    sn = recipe.get("sn_mva", 1.0)
    with silence():
        net, maps = netgen.build(recipe)
        done = decorate(net, case["deco"], res)
    res.label("fmt:" + fmt)
    for x in done:
        res.label(x)
        if ":" in x:
            res.label(x.split(":")[0] + ":*")
    if any("index" in e for e in recipe["el"]) or any("index" in b for b in recipe["buses"]):
        res.label("custom-index")
        done.append("custom-index")
    has_opts = len(net.user_pf_options) > 0
    if case.get("results"):
        out = _pf_outcome(net, sn, has_opts)
        if out == "ok":
            res.label("results-present")
            done.append("results")
        else:
            res.label("results-run-failed")
    orig = copy.deepcopy(net)

    tmp = tempfile.mkdtemp(prefix="c20_", dir="/dev/shm" if os.access("/dev/shm", os.W_OK) else None)
    try:
        stage = "save"
        try:
            with silence():
                stage, loader = roundtrip(net, case, tmp)
                loaded = loader()
        except Exception as e:
            sig = exc_sig(e)
            err = repr(e)[:300]
            if fam == "excel" and stage == "load" and sig.endswith("_from_excel_old"):
                # from_excel hides the real error behind a bare except and falls back to the legacy reader
                sig, err = _excel_hidden_error(os.path.join(tmp, "net.xlsx"), sig, err)
            feat = _exc_feature(orig, fam, stage)
            if feat == "/dbl-max":
                sig = type(e).__name__ if fam != "json" else "ValueError"   # from_json re-raises the ValueError as UserWarning
            res.fail("%s/exc-%s/%s%s" % (fam, stage, sig, feat), error=err, features=_features(done), fmt=fmt)
            res.nontrivial = bool(done)
            return res
    finally:
        shutil.rmtree(tmp, ignore_errors=True)

    if not isinstance(loaded, pp.pandapowerNet):
        res.fail("%s/type/loaded-not-a-net" % fam, got=type(loaded).__name__)
        return res

    diffs = cc.Diffs()
    # saving must not change the network that was saved
    cc.cmp_net(orig, net, "exact", diffs)
    for d in diffs:
        res.fail("%s/save-mutates-net/%s/%s" % (fam, d["kind"], d["cls"]), **d)
    diffs = cc.Diffs()
    if mode in ("json", "exact"):
        cc.cmp_net(orig, loaded, mode, diffs)
    else:
        compare_lossy(orig, loaded, case, diffs)
    seen = set()
    for d in diffs:
        loc = _loc_class(d["where"])
        if mode == "lossy" and d["cls"] == "list->str":
            loc = "list-column"       # pwl_cost.points, group.element_index: one root cause
        sig = "%s/%s/%s@%s" % (fam, d["kind"], d["cls"], loc)
        if sig in seen:
            continue
        seen.add(sig)
        res.fail(sig, **d)

    # identical calculation results
    if not diffs or mode in ("json", "exact"):
        a = orig      # not needed unchanged any more
        oa = _pf_outcome(a, sn, has_opts)
        ob = _pf_outcome(loaded, sn, len(loaded.user_pf_options) > 0 if isinstance(loaded.get("user_pf_options"), dict) else has_opts)
        if oa != ob:
            res.fail("%s/pf/outcome:%s->%s" % (fam, oa.split(":")[0], ob.split(":")[0]), original=oa, loaded=ob, features=_features(done))
        elif oa == "ok":
            res.label("pf-compared")
            dd = oracles.compare_results(a, loaded, atol=1e-9, rtol=1e-9, angle_tol=1e-9)
            if dd:
                res.fail("%s/pf/results-differ/%s" % (fam, _input_loss(orig, loaded)), diffs=dd[:5], features=_features(done))
        else:
            res.label("pf-" + oa.split(":")[0])
    res.nontrivial = bool(done)
    return res


# ---------------------------------------------------------------------------------------------------------
# Excel / SQLite: what those formats can represent

def compare_lossy(orig, loaded, case, diffs):
    import pandas as pd
    fam = case["fmt"].split("_")[0]
    incl_res = case.get("include_results", fam == "excel")
    for k in cc.public_keys(orig):
        v = orig[k]
        if isinstance(v, pd.DataFrame):
            if not len(v):
                continue
            if k.startswith("res_") and not incl_res:
                continue
            if k not in loaded or not isinstance(loaded[k], pd.DataFrame):
                diffs.add("keys", "net", "table-lost:" + ("res" if k.startswith("res_") else "element"), k, None)
                continue
            a = v
            if fam == "excel":
                # an empty string is an empty cell; NA-like text ("nan", "None", ...) is read as a missing value by
                # pandas.read_excel (documented: "to_excel uses pandas to_excel which is a lossy conversion")
                a = v.copy()
                for c in a.columns:
                    if a[c].dtype == object or str(a[c].dtype).startswith("string"):
                        a[c] = a[c].astype(object).where(a[c].astype(object).map(
                            lambda x: not (isinstance(x, str) and x in NA_STRINGS)), None)
            cc.cmp_frame(a, loaded[k], k, "lossy", diffs, skip_null_columns=True)
        elif k == "std_types":
            lt = loaded.get("std_types", {})
            for el, types in v.items():
                for name, data in types.items():
                    if el not in lt or name not in lt[el]:
                        diffs.add("keys", "std_types.%s" % el, "std-type-lost", name, None)
                        continue
                    for pk, pv in data.items():
                        if cc.is_null(pv):
                            continue
                        if pk not in lt[el][name]:
                            diffs.add("keys", "std_types.%s[%r]" % (el, name), "std-type-parameter-lost", pk, None)
                            continue
                        lv = lt[el][name][pk]
                        if isinstance(lv, str) and not isinstance(pv, str):
                            # dtype of std-type parameters is not preserved by SQL (documented xfail): compare by value
                            try:
                                lv = float(lv)
                            except ValueError:
                                pass
                        cc.cmp_value(pv, lv, "std_types.%s[%r][%r]" % (el, name, pk), "lossy", diffs)
        elif k == "user_pf_options":
            if len(v):
                cc.cmp_value(v, loaded.get("user_pf_options"), "user_pf_options", "lossy", diffs)
        elif k in ("version", "format_version", "converged", "OPF_converged"):
            continue
        elif isinstance(v, (int, float, str, bool)):
            if k not in loaded:
                diffs.add("keys", "net", "key-lost:" + type(v).__name__, k, None)
            else:
                cc.cmp_value(v, loaded[k], k, "lossy", diffs)
