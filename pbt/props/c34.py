"""C34 - Explicit runpp arguments take precedence over stored user options (DESIGN.md sec. 2, C34).

Finite domain: every runpp parameter (named signature + documented keyword arguments) is in one of 9 states
stored in {absent, function default, non-default} x passed in {absent, function default, non-default}.
`enumerate_cases` is exhaustive over all states of every single parameter and of every parameter pair; `strategy`
draws full assignments over all parameters.

Differential oracle:   set_user_pf_options(net_a, **stored); runpp(net_a, **passed)
must behave like       runpp(net_b, **{**stored, **passed})           (net_b has no stored options)
i.e. same outcome class (completed / documented rejection / not converged), the same values of all `net._options`
entries that the reference run wrote (extra raw keys that `_init_runpp_options` copies from the stored dict are
ignored), and the same result tables.
"""
import copy
import itertools
import json

from hypothesis import strategies as st

from pbt import oracles
from pbt.core import Result, silence, exc_sig

ID = "C34"
LEVEL = "exploration"
EXHAUSTIVE = True
EXAMPLES = {"quick": 160, "thorough": 10000}
DEADLINE_S = {"quick": 900, "thorough": 3000}
SHRINK_S = {"quick": 8, "thorough": 40}
TECHNIQUE = ("property-based testing: itertools enumeration of a finite configuration space (all 9 stored/passed states "
             "of every parameter and every parameter pair) + Hypothesis-drawn full assignments; differential oracle")
RULE = ("Case = {stored: {param: value}, passed: {param: value}} over the 26 runpp parameters (15 named, 11 documented "
        "kwargs), values concrete (function default or non-default; the state 'stored non-default + passed non-default' "
        "uses two different non-default values where the parameter has more than two values). enumerate_cases (exhaustive): "
        "the empty case, 8 states x 26 parameters, 64 state pairs x every parameter pair - thorough tier: all 325 pairs "
        "(21009 cases), quick tier: the 210 pairs of the 21 parameters that runpp derives values from or cross-checks, "
        "i.e. without the 5 pure pass-through kwargs switch_rx_ratio, delta_q, trafo3w_losses, v_debug, "
        "neglect_open_switch_branches (13649 cases); strategy: full assignments over all 26 parameters "
        "(each parameter independently absent / passed / stored / both, incl. alternative values), constructed so that "
        "most effective option sets are accepted by runpp. Fixed 7-bus network on which every option is observable "
        "(slack angle 5 degree, 2W trafo with magnetising branch, 3W trafo, ZIP load, impedance switch, open line switch, gen with "
        "binding q limit and slack weight, line temperature / TDPF columns, tap controller). Oracle: runpp(net+stored, "
        "**passed) vs runpp(net, **{**stored, **passed}): same outcome class, equal _options on the reference keys, "
        "equal result tables and trafo.tap_pos. Non-trivial = both runs completed and at least one stored option "
        "either applies (not passed, differs from the function default) or conflicts with the passed value; "
        "distinct by case hash. A disagreeing case is attributed to root causes: every stored parameter is re-checked "
        "on its own (signature = mechanism: passed-default-ignored/<kind>, stored-raw-value-overwrites-processed-option, "
        "stored-option-not-applied/<param>, ...), then the rest - blamed parameters passed explicitly instead - is "
        "re-checked and greedily minimised (signature interaction/<params>), so known root causes do not hide others.")
ASSUMPTIONS = ["both sides are pandapower (the property is differential); the reference side never has user_pf_options",
               "result tolerance 1e-9 abs / 1e-9 rel (same code path, same options => same floating point results)",
               "identical documented rejections (ValueError / NotImplementedError / UserWarning) and non-convergence on "
               "both sides are legal and counted as skipped",
               "init='results' / recycle with an internally stored ppc are not generated (need a previous run)"]

# ---------------------------------------------------------------------------------------------------------------
# parameter table: name -> (kind, function default, [non-default values]); first non-default = the standard one

_RECYCLE_1 = {"bus_pq": False, "trafo": False, "gen": False}
_RECYCLE_2 = {"bus_pq": True, "trafo": False, "gen": False}

PARAMS = {
    # named signature of runpp
    "algorithm": ("named", "nr", ["iwamoto_nr", "bfsw"]),
    "calculate_voltage_angles": ("named", True, [False]),
    "init": ("named", "auto", ["flat", "dc"]),
    "max_iteration": ("named", "auto", [25, 15]),
    "tolerance_mva": ("named", 1e-8, [1e-6, 1e-5]),
    "trafo_model": ("named", "t", ["pi"]),
    "trafo_loading": ("named", "current", ["power"]),
    "enforce_q_lims": ("named", False, [True]),
    "check_connectivity": ("named", True, [False]),
    "voltage_depend_loads": ("named", True, [False]),
    "consider_line_temperature": ("named", False, [True]),
    "run_control": ("named", False, [True]),
    "distributed_slack": ("named", False, [True]),
    "tdpf": ("named", False, [True]),
    "tdpf_delay_s": ("named", None, [600.0, 300.0]),
    # documented keyword arguments (defaults as documented / as used by _init_runpp_options)
    "lightsim2grid": ("kwarg", "auto", [False, True]),
    "numba": ("kwarg", True, [False]),
    "switch_rx_ratio": ("kwarg", 2, [0.5, 5.0]),
    "delta_q": ("kwarg", 0, [0.05, 0.1]),
    "trafo3w_losses": ("kwarg", "hv", ["star", "lv"]),
    "v_debug": ("kwarg", False, [True]),
    "init_vm_pu": ("kwarg", None, [1.02, "flat"]),
    "init_va_degree": ("kwarg", None, [3.0, "flat"]),
    "recycle": ("kwarg", None, [_RECYCLE_1, _RECYCLE_2]),
    "neglect_open_switch_branches": ("kwarg", False, [True]),
    "tdpf_update_r_theta": ("kwarg", True, [False]),
}
NAMES = list(PARAMS)
ABSENT = "__absent__"


def _is_default(name, value):
    d = PARAMS[name][1]
    return type(value) is type(d) and value == d


def state_values(name, s_state, p_state):
    """concrete (stored, passed) values of a parameter state; 'a' absent, 'd' default, 'n' non-default"""
    kind, d, nd = PARAMS[name]
    sv = {"a": ABSENT, "d": d, "n": nd[0]}[s_state]
    pv = {"a": ABSENT, "d": d, "n": nd[0]}[p_state]
    if s_state == "n" and p_state == "n" and len(nd) > 1:
        sv = nd[1]          # two different non-default values: a real conflict
    return sv, pv


STATES = [(s, p) for s in "adn" for p in "adn" if (s, p) != ("a", "a")]


def _mk_case(assign):
    """assign: list of (name, stored value or ABSENT, passed value or ABSENT)"""
    stored, passed = {}, {}
    for name, sv, pv in assign:
        if sv is not ABSENT:
            stored[name] = copy.deepcopy(sv)
        if pv is not ABSENT:
            passed[name] = copy.deepcopy(pv)
    return {"stored": stored, "passed": passed}


def _eff(state):
    s, p = state
    return p if p != "a" else s


# keyword arguments that _init_runpp_options only hands through to net._options (no derived value, no consistency
# check, no interplay with another option): in the quick tier they are enumerated alone, not in pairs
PASS_THROUGH = ("switch_rx_ratio", "delta_q", "trafo3w_losses", "v_debug", "neglect_open_switch_branches")


def pair_names(tier):
    return NAMES if tier == "thorough" else [n for n in NAMES if n not in PASS_THROUGH]


def enumerate_cases(tier):
    """empty case, all 8 states of every parameter, all 64 state pairs of every parameter pair (quick tier: pairs of the
    21 parameters that are not mere pass-through options, see PASS_THROUGH; thorough tier: all 26 parameters).
    Order inside a pair block: the 16 cases with the same effective (merged) values sit at positions j with equal
    (j % 16) // 4, so that a shard (index % nshards, nshards | 16) meets few distinct reference runs per block."""
    yield _mk_case([])
    for name in NAMES:
        for s, p in STATES:
            yield _mk_case([(name,) + state_values(name, s, p)])
    combos = [(e1, e2) for e1 in "dn" for e2 in "dn"]
    for n1, n2 in itertools.combinations(pair_names(tier), 2):
        groups = {c: [] for c in combos}
        for st1, st2 in itertools.product(STATES, STATES):
            groups[(_eff(st1), _eff(st2))].append((st1, st2))
        for m in range(4):
            for c in combos:
                for st1, st2 in groups[c][4 * m:4 * m + 4]:
                    yield _mk_case([(n1,) + state_values(n1, *st1), (n2,) + state_values(n2, *st2)])


# ---------------------------------------------------------------------------------------------------------------
# Hypothesis: full assignments

# stored values that runpp derives another value from ("auto"-like function defaults)
_DERIVED_DEFAULTS = ("max_iteration", "lightsim2grid", "init_vm_pu", "init_va_degree")


@st.composite
def _full(draw, tier):
    density = draw(st.sampled_from([0.15, 0.3, 0.5, 0.8]))
    allow_reject = draw(st.integers(0, 9)) == 0
    # most cases avoid the shapes of the three known root causes by construction (see known-*.json replays), so that
    # the budget is spent behind them; the rest still hits them
    avoid_known = draw(st.integers(0, 9)) < 7
    eff = {}
    for name in NAMES:
        kind, d, nd = PARAMS[name]
        if draw(st.floats(0, 1)) < density:
            eff[name] = draw(st.sampled_from([d] + nd + nd[:1]))
    if not allow_reject:
        # repair the effective option set by construction
        g = lambda k: eff.get(k, PARAMS[k][1])
        if g("init") != "auto" and (g("init_vm_pu") is not None or g("init_va_degree") is not None):
            if draw(st.booleans()):
                eff.pop("init")
            else:
                eff.pop("init_vm_pu", None)
                eff.pop("init_va_degree", None)
        if g("lightsim2grid") is True:
            if draw(st.booleans()):
                eff["voltage_depend_loads"] = False
                eff.pop("tdpf", None)
                eff.pop("algorithm", None)
            else:
                eff["lightsim2grid"] = False
        if g("algorithm") != "nr" and (g("tdpf") or g("distributed_slack")):
            eff.pop("algorithm")
    assign = []
    for name in NAMES:
        kind, d, nd = PARAMS[name]
        vals = [d] + nd
        if name not in eff:
            continue
        v = eff[name]
        mode = draw(st.sampled_from(["passed", "stored", "both", "both"]))
        sv = draw(st.sampled_from(vals)) if mode == "both" else v
        if avoid_known:
            if mode == "both" and kind == "named" and _is_default(name, v):
                mode = "passed"            # root cause 1: named argument passed with its default value
            if name in _DERIVED_DEFAULTS and mode != "passed" and _is_default(name, sv) and \
                    (mode == "stored" or kind == "named"):
                mode = "passed"            # root cause 2: stored raw "auto"-like value is the effective one
            if name == "run_control" and mode == "stored":
                mode = "passed"            # root cause 3: stored run_control
        if mode == "passed":
            assign.append((name, ABSENT, v))
        elif mode == "stored":
            assign.append((name, v, ABSENT))
        else:
            assign.append((name, sv, v))
    return _mk_case(assign)


def strategy(tier):
    return _full(tier)


# ---------------------------------------------------------------------------------------------------------------
# the fixed network

_NET = None


def build_net():
    import pandapower as pp
    from pandapower.control import DiscreteTapControl
    net = pp.create_empty_network(sn_mva=1.0)
    b0 = pp.create_bus(net, 110.0)
    b1 = pp.create_bus(net, 20.0)
    b2 = pp.create_bus(net, 20.0)
    b3 = pp.create_bus(net, 10.0)
    b4 = pp.create_bus(net, 20.0)
    b5 = pp.create_bus(net, 20.0)
    b6 = pp.create_bus(net, 20.0)
    pp.create_ext_grid(net, b0, vm_pu=1.02, va_degree=5.0, slack_weight=1.0)
    # trafo_model t/pi (magnetising branch), calculate_voltage_angles (ext_grid angle 5 degree), trafo_loading, run_control (tap)
    pp.create_transformer_from_parameters(net, b0, b1, sn_mva=25.0, vn_hv_kv=110.0, vn_lv_kv=20.0, vkr_percent=0.8,
                                          vk_percent=12.0, pfe_kw=60.0, i0_percent=1.5, shift_degree=0.0,
                                          tap_side="hv", tap_neutral=0, tap_min=-9, tap_max=9, tap_pos=0,
                                          tap_step_percent=1.5, tap_changer_type="Ratio")
    # trafo3w_losses
    pp.create_transformer3w_from_parameters(net, b0, b2, b3, vn_hv_kv=110.0, vn_mv_kv=20.0, vn_lv_kv=10.0,
                                            sn_hv_mva=40.0, sn_mv_mva=25.0, sn_lv_mva=15.0, vk_hv_percent=10.5,
                                            vk_mv_percent=10.0, vk_lv_percent=9.5, vkr_hv_percent=0.6,
                                            vkr_mv_percent=0.5, vkr_lv_percent=0.55, pfe_kw=80.0, i0_percent=1.2,
                                            shift_mv_degree=0.0, shift_lv_degree=0.0)
    lk = dict(r_ohm_per_km=0.25, x_ohm_per_km=0.35, c_nf_per_km=240.0, max_i_ka=0.4)
    pp.create_line_from_parameters(net, b1, b4, 6.0, **lk)      # ring b0-T-b1-b4-b2-T3-b0
    pp.create_line_from_parameters(net, b4, b2, 5.0, **lk)
    l2 = pp.create_line_from_parameters(net, b5, b6, 4.0, **lk)
    l3 = pp.create_line_from_parameters(net, b1, b6, 7.0, **lk)
    # consider_line_temperature / tdpf / tdpf_delay_s / tdpf_update_r_theta
    net.line["temperature_degree_celsius"] = 65.0
    net.line["alpha"] = 0.004
    net.line["tdpf"] = True
    net.line["conductor_outer_diameter_m"] = 21.8e-3
    net.line["mc_joule_per_m_k"] = 1490.0
    net.line["r_theta_kelvin_per_mw"] = 40.0
    net.line["wind_speed_m_per_s"] = 0.6
    net.line["wind_angle_degree"] = 45.0
    net.line["solar_radiation_w_per_sq_m"] = 900.0
    net.line["solar_absorptivity"] = 0.5
    net.line["emissivity"] = 0.5
    net.line["reference_temperature_degree_celsius"] = 20.0
    net.line["air_temperature_degree_celsius"] = 35.0
    # switch_rx_ratio: impedance bus-bus switch; neglect_open_switch_branches: open switch at one line end
    pp.create_switch(net, b4, b5, et="b", closed=True, z_ohm=0.8)
    pp.create_switch(net, b6, l3, et="l", closed=False)
    # voltage_depend_loads
    pp.create_load(net, b4, p_mw=6.0, q_mvar=2.0, const_z_p_percent=30.0, const_i_p_percent=20.0,
                   const_z_q_percent=25.0, const_i_q_percent=15.0)
    pp.create_load(net, b3, p_mw=4.0, q_mvar=1.5)
    pp.create_load(net, b6, p_mw=3.0, q_mvar=1.0)
    # enforce_q_lims (binding limit), delta_q, distributed_slack
    pp.create_gen(net, b5, p_mw=4.0, vm_pu=1.03, min_q_mvar=-1.0, max_q_mvar=1.0, slack_weight=1.0)
    # run_control
    DiscreteTapControl(net, element_index=0, vm_lower_pu=1.0, vm_upper_pu=1.015, side="lv")
    return net


def _assert_signature():
    """the 'function default' state must be the real default of the runpp under test"""
    import inspect
    import pandapower as pp
    sig = inspect.signature(pp.runpp)
    named = {k: v.default for k, v in sig.parameters.items() if v.default is not inspect.Parameter.empty}
    mine = {k: v[1] for k, v in PARAMS.items() if v[0] == "named"}
    if named != mine:
        raise RuntimeError("runpp signature differs from the C34 parameter table: %r vs %r" % (named, mine))


def fresh_net():
    global _NET
    if _NET is None:
        _assert_signature()
        with silence():
            _NET = build_net()
    return copy.deepcopy(_NET)


# ---------------------------------------------------------------------------------------------------------------
# running and comparing

_REF_CACHE = {}
COMPARE_INPUT = [("trafo", "tap_pos")]          # controller effects count as results of run_control
OPTKEY = {"delta_q": "delta"}                    # runpp parameter -> its own net._options key (default: same name)


class Run:
    __slots__ = ("kind", "sig", "opt", "tabs")

    def __init__(self, kind, sig=None, opt=None, tabs=None):
        self.kind, self.sig, self.opt, self.tabs = kind, sig, opt, tabs

    def brief(self):
        return self.kind if self.sig is None else "%s:%s" % (self.kind, self.sig)


def _run(stored, passed):
    """one power flow on a fresh copy of the fixed network -> Run(kind = ok | rejected | not-converged | crash)"""
    import pandapower as pp
    net = fresh_net()
    net._options = {}
    kind, sig = "ok", None
    try:
        with silence():
            if stored:
                pp.set_user_pf_options(net, **copy.deepcopy(stored))
            pp.runpp(net, **copy.deepcopy(passed))
        if not net.converged:
            kind = "not-converged"
    except pp.LoadflowNotConverged:
        kind = "not-converged"
    except (ValueError, NotImplementedError, UserWarning) as e:
        kind, sig = "rejected", exc_sig(e)          # documented rejections of option combinations
    except Exception as e:
        kind, sig = "crash", exc_sig(e)
    opt = dict(net._options) if net._options else None
    tabs = None
    if kind == "ok":
        tabs = {t: net[t].copy() for t in oracles.res_tables(net)}
        for t, c in COMPARE_INPUT:
            tabs["res_input_%s" % t] = net[t][[c]].copy()
    return Run(kind, sig, opt, tabs)


def _reference(merged):
    key = json.dumps(merged, sort_keys=True)
    if key not in _REF_CACHE:
        if len(_REF_CACHE) > 512:
            _REF_CACHE.clear()
        _REF_CACHE[key] = _run({}, merged)
    return _REF_CACHE[key]


def _same(a, b):
    import numpy as np
    if isinstance(a, dict) and isinstance(b, dict):
        return a.keys() == b.keys() and all(_same(a[k], b[k]) for k in a)
    if isinstance(a, (bool, np.bool_)) or isinstance(b, (bool, np.bool_)):
        return isinstance(a, (bool, np.bool_)) and isinstance(b, (bool, np.bool_)) and bool(a) == bool(b)
    if isinstance(a, str) or isinstance(b, str) or a is None or b is None or isinstance(a, dict) or isinstance(b, dict):
        return type(a) is type(b) and a == b
    try:
        return bool(np.array_equal(np.asarray(a, dtype=float), np.asarray(b, dtype=float), equal_nan=True))
    except (TypeError, ValueError):
        return repr(a) == repr(b)


def _tab_diffs(ta, tb):
    """result-table differences (strings); fast path: bitwise equal"""
    import numpy as np
    if ta.keys() == tb.keys():
        for t in ta:
            a, b = ta[t], tb[t]
            if a.shape != b.shape or list(a.columns) != list(b.columns) or list(a.index) != list(b.index):
                break
            try:
                if not np.array_equal(a.values.astype(float), b.values.astype(float), equal_nan=True):
                    break
            except (TypeError, ValueError):
                break
        else:
            return []
    return oracles.compare_results(ta, tb, atol=1e-9, rtol=1e-9, tables=sorted(set(ta) | set(tb)), angle_tol=1e-9)


def _opt_diffs(out_opt, ref_opt):
    """differences on the keys the reference run wrote: list of (key, with_stored, reference)"""
    if out_opt is None or ref_opt is None:
        return []
    miss = object()
    return [(k, out_opt.get(k, miss), ref_opt[k]) for k in sorted(ref_opt)
            if k not in out_opt or not _same(out_opt[k], ref_opt[k])]


class Disc:
    """comparison of runpp(net+stored, **passed) with the reference runpp(net, **{**stored, **passed})"""
    __slots__ = ("out", "ref", "legal", "outcome", "opt", "res")

    def __init__(self, stored, passed, out=None):
        self.ref = _reference({**copy.deepcopy(stored), **copy.deepcopy(passed)})
        self.out = out if out is not None else _run(stored, passed)
        self.legal = None          # both sides: same documented rejection / both not converged
        self.outcome = None        # differing outcome class
        self.opt, self.res = [], []
        o, r = self.out, self.ref
        if o.kind != "ok" or r.kind != "ok":
            if o.kind == r.kind and o.sig == r.sig:
                # same rejection / non-convergence / same crash with and without stored options
                self.legal = o.brief() if o.kind != "crash" else "crash-both:" + o.sig
                return
            self.outcome = "%s-vs-%s" % (o.kind, r.kind)
            self.opt = _opt_diffs(o.opt, r.opt)
            return
        self.opt = _opt_diffs(o.opt, r.opt)
        self.res = _tab_diffs(o.tabs, r.tabs)

    @property
    def bad(self):
        return bool(self.outcome or self.opt or self.res)

    def detail(self):
        d = {"with_stored": self.out.brief(), "reference": self.ref.brief()}
        if self.opt:
            d["options"] = [{"option": k, "with_stored": "<missing>" if type(a) is object else repr(a), "reference": repr(b)}
                            for k, a, b in self.opt[:6]]
        if self.res:
            d["results"] = self.res[:4]
        return d


_SINGLE_CACHE = {}


def _single(name, sv, pv):
    """comparison for the one-parameter case (memoised: the same projections recur in many pair cases)"""
    key = json.dumps([name, sv, None if pv is ABSENT else [pv]], sort_keys=True)
    if key not in _SINGLE_CACHE:
        _SINGLE_CACHE[key] = Disc({name: copy.deepcopy(sv)}, {} if pv is ABSENT else {name: copy.deepcopy(pv)})
    return _SINGLE_CACHE[key]


def _equal_runs(a, b):
    if a.kind != b.kind or a.sig != b.sig:
        return False
    if a.kind != "ok":
        return True
    return not _opt_diffs(a.opt, b.opt) and not _tab_diffs(a.tabs, b.tabs)


def param_state(name, case):
    s = case["stored"].get(name, ABSENT)
    p = case["passed"].get(name, ABSENT)
    f = lambda v: "a" if v is ABSENT else ("d" if _is_default(name, v) else "n")
    return f(s), f(p)


def mechanism(name, sv, pv, d):
    """root-cause signature of a failing ONE-parameter case (stored value sv, passed value pv or ABSENT)"""
    kind = PARAMS[name][0]
    key = OPTKEY.get(name, name)
    if pv is not ABSENT and not _same(sv, pv):
        # conflict: did the stored value win? (= behaves like the reference run of the stored value alone)
        won = _equal_runs(d.out, _reference({name: copy.deepcopy(sv)}))
        return "passed-%s-%s/%s" % ("default" if _is_default(name, pv) else "nondefault",
                                    "ignored" if won else "mishandled", kind)
    # the stored value is the effective one (nothing passed, or the same value passed)
    oo, ro = d.out.opt, d.ref.opt
    if oo is not None and ro is not None and key in oo and key in ro and not _same(oo[key], ro[key]) and _same(oo[key], sv):
        # net._options holds the raw stored value where the reference holds the value derived from it
        return "stored-raw-value-overwrites-processed-option"
    if pv is ABSENT and _equal_runs(d.out, _reference({})):
        return "stored-option-not-applied/%s" % name
    return "stored-option-misapplied/%s" % name


def check(case):
    res = Result()
    stored, passed = case["stored"], case["passed"]
    merged = {**stored, **passed}
    involved = [n for n in NAMES if n in merged]
    applies = conflicts = False
    for name in involved:
        s, p = param_state(name, case)
        res.label("state:S%s-P%s" % (s, p))
        if s != "a" and p != "a" and not _same(stored[name], passed[name]):
            conflicts = True
            res.label("conflict:passed-%s-vs-stored-%s" % ("default" if p == "d" else "nondefault",
                                                           "default" if s == "d" else "nondefault"))
        if s == "n" and p == "a":
            applies = True
            res.label("stored-nondefault-applies")
    res.label("params:%s" % (len(involved) if len(involved) < 3 else "3+"))

    d = Disc(stored, passed)
    res.label("ref:" + d.ref.kind)
    if d.legal:
        res.skipped = "both:" + d.legal
        return res
    res.nontrivial = d.out.kind == "ok" and d.ref.kind == "ok" and (applies or conflicts)
    if not d.bad:
        return res

    # ---- attribute the discrepancy to root causes: every stored parameter on its own, then the rest
    if d.res:
        res.label("results-differ")
    sigs = {}
    blamed = []
    for name in involved:
        if name not in stored:
            continue
        sv, pv = stored[name], passed.get(name, ABSENT)
        d1 = d if len(involved) == 1 else _single(name, sv, pv)
        if d1.bad:
            blamed.append(name)
            sigs.setdefault(mechanism(name, sv, pv, d1), []).append((name, d1))
    for sig, items in sorted(sigs.items()):
        name, d1 = items[0]
        res.fail(sig, parameters=[n for n, _ in items],
                 minimal={"stored": {name: stored[name]}, "passed": {name: passed[name]} if name in passed else {}},
                 **d1.detail())
    # residual: the blamed parameters are passed explicitly only (cannot fail on their own); anything left is an
    # interaction between parameters that no single parameter shows
    rest_stored = {k: v for k, v in stored.items() if k not in blamed}
    if blamed:
        d2 = Disc(rest_stored, {**passed, **{n: merged[n] for n in blamed}}) if rest_stored else None
    else:
        d2 = d
    if d2 is not None and d2.bad:
        # reduce to a 1-minimal set of parameters that still disagrees (greedy removal, at most one pass)
        cur_s = dict(rest_stored)
        cur_p = {**passed, **{n: merged[n] for n in blamed}}
        dmin = d2
        for n in [m for m in NAMES if m in cur_s or m in cur_p]:
            s2 = {k: v for k, v in cur_s.items() if k != n}
            p2 = {k: v for k, v in cur_p.items() if k != n}
            if not s2 or len(s2) + len(p2) == len(cur_s) + len(cur_p):
                continue
            dn = Disc(s2, p2)
            if dn.bad:
                cur_s, cur_p, dmin = s2, p2, dn
        names = sorted(set(cur_s) | set(cur_p))
        res.fail("interaction/" + "+".join(names), minimal={"stored": cur_s, "passed": cur_p},
                 states={n: "S%sP%s" % param_state(n, {"stored": cur_s, "passed": cur_p}) for n in names},
                 **dmin.detail())
    return res
