"""C23 - Result-preserving toolbox transformations preserve power flow results (DESIGN.md sec. 2, C23)."""
import copy
import math

from hypothesis import strategies as st

from pbt import netgen, oracles
from pbt.core import Result, pf_tol, silence, pf_outcome, exc_sig

ID = "C23"
LEVEL = "exploration"
DEADLINE_S = {"quick": 600, "thorough": 3000}   # the shared machine can be 5x slower than nominal
EXAMPLES = {"quick": 640, "thorough": 20000}
KINDS = ["cont_bus_index", "cont_elements_index", "line_impedance_roundtrip", "ext_grid_gen_roundtrip",
         "slack_gen_ext_grid_roundtrip", "ward_internal", "xward_internal", "merge_nets", "select_subnet",
         "drop_out_of_service", "drop_inactive", "fuse_buses", "merge_parallel_line"]
RULE = ("Hypothesis draws one transformation kind of " + ", ".join(KINDS) + ", a network recipe from a profile that makes the "
        "kind applicable (1-3 voltage levels, all bus/branch element kinds incl. 3W trafos, wards, xwards, impedance and "
        "fusing switches, open switches, out-of-service parts, an island without slack, permuted custom bus labels and custom "
        "non-contiguous element indices; two recipes for merge_nets / select_subnet) and integer selectors that pick the "
        "targets. The harness writes a tag (table:ordinal) into every `name` column, solves the network (AC, angles, ZIP loads), "
        "applies the toolbox function(s) to a copy (with or without result tables) and solves again after every step. "
        "Oracle (metamorphic): buses and elements are matched by tag - replaced elements by the tag the function copies into the "
        "new element, re-indexed buses additionally through the returned lookup - never by index label; vm/va of every supplied "
        "bus, bus p/q (summed over fused buses), every branch end, element powers (ward = load+shunt, xward = load+shunt+"
        "impedance flow and internal bus voltage, machines of one electrical node as a sum) are equal; a supplied bus or a "
        "power-carrying element may only disappear where the transformation says so. Non-trivial = both power flows converged "
        "and the transformation changed the network at a target that carries power / is supplied; distinct by case hash.")
ASSUMPTIONS = ["tolerances: vm 1e-9, va 1e-7 degree, powers 2e-6 MVA*max(1,sn/100) + 1e-7 relative, currents 1e-6 relative",
               "reactive power of several voltage-controlling machines at one electrical node is compared as a sum (split not unique)",
               "ext_grid <-> slack gen only for machines with va_degree = 0 (a gen has no angle setpoint)",
               "line -> impedance with only_valid_replace=True (documented as result preserving); lines with c/g are skipped by the function",
               "a difference counts only if it persists when the transformed net is started from the original operating point "
               "(Newton from the default start may reach another solution of the same equations)"]

_BK = {"load": 5, "sgen": 3, "gen": 2, "storage": 1, "shunt": 1, "ward": 1, "xward": 1, "motor": 1,
       "asymmetric_load": 0, "asymmetric_sgen": 0}
PROFILES = {
    "default": netgen.profile(dcline=False, oos=0.05, open_prob=0.25, bus_kinds=_BK),
    "ward": netgen.profile(dcline=False, oos=0.05, open_prob=0.2, bus_kinds=dict(_BK, ward=6, xward=0)),
    "xward": netgen.profile(dcline=False, oos=0.05, open_prob=0.2, bus_kinds=dict(_BK, xward=6, ward=0, gen=1)),
    "fuse": netgen.profile(dcline=False, oos=0.04, open_prob=0.2, bus_kinds=_BK, branch_kinds={"line": 6, "impedance": 1, "bb": 6},
                           nb_level=(2, 5)),
    "drop": netgen.profile(dcline=False, oos=0.15, open_prob=0.45, bus_kinds=_BK),
    # leakage=False: the optional leakage-ratio columns must be given for every transformer of a net or for none (a NaN
    # ratio is no documented input), which a union of a net with and a net without the columns would violate
    "small": netgen.profile(dcline=False, oos=0.05, open_prob=0.25, bus_kinds=_BK, nb_max=7, nb_level=(1, 4), leakage=False),
}
# select_subnet: three voltage levels (the only place for a 3W transformer and its switches) in about half of the cases
PROFILES["subnet"] = netgen.profile(dcline=False, oos=0.05, open_prob=0.25, bus_kinds=_BK, nb_max=8, nb_level=(1, 4), leakage=False,
                                    level_sets=netgen.LEVEL_SETS + [ls for ls in netgen.LEVEL_SETS if len(ls) == 3] * 3)
KIND_PROFILE = {"ward_internal": "ward", "xward_internal": "xward", "fuse_buses": "fuse", "drop_out_of_service": "drop",
                "drop_inactive": "drop", "merge_nets": "small", "select_subnet": "subnet"}


def _custom_element_indices(recipe, off, step):
    """non-contiguous, reversed element indices (exposes label/position mix-ups)"""
    counts, seen = {}, {}
    for e in recipe["el"]:
        counts[e["t"]] = counts.get(e["t"], 0) + 1
    for e in recipe["el"]:
        n = seen.get(e["t"], 0)
        seen[e["t"]] = n + 1
        e["index"] = (counts[e["t"]] - 1 - n) * step + off


@st.composite
def _recipe(draw, kind):
    recipe = draw(netgen.grid(PROFILES[KIND_PROFILE.get(kind, "default")]))
    keep_oos_bus = draw(st.integers(0, 3)) == 0 or kind in ("drop_out_of_service", "drop_inactive")
    if not keep_oos_bus:
        # netgen draws the flag with st.floats, which Hypothesis biases towards 0.0 -> far more dead buses than intended
        for b in recipe["buses"]:
            b.pop("in_service", None)
    el = recipe["el"]
    if kind in ("drop_out_of_service", "drop_inactive") and draw(st.integers(0, 5)):
        # a live 3W transformer at a dead bus: known shape, kept for a minority only
        for e in el:
            if e["t"] == "trafo3w":
                for k in ("hv_bus", "mv_bus", "lv_bus"):
                    recipe["buses"][e[k]].pop("in_service", None)
    if kind == "line_impedance_roundtrip":
        for e in el:
            if e["t"] == "line" and draw(st.integers(0, 2)):
                e["c_nf_per_km"] = 0.0
                e.pop("g_us_per_km", None)
    if kind == "merge_parallel_line":
        lines = [e for e in el if e["t"] == "line"]
        if lines:
            lines[draw(st.integers(0, len(lines) - 1))]["parallel"] = draw(st.integers(2, 4))
    if kind == "ext_grid_gen_roundtrip" and draw(st.integers(0, 2)) == 0:
        el.append({"t": "ext_grid", "bus": draw(st.integers(0, len(recipe["buses"]) - 1)), "vm_pu": 1.0, "va_degree": 0.0,
                   "in_service": False})
    if kind == "slack_gen_ext_grid_roundtrip" and draw(st.integers(0, 2)) == 0:
        el.append({"t": "gen", "bus": draw(st.integers(0, len(recipe["buses"]) - 1)), "vm_pu": 1.0, "p_mw": 0.0, "slack": True,
                   "in_service": False})
    if kind == "slack_gen_ext_grid_roundtrip":
        for i, e in enumerate(el):
            if e["t"] == "ext_grid" and e.get("va_degree", 0.0) == 0.0:
                g = {"t": "gen", "bus": e["bus"], "p_mw": 0.0, "vm_pu": e["vm_pu"], "slack": True}
                if "in_service" in e:
                    g["in_service"] = e["in_service"]
                el[i] = g
                break
    nb = len(recipe["buses"])
    vctrl = {netgen.nodes_of(recipe)[e["bus"]] for e in el if e["t"] in ("ext_grid", "gen")}
    if kind == "ward_internal" and not any(e["t"] == "ward" for e in el):
        b = draw(st.integers(0, nb - 1))
        el.append(dict(draw(netgen.bus_element("ward", recipe["buses"][b]["vn_kv"], PROFILES["ward"])), bus=b))
    if kind == "xward_internal" and not any(e["t"] == "xward" for e in el):
        free = [b for b in range(nb) if netgen.nodes_of(recipe)[b] not in vctrl]
        if free:
            b = free[draw(st.integers(0, len(free) - 1))]
            el.append(dict(draw(netgen.bus_element("xward", recipe["buses"][b]["vn_kv"], PROFILES["xward"])), bus=b))
    if kind == "fuse_buses" and not any(e["t"] == "switch" and e["et"] == "b" and e.get("closed", True) and not e.get("z_ohm", 0)
                                        for e in el):
        direct = {frozenset((e.get("from_bus", e.get("hv_bus")), e.get("to_bus", e.get("lv_bus")))) for e in el
                  if e["t"] in ("line", "impedance", "trafo")}
        pairs = [(i, j) for i in range(nb) for j in range(i + 1, nb)
                 if recipe["buses"][i]["vn_kv"] == recipe["buses"][j]["vn_kv"] and frozenset((i, j)) not in direct]
        if pairs:
            i, j = pairs[draw(st.integers(0, len(pairs) - 1))]
            el.append({"t": "switch", "et": "b", "bus": i, "element": j, "closed": True})
    if any(e["t"] == "trafo3w" for e in el) and not any(e["t"] == "switch" and e["et"] == "t3" for e in el) \
            and draw(st.integers(0, 1 if kind == "select_subnet" else 2)) == 0:
        t3 = [e for e in el if e["t"] == "trafo3w"][0]
        el.append({"t": "switch", "et": "t3", "bus": t3[draw(st.sampled_from(["hv_bus", "mv_bus", "lv_bus"]))], "element": 0,
                   "closed": draw(st.booleans())})
    recipe = netgen.normalize(recipe)
    if draw(st.integers(0, 2)) == 0:
        _custom_element_indices(recipe, draw(st.sampled_from([0, 1, 5, 40])), draw(st.sampled_from([1, 2, 3])))
    return recipe


def _kinds():
    """development aid: C23_KINDS=kind1,kind2 restricts the drawn transformations (unset in normal runs)"""
    import os
    sel = [k for k in os.environ.get("C23_KINDS", "").split(",") if k in KINDS]
    return sel or KINDS


@st.composite
def _case(draw, tier):
    kind = draw(st.sampled_from(_kinds()))
    T = {"kind": kind, "a": draw(st.integers(0, 60)), "b": draw(st.integers(0, 255)), "c": draw(st.integers(0, 5)),
         "with_results": draw(st.sampled_from([True, True, False]))}
    case = {"recipe": draw(_recipe(kind)), "T": T}
    if kind in ("merge_nets", "select_subnet"):
        case["recipe2"] = draw(_recipe(kind))
    return case


def strategy(tier):
    return _case(tier)


# ---------------------------------------------------------------------------------------------------------------------
# building blocks

TABLES = ("bus", "line", "trafo", "trafo3w", "impedance", "dcline", "switch", "load", "sgen", "gen", "ext_grid", "storage",
          "shunt", "ward", "xward", "motor", "asymmetric_load", "asymmetric_sgen")
FAMILY = {"line": ("line", "impedance"), "impedance": ("impedance", "line"), "ext_grid": ("ext_grid", "gen"),
          "gen": ("gen", "ext_grid")}


def union_recipe(r1, r2):
    """disjoint union of two recipes (positions of the second are shifted); bus labels are made unique"""
    r = copy.deepcopy(r1)
    n1 = len(r1["buses"])
    cnt = {}
    for e in r1["el"]:
        cnt[e["t"]] = cnt.get(e["t"], 0) + 1
    for b in copy.deepcopy(r2["buses"]):
        r["buses"].append(b)
    for e in copy.deepcopy(r2["el"]):
        for k in netgen.BUS_KEYS:
            if k in e:
                e[k] += n1
        if e["t"] == "switch":
            if e["et"] == "b":
                e["element"] += n1
            else:
                e["element"] += cnt.get(netgen.ET_TABLE[e["et"]], 0)
        r["el"].append(e)
    labelled = any("index" in b for b in r["buses"])
    if labelled:
        used = set()
        for i, b in enumerate(r["buses"]):
            lab = b.get("index", i)
            while lab in used:
                lab += 1000
            b["index"] = lab
            used.add(lab)
    # element indices: unique per table
    used = {}
    for e in r["el"]:
        if "index" in e:
            u = used.setdefault(e["t"], set())
            while e["index"] in u:
                e["index"] += 500
            u.add(e["index"])
    if any("index" in e for e in r["el"]):
        nxt = {}
        for e in r["el"]:
            u = used.setdefault(e["t"], set())
            if "index" not in e:
                k = nxt.get(e["t"], 2000)
                while k in u:
                    k += 1
                e["index"] = k
                u.add(k)
                nxt[e["t"]] = k + 1
    return r, n1


def build_tagged(recipe, prefix=""):
    net, maps = netgen.build(recipe)
    for t, idxs in maps.items():
        if "name" not in net[t].columns:
            net[t]["name"] = None
        net[t]["name"] = net[t]["name"].astype(object)
        for k, idx in enumerate(idxs):
            net[t].at[idx, "name"] = "%s%s:%d" % (prefix, t, k)
    return net, maps


def run(net, sn, init=None):
    import pandapower as pp
    kw = {} if init is None else {"init": init}
    with silence():
        # the convergence criterion is applied in p.u. of the net's own sn_mva
        pp.runpp(net, calculate_voltage_angles=True, voltage_depend_loads=True, tolerance_mva=pf_tol(net.sn_mva), max_iteration=40, **kw)


def solve(net, sn, init=None):
    """-> None if converged, else ('skip'|'fail', what)"""
    try:
        run(net, sn, init)
    except Exception as e:
        return pf_outcome(e)
    if not net.converged:
        return "skip", "not-converged"
    return None


def tagmap(net, t):
    """name tag -> index label (tags written by the harness contain ':'); duplicates -> ValueError"""
    out = {}
    if t not in net or not len(net[t]) or "name" not in net[t].columns:
        return out
    for idx, name in zip(net[t].index, net[t]["name"].values):
        if isinstance(name, str) and ":" in name:
            if name in out:
                raise ValueError("duplicate tag %s in %s" % (name, t))
            out[name] = idx
    return out


def _f(x):
    try:
        return float(x)
    except (TypeError, ValueError):
        return float("nan")


def _nz(x):
    x = _f(x)
    return 0.0 if math.isnan(x) else x


def carries_power(row, eps):
    for c, v in row.items():
        if (c.startswith("p_") or c.startswith("q_")) and abs(_nz(v)) > eps:
            return True
    return False


class Cmp:
    """collects differences; one signature per (step, class of observation)"""
    def __init__(self, step, sn):
        self.step, self.sn, self.diffs = step, sn, []
        self.ptol = 2e-6 * max(1.0, sn / 100.0)

    def add(self, cls, **detail):
        self.diffs.append((cls, detail))

    def num(self, cls, what, a, b, kind="p"):
        a, b = _f(a), _f(b)
        if math.isnan(a) and math.isnan(b):
            return
        if math.isnan(a) != math.isnan(b):
            # "no power" at an unsupplied element is reported as 0 (or numerical noise around 0) or NaN (cf. C07)
            other = b if math.isnan(a) else a
            if kind in ("p", "i", "l") and abs(other) <= {"p": self.ptol, "i": 1e-9, "l": 1e-6}[kind]:
                return
            self.add(cls + "/nan-pattern", what=what, before=a, after=b)
            return
        if kind == "va":
            d, lim = abs((a - b + 180.0) % 360.0 - 180.0), 1e-7
        elif kind == "vm":
            d, lim = abs(a - b), 1e-9
        elif kind == "i":
            d, lim = abs(a - b), 1e-9 + 1e-6 * max(abs(a), abs(b))
        elif kind == "l":
            d, lim = abs(a - b), 1e-6 + 1e-6 * max(abs(a), abs(b))
        else:
            d, lim = abs(a - b), self.ptol + 1e-7 * max(abs(a), abs(b))
        if d > lim:
            self.add(cls, what=what, before=a, after=b, diff=d)


def col_kind(c):
    if c.startswith("va_") or c.endswith("_degree"):
        return "va"
    if c.startswith("vm_") or c.endswith("_pu"):
        return "vm"
    if c.startswith("i_") or c.endswith("_ka"):
        return "i"
    if "loading" in c:
        return "l"
    return "p"


def compare(A, B, step, sn, info):
    """A solved original, B solved transformed net -> Cmp. info: tag-level description of what the step may remove:
    bus_target {tag -> tag of the bus it was fused into}, gone_ok {(table, tag)} , only_prefix, skip_cols {(table, col)}"""
    c = Cmp(step, sn)
    only = info.get("only_prefix")
    tagsA = {t: tagmap(A, t) for t in TABLES}
    tagsB = {t: tagmap(B, t) for t in TABLES}
    skip_cols = info.get("skip_cols", set())
    gone_ok = info.get("gone_ok", set())
    # ---- buses
    target = info.get("bus_target", {})
    # nodes whose voltage is controlled by machines at several buses: the split of P (slack) and Q between the machines,
    # and with it the bus powers, is not unique -> bus powers are compared as a sum over the node
    nodeA = oracles.fused_nodes(A)
    mbus = {}
    for t in ("ext_grid", "gen"):
        for idx in A[t].index[A[t].in_service.astype(bool)]:
            mbus.setdefault(nodeA[A[t].at[idx, "bus"]], set()).add(A[t].at[idx, "bus"])
    multi = {n for n, bs in mbus.items() if len(bs) > 1}
    acc, accB, names = {}, {}, {}
    for tag, ia in tagsA["bus"].items():
        if only is not None and not tag.startswith(only):
            continue
        ttag = target.get(tag, tag)
        ib = tagsB["bus"].get(ttag)
        vm = A.res_bus.at[ia, "vm_pu"]
        if ib is None:
            if not math.isnan(vm) and ("bus", tag) not in gone_ok:
                c.add("supplied-bus-missing", bus=tag)
            continue
        if ("bus", tag) not in gone_ok or ttag != tag:
            c.num("bus-voltage", tag + ".vm", vm, B.res_bus.at[ib, "vm_pu"], "vm")
            c.num("bus-voltage", tag + ".va", A.res_bus.at[ia, "va_degree"], B.res_bus.at[ib, "va_degree"], "va")
        key = ("node", nodeA[ia]) if nodeA[ia] in multi else ("bus", ib)
        p, q = acc.get(key, (0.0, 0.0))
        acc[key] = (p + _nz(A.res_bus.at[ia, "p_mw"]), q + _nz(A.res_bus.at[ia, "q_mvar"]))
        accB.setdefault(key, set()).add(ib)
        names.setdefault(key, []).append(tag)
    adj = {}
    if "xward" in info.get("replaced_tables", ()):
        # the xward consumption contains the flow into its internal branch, which is a branch (no bus element) afterwards
        for tag, ii in tagsB["impedance"].items():
            if tag in tagsA["xward"] and tag not in tagsB["xward"] and ii in B.res_impedance.index:
                fb = B.impedance.at[ii, "from_bus"]
                p, q = adj.get(fb, (0.0, 0.0))
                adj[fb] = (p + _nz(B.res_impedance.at[ii, "p_from_mw"]), q + _nz(B.res_impedance.at[ii, "q_from_mvar"]))
    for key, (p, q) in acc.items():
        pb = sum(_nz(B.res_bus.at[ib, "p_mw"]) + adj.get(ib, (0.0, 0.0))[0] for ib in accB[key])
        qb = sum(_nz(B.res_bus.at[ib, "q_mvar"]) + adj.get(ib, (0.0, 0.0))[1] for ib in accB[key])
        c.num("bus-power", "+".join(names[key][:4]) + ".p", p, pb)
        c.num("bus-power", "+".join(names[key][:4]) + ".q", q, qb)
    # ---- elements matched by tag (same table, or the table a replace function moves them to)
    for t in TABLES[1:]:
        if t in ("gen", "ext_grid"):
            continue
        resA = A["res_" + t] if "res_" + t in A else None
        for tag, ia in tagsA[t].items():
            if only is not None and not tag.startswith(only):
                continue
            if resA is None or ia not in resA.index:
                continue
            rowA = resA.loc[ia]
            found = None
            for t2 in FAMILY.get(t, (t,)):
                if tag in tagsB[t2]:
                    found = (t2, tagsB[t2][tag])
                    break
            if found is None:
                if (t, tag) in gone_ok or t in info.get("replaced_tables", ()):
                    continue
                if carries_power(rowA, c.ptol):
                    c.add("power-carrying-%s-missing" % t, element=tag)
                continue
            t2, ib = found
            resB = B["res_" + t2]
            if ib not in resB.index:
                c.add("no-result-row/%s" % t2, element=tag)
                continue
            for col in resA.columns:
                if col_kind(col) == "va":
                    # the angle of a (numerically) zero phasor is arbitrary
                    mag = col.replace("va_", "vm_").replace("_degree", "_pu")
                    if mag in resA.columns and mag in resB.columns and min(abs(_nz(rowA[mag])), abs(_nz(resB.at[ib, mag]))) < 1e-6:
                        continue
                if col in resB.columns and (t, col) not in skip_cols:
                    c.num(t if t2 == t else "%s-as-%s" % (t, t2), "%s.%s" % (tag, col), rowA[col], resB.at[ib, col], col_kind(col))
    # ---- machines: p of PV gens individually, the rest as a sum per electrical node of the original
    sums = {}
    for t in ("ext_grid", "gen"):
        for tag, ia in tagsA[t].items():
            if only is not None and not tag.startswith(only):
                continue
            if ia not in A["res_" + t].index:
                continue
            found = None
            for t2 in FAMILY[t]:
                if tag in tagsB[t2]:
                    found = (t2, tagsB[t2][tag])
                    break
            pa, qa = _nz(A["res_" + t].at[ia, "p_mw"]), _nz(A["res_" + t].at[ia, "q_mvar"])
            if found is None:
                if (t, tag) not in gone_ok and (abs(pa) > c.ptol or abs(qa) > c.ptol):
                    c.add("power-carrying-%s-missing" % t, element=tag)
                continue
            t2, ib = found
            if ib not in B["res_" + t2].index:
                c.add("no-result-row/%s" % t2, element=tag)
                continue
            pb, qb = _nz(B["res_" + t2].at[ib, "p_mw"]), _nz(B["res_" + t2].at[ib, "q_mvar"])
            if t == "gen" and not bool(A.gen.at[ia, "slack"]) and t2 == "gen":
                c.num("gen-p", tag + ".p_mw", pa, pb)
            n = nodeA[A[t].at[ia, "bus"]]
            s = sums.setdefault(n, [0j, 0j, []])
            s[0] += complex(pa, qa)
            s[1] += complex(pb, qb)
            s[2].append(tag)
    for n, (sa, sb, tags) in sums.items():
        c.num("machine-sum", "+".join(tags) + ".p", sa.real, sb.real)
        c.num("machine-sum", "+".join(tags) + ".q", sa.imag, sb.imag)
    # ---- elements replaced by several internal elements that carry their tag
    for t in info.get("replaced_tables", ()):
        for tag, ia in tagsA[t].items():
            if tag in tagsB[t] or ia not in A["res_" + t].index:
                continue
            p = q = 0.0
            parts = 0
            for t2 in ("load", "shunt"):
                if tag in tagsB[t2]:
                    parts += 1
                    p += _nz(B["res_" + t2].at[tagsB[t2][tag], "p_mw"])
                    q += _nz(B["res_" + t2].at[tagsB[t2][tag], "q_mvar"])
            if t == "xward":
                if tag in tagsB["impedance"]:
                    parts += 1
                    ii = tagsB["impedance"][tag]
                    side = "from" if B.impedance.at[ii, "from_bus"] == tagsB["bus"].get(A.bus.at[A.xward.at[ia, "bus"], "name"]) else "to"
                    p += _nz(B.res_impedance.at[ii, "p_%s_mw" % side])
                    q += _nz(B.res_impedance.at[ii, "q_%s_mvar" % side])
                if tag in tagsB["bus"]:
                    ib = tagsB["bus"][tag]
                    if bool(A.xward.at[ia, "in_service"]) and not math.isnan(_f(A.res_xward.at[ia, "vm_internal_pu"])):
                        c.num("xward-internal-bus", tag + ".vm_internal", A.res_xward.at[ia, "vm_internal_pu"], B.res_bus.at[ib, "vm_pu"], "vm")
                        c.num("xward-internal-bus", tag + ".va_internal", A.res_xward.at[ia, "va_internal_degree"], B.res_bus.at[ib, "va_degree"], "va")
            if parts < (3 if t == "xward" else 2):
                c.add("%s-parts-missing" % t, element=tag, parts=parts)
                continue
            c.num("%s-as-internal" % t, tag + ".p", _nz(A["res_" + t].at[ia, "p_mw"]), p)
            c.num("%s-as-internal" % t, tag + ".q", _nz(A["res_" + t].at[ia, "q_mvar"]), q)
    return c


def start_from(A, B, info):
    """operating point of A as start values for B (matched by tag; internal xward buses from res_xward)"""
    import pandas as pd
    tagsA = tagmap(A, "bus")
    xw = tagmap(A, "xward")
    target = info.get("bus_target", {})
    inv = {}
    for tag in tagsA:
        inv.setdefault(target.get(tag, tag), tag)
    vm, va = [], []
    for ib, name in zip(B.bus.index, B.bus["name"].values):
        v, a = 1.0, 0.0
        if name in inv and inv[name] in tagsA:
            v, a = _f(A.res_bus.at[tagsA[inv[name]], "vm_pu"]), _f(A.res_bus.at[tagsA[inv[name]], "va_degree"])
        elif name in xw and xw[name] in A.res_xward.index:
            v, a = _f(A.res_xward.at[xw[name], "vm_internal_pu"]), _f(A.res_xward.at[xw[name], "va_internal_degree"])
        if math.isnan(v) or math.isnan(a) or v == 0:
            v, a = 1.0, 0.0
        vm.append(v)
        va.append(a)
    B["res_bus"] = pd.DataFrame({"vm_pu": vm, "va_degree": va, "p_mw": float("nan"), "q_mvar": float("nan")}, index=B.bus.index)


# ---------------------------------------------------------------------------------------------------------------------
# the transformations: generator of (step name, info) ; they modify B in place (or replace it: holder["net"])

def _pick(items, a):
    return items[a % len(items)]


def _subset(items, mask):
    sel = [x for k, x in enumerate(items) if (mask >> (k % 8)) & 1]
    return sel or [items[mask % len(items)]]


def steps(kind, T, holder, A, ctx):
    """yields (step, info) after having transformed holder['net']; raises NotApplicable"""
    import pandapower.toolbox as tb
    net = holder["net"]
    a, b, cc = T["a"], T["b"], T["c"]
    if kind == "cont_bus_index":
        before = {idx: name for idx, name in zip(net.bus.index, net.bus["name"].values)}
        start = [0, 0, 1, 7, 100, 3][cc]
        lookup = tb.create_continuous_bus_index(net, start=start, store_old_index=bool(b & 1))
        bad = [(o, n) for o, n in lookup.items() if n not in net.bus.index or net.bus.at[n, "name"] != before.get(o)]
        ctx["changed"] = any(o != n for o, n in lookup.items())
        if bad or sorted(net.bus.index) != list(range(start, start + len(net.bus))):
            ctx["extra"] = [("returned-lookup-wrong", dict(pairs=bad[:5], index=list(net.bus.index)[:12]))]
        yield "create_continuous_bus_index", {}
    elif kind == "cont_elements_index":
        start = [0, 0, 1, 7, 100, 3][cc]
        before = {t: list(net[t].index) for t in TABLES}
        tb.create_continuous_elements_index(net, start=start)
        ctx["changed"] = any(before[t] != list(net[t].index) for t in TABLES)
        bad = [t for t in TABLES if len(net[t]) and sorted(net[t].index) != list(range(start, start + len(net[t])))]
        if bad:
            ctx["extra"] = [("index-not-continuous", dict(tables=bad))]
        yield "create_continuous_elements_index", {}
    elif kind == "line_impedance_roundtrip":
        if not len(net.line):
            raise NotApplicable
        valid = [i for i in net.line.index if not net.line.at[i, "c_nf_per_km"] and not net.line.at[i, "g_us_per_km"]]
        # an impedance cannot carry a switch: a line with an open switch is only offered in a minority of the cases
        open_sw = set(net.switch.element[(net.switch.et == "l") & ~net.switch.closed])
        allow_open = a % 6 == 0
        cand = [i for i in net.line.index if allow_open or i not in open_sw]
        if not cand:
            raise NotApplicable
        if b & 1 and len(cand) == len(net.line):
            index, chosen = None, valid
        elif b & 1:
            index = cand
            chosen = [i for i in index if i in valid]
        else:
            index = _subset(cand, b >> 1)
            chosen = [i for i in index if i in valid]
        if not chosen:
            raise NotApplicable
        sw = net.switch[(net.switch.et == "l") & net.switch.element.isin(chosen)]
        ctx["features"] = set()
        if len(sw) and (~sw.closed).any():
            ctx["features"].add("open-line-switch")
        if list(net.line.index) != list(range(len(net.line))):
            ctx["features"].add("line-index!=position")
        sn_arg = None if cc < 3 else [[7.5, 100.0, 0.3][cc - 3]] * (len(net.line) if index is None else len(index))
        ctx["powered"] = any(abs(_nz(A.res_line.at[i, "p_from_mw"])) + abs(_nz(A.res_line.at[i, "q_from_mvar"])) > 0 for i in chosen)
        offered = list(net.line.index) if index is None else list(index)
        tag_of = {i: net.line.at[i, "name"] for i in offered}
        new = tb.replace_line_by_impedance(net, index=copy.copy(index), sn_mva=sn_arg, only_valid_replace=True)
        # which lines were replaced is observed (they left net.line); the returned indices follow the order of `index`
        replaced = [i for i in offered if i not in net.line.index]
        tags = [tag_of[i] for i in replaced]
        ctx["changed"] = len(new) > 0
        gone = {("switch", s) for s in net_tags_of(A, "switch", sw.index)}
        if set(replaced) - set(chosen):
            ctx["extra"] = [("replaced-line-with-c-or-g", dict(lines=sorted(set(replaced) - set(chosen))))]
        if len(new) != len(replaced) or any(i not in net.impedance.index for i in new):
            ctx["extra"] = [("returned-indices-do-not-fit", dict(replaced=len(replaced), returned=len(new)))]
            gone |= {("line", t) for t in tags}
        else:
            # correspondence through the returned indices (the function copies the row label, not the name column)
            net.impedance["name"] = net.impedance["name"].astype(object)
            for i, t in zip(new, tags):
                net.impedance.at[i, "name"] = t
        yield "replace_line_by_impedance", {"gone_ok": gone, "skip_cols": {("line", "loading_percent")}}
        new2 = tb.replace_impedance_by_line(net, index=list(new), only_valid_replace=True)
        if len(new2) != len(new) or any(i not in net.line.index for i in new2):
            ctx["extra"] = [("returned-indices-do-not-fit", dict(replaced=len(new), returned=len(new2)))]
            gone |= {("line", t) for t in tags}
        else:
            net.line["name"] = net.line["name"].astype(object)
            for i, t in zip(new2, tags):
                net.line.at[i, "name"] = t
        yield "replace_impedance_by_line", {"gone_ok": gone, "skip_cols": {("line", "loading_percent")}}
    elif kind == "ext_grid_gen_roundtrip":
        elig = [i for i in net.ext_grid.index if net.ext_grid.at[i, "va_degree"] == 0.0]
        if not elig:
            raise NotApplicable
        sel = _subset(elig, b)
        ctx["powered"] = any(bool(net.ext_grid.at[i, "in_service"]) and not math.isnan(_f(A.res_bus.at[A.ext_grid.at[i, "bus"], "vm_pu"])) for i in sel)
        new = tb.replace_ext_grid_by_gen(net, ext_grids=sel, slack=True)
        ctx["changed"] = True
        yield "replace_ext_grid_by_gen", {}
        tb.replace_gen_by_ext_grid(net, gens=list(new))
        yield "replace_gen_by_ext_grid", {}
    elif kind == "slack_gen_ext_grid_roundtrip":
        elig = [i for i in net.gen.index if bool(net.gen.at[i, "slack"])]
        if not elig:
            raise NotApplicable
        sel = _subset(elig, b)
        ctx["powered"] = any(bool(net.gen.at[i, "in_service"]) and not math.isnan(_f(A.res_bus.at[A.gen.at[i, "bus"], "vm_pu"])) for i in sel)
        new = tb.replace_gen_by_ext_grid(net, gens=sel)
        ctx["changed"] = True
        yield "replace_gen_by_ext_grid", {}
        tb.replace_ext_grid_by_gen(net, ext_grids=list(new), slack=True)
        yield "replace_ext_grid_by_gen", {}
    elif kind == "ward_internal":
        if not len(net.ward):
            raise NotApplicable
        sel = None if b & 1 else _subset(list(net.ward.index), b >> 1)
        chosen = list(net.ward.index) if sel is None else sel
        ctx["powered"] = any(abs(_nz(A.res_ward.at[i, "p_mw"])) + abs(_nz(A.res_ward.at[i, "q_mvar"])) > 0 for i in chosen)
        tb.replace_ward_by_internal_elements(net, wards=sel)
        ctx["changed"] = True
        yield "replace_ward_by_internal_elements", {"replaced_tables": ("ward",)}
    elif kind == "xward_internal":
        if not len(net.xward):
            raise NotApplicable
        sel = None if b & 1 else _subset(list(net.xward.index), b >> 1)
        chosen = list(net.xward.index) if sel is None else sel
        ctx["powered"] = any(abs(_nz(A.res_xward.at[i, "p_mw"])) + abs(_nz(A.res_xward.at[i, "q_mvar"])) > 0 for i in chosen)
        ctx["features"] = {"sn_mva!=1"} if net.sn_mva != 1 else set()
        tb.replace_xward_by_internal_elements(net, xwards=sel, set_xward_bus_limits=bool(cc & 1))
        ctx["changed"] = True
        yield "replace_xward_by_internal_elements", {"replaced_tables": ("xward",)}
    elif kind in ("drop_out_of_service", "drop_inactive") and _t3_at_dead_bus(net, ctx):
        pass
    elif kind == "drop_out_of_service":
        n0 = sum(len(net[t]) for t in TABLES)
        tb.drop_out_of_service_elements(net)
        ctx["changed"] = sum(len(net[t]) for t in TABLES) < n0
        ctx["powered"] = ctx["changed"]
        yield "drop_out_of_service_elements", {}
    elif kind == "drop_inactive":
        n0 = sum(len(net[t]) for t in TABLES)
        tb.drop_inactive_elements(net, respect_switches=not (cc == 5))
        ctx["changed"] = sum(len(net[t]) for t in TABLES) < n0
        ctx["powered"] = ctx["changed"]
        yield "drop_inactive_elements", {}
    elif kind == "fuse_buses":
        node = oracles.fused_nodes(net)
        groups = {}
        for bus, n in node.items():
            groups.setdefault(n, []).append(bus)
        groups = [sorted(g) for g in groups.values() if len(g) > 1]
        if not groups:
            raise NotApplicable
        g = _pick(sorted(groups), a)
        b1 = _pick(g, b)
        others = [x for x in g if x != b1]
        b2 = others if (cc & 1) else [_pick(others, b >> 2)]
        # a branch between the fused buses is an "inner branch" afterwards and is dropped with its charging/shunt part
        inner = False
        for t, cols in (("line", ("from_bus", "to_bus")), ("impedance", ("from_bus", "to_bus")), ("trafo", ("hv_bus", "lv_bus")),
                        ("dcline", ("from_bus", "to_bus"))):
            if len(net[t]) and (net[t][cols[0]].isin([b1] + b2) & net[t][cols[1]].isin([b1] + b2)).any():
                inner = True
        if inner:
            ctx["features"] = {"inner-branch"}
            raise NotApplicable("inner-branch")
        sw = net.switch[(net.switch.et == "b") & net.switch.bus.isin([b1] + b2) & net.switch.element.isin([b1] + b2)]
        drop = cc < 4
        ctx["powered"] = not math.isnan(_f(A.res_bus.at[b1, "vm_pu"]))
        t1 = net.bus.at[b1, "name"]
        # with drop=False the emptied buses b2 stay behind (isolated): their former voltage/power is looked up at b1 as well
        info = {"bus_target": {net.bus.at[x, "name"]: t1 for x in b2},
                "gone_ok": {("switch", s) for s in net_tags_of(net, "switch", sw.index)}}
        tb.fuse_buses(net, b1, b2 if (cc & 1) else b2[0], drop=drop)
        ctx["changed"] = True
        ctx["drop"] = drop
        yield "fuse_buses" + ("" if drop else "(drop=False)"), info
    elif kind == "merge_parallel_line":
        par = [i for i in net.line.index if net.line.at[i, "parallel"] > 1]
        if not par:
            raise NotApplicable
        i = _pick(par, a)
        ctx["powered"] = abs(_nz(A.res_line.at[i, "p_from_mw"])) + abs(_nz(A.res_line.at[i, "q_from_mvar"])) > 0
        r = tb.merge_parallel_line(net, i)
        ctx["changed"] = True
        if r is not net or net.line.at[i, "parallel"] != 1:
            ctx["extra"] = [("parallel-not-1", {})]
        yield "merge_parallel_line", {}
    else:
        raise KeyError(kind)


class NotApplicable(Exception):
    pass


def _t3_at_dead_bus(net, ctx):
    """feature: an in-service 3W transformer with an out-of-service terminal bus keeps its other two windings in the power
    flow, while the toolbox treats it as 'connected to an inactive bus'"""
    for i in net.trafo3w.index[net.trafo3w.in_service.astype(bool)]:
        ins = [bool(net.bus.at[net.trafo3w.at[i, c], "in_service"]) for c in ("hv_bus", "mv_bus", "lv_bus")]
        if not all(ins) and sum(ins) >= 2:
            ctx.setdefault("features", set()).add("trafo3w-at-oos-bus")
    return False


def net_tags_of(net, t, idxs):
    return [net[t].at[i, "name"] for i in idxs if i in net[t].index]


def group_of(cls):
    if cls.startswith(("crash", "transformed-net", "duplicate-tag")):
        return cls.split("@")[0] if cls.startswith("crash") else cls
    if "missing" in cls or cls.startswith("no-result-row"):
        return "element-or-bus-lost"
    return "values"


def emit(res, step, diffs, feats=(), **extra):
    """one failure per (step, root-cause features of the input) if the input has a feature that is a known root-cause class,
    else per (step, group of observation)"""
    if not diffs:
        return
    f = "+".join(sorted(feats))
    if f:
        res.fail("results-differ/%s/%s" % (step, f), observed=sorted({c for c, _ in diffs}), first=dict(diffs[0][1], cls=diffs[0][0]), **extra)
        return
    by = {}
    for cls, d in diffs:
        by.setdefault(group_of(cls), []).append((cls, d))
    for g, items in sorted(by.items()):
        res.fail("results-differ/%s/%s" % (step, g), observed=sorted({c for c, _ in items}), first=dict(items[0][1], cls=items[0][0]), **extra)


def evaluate_step(res, A, B, step, sn, info, label_other):
    """solve B, compare with A; a difference only counts if it persists from A's operating point"""
    first = None
    for attempt in (0, 1):
        if attempt == 1:
            try:
                start_from(A, B, info)
            except Exception:
                break
        out = solve(B, sn, init="results" if attempt else None)
        if out is not None:
            kind, what = out
            if kind == "fail":
                diffs = [("crash/%s" % what, {})]
            else:
                diffs = [("transformed-net:%s" % what, {})]
        else:
            try:
                c = compare(A, B, step, sn, info)
            except ValueError as e:
                diffs = [("duplicate-tag", dict(error=str(e)))]
            else:
                diffs = c.diffs
        if not diffs:
            if attempt:
                label_other()
            return []
        first = first or diffs
    return first


def check(case):
    res = Result()
    T = case["T"]
    kind = T["kind"]
    res.label("T:" + kind)
    recipe = case["recipe"]
    sn = recipe.get("sn_mva", 1.0)
    if kind in ("merge_nets", "select_subnet"):
        return check_two(res, case)
    try:
        A, _ = build_tagged(recipe)
    except Exception as e:
        res.skipped = "build-rejected:" + type(e).__name__
        return res
    if kind == "xward_internal" and T["c"] & 1:
        # set_xward_bus_limits=True copies the voltage limits of the connected bus: they must exist
        A.bus["min_vm_pu"] = 0.9
        A.bus["max_vm_pu"] = 1.1
    out = solve(A, sn)
    if out is not None:
        if out[0] == "fail":
            res.fail(out[1])
        else:
            res.skipped = out[1]
        return res
    B = copy.deepcopy(A) if T["with_results"] else oracles.strip_results(A)
    holder, ctx = {"net": B}, {}
    gen = steps(kind, T, holder, A, ctx)
    nt = True
    n_steps = 0
    while True:
        try:
            with silence():
                step, info = next(gen)
        except StopIteration:
            break
        except NotApplicable as e:
            res.skipped = "not-applicable:" + kind + (":" + str(e) if str(e) else "")
            return res
        except Exception as e:
            f = "+".join(sorted(set(ctx.get("features", ())) - {"open-line-switch"}))   # switch states cannot make a function crash
            res.fail("crash/%s/%s" % (kind, exc_sig(e)) + ("/" + f if f else ""), error=repr(e)[:300], after_steps=n_steps)
            return res
        n_steps += 1
        for sig, d in ctx.pop("extra", []):
            res.fail("%s/%s" % (step, sig), **d)
        diffs = evaluate_step(res, A, holder["net"], step, sn, info, lambda: res.label("other-solution-from-default-start"))
        emit(res, step, diffs, ctx.get("features", ()))
        if diffs:
            break
    for f in ctx.get("features", ()):
        res.label(f)
    res.label("with-results" if T["with_results"] else "results-stripped")
    if ctx.get("changed"):
        res.label("changed")
    res.nontrivial = bool(n_steps and ctx.get("changed") and ctx.get("powered", True))
    return res


def check_two(res, case):
    import pandapower.toolbox as tb
    T = case["T"]
    kind = T["kind"]
    r1, r2 = case["recipe"], case["recipe2"]
    sn = max(r1.get("sn_mva", 1.0), r2.get("sn_mva", 1.0))
    if kind == "merge_nets":
        n1, _ = build_tagged(r1, "A/")
        n2, _ = build_tagged(r2, "B/")
        o1, o2 = solve(n1, sn), solve(n2, sn)
        for o in (o1, o2):
            if o is not None and o[0] == "fail":
                res.fail(o[1])
                return res
        if o1 is not None or o2 is not None:
            res.skipped = "not-converged-or-rejected"
            return res
        a1 = n1 if T["with_results"] else oracles.strip_results(n1)
        a2 = n2 if T["with_results"] else oracles.strip_results(n2)
        validate = bool(T["b"] & 1)
        kw = dict(calculate_voltage_angles=True, voltage_depend_loads=True, tolerance_mva=pf_tol(min(n1.sn_mva, n2.sn_mva)),
                  max_iteration=40) if validate else {}
        try:
            with silence():
                merged, lookup = tb.merge_nets(a1, a2, validate=validate, merge_results=bool(T["b"] & 2), std_prio_on_net1=bool(T["b"] & 4),
                                               return_net2_reindex_lookup=True, net2_reindex_log_level=None, **kw)
        except UserWarning as e:
            res.fail("merge_nets/validate-reports-deviation", error=str(e)[:200])
            return res
        except Exception as e:
            res.fail("crash/merge_nets/%s" % exc_sig(e), error=repr(e)[:300])
            return res
        res.label("validate" if validate else "no-validate")
        if any(lookup.values()):
            res.label("net2-reindexed")
        # returned lookup: old label of net2 -> label in the merged net (checked through the tags)
        for t, lk in lookup.items():
            if t in TABLES:
                for old, new in lk.items():
                    if old in n2[t].index and (new not in merged[t].index or merged[t].at[new, "name"] != n2[t].at[old, "name"]):
                        res.fail("merge_nets/returned-lookup-wrong/%s" % t, old=old, new=new)
        for part, prefix in ((n1, "A/"), (n2, "B/")):
            diffs = evaluate_step(res, part, merged, "merge_nets", sn, {"only_prefix": prefix}, lambda: res.label("other-solution-from-default-start"))
            emit(res, "merge_nets", diffs, part=prefix)
            if diffs:
                break
        res.nontrivial = True
        return res
    # select_subnet: the union of two networks, one of them (a complete island with its own slack) is selected
    ru, n1 = union_recipe(r1, r2)
    U, maps = build_tagged(ru)
    out = solve(U, sn)
    if out is not None:
        if out[0] == "fail":
            res.fail(out[1])
        else:
            res.skipped = out[1]
        return res
    first = not (T["a"] & 1)
    pos = range(0, n1) if first else range(n1, len(ru["buses"]))
    buses = [maps["bus"][p] for p in pos]
    src = U if T["with_results"] else oracles.strip_results(U)
    try:
        with silence():
            sub = tb.select_subnet(src, buses, include_switch_buses=bool(T["b"] & 1), include_results=bool(T["b"] & 2),
                                   keep_everything_else=bool(T["b"] & 4))
    except Exception as e:
        res.fail("crash/select_subnet/%s" % exc_sig(e), error=repr(e)[:300])
        return res
    sel_tags = {U.bus.at[b, "name"] for b in buses}
    gone = set()
    for t in TABLES:
        for tag, idx in tagmap(U, t).items():
            if t == "bus":
                inside = tag in sel_tags
            elif t == "switch":
                inside = U.bus.at[U.switch.at[idx, "bus"], "name"] in sel_tags
            else:
                col = [cname for cname in ("bus", "from_bus", "hv_bus") if cname in U[t].columns][0]
                inside = U.bus.at[U[t].at[idx, col], "name"] in sel_tags
            if not inside:
                gone.add((t, tag))
    feats = set()
    t3 = U.switch[(U.switch.et == "t3") & U.switch.bus.isin(buses)]
    if len(t3):
        feats.add("t3-switch-open" if (~t3.closed).any() else "t3-switch")
    diffs = evaluate_step(res, U, sub, "select_subnet", sn, {"gone_ok": gone}, lambda: res.label("other-solution-from-default-start"))
    emit(res, "select_subnet", diffs, feats)
    for f in feats:
        res.label(f)
    res.nontrivial = bool(U.res_bus.loc[buses].vm_pu.notna().sum() >= 2)
    return res
