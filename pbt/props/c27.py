"""C27 - Group operations behave as set operations on group membership (DESIGN.md sec. 2, C27).

Case = {"recipe": netgen recipe, "name_null": k, "avoid": [...], "ops": [JSON operations]}.
`check` builds the net, gives every element table two reference columns ("name": unique strings, every k-th one
null; "rid": unique int64), and interprets the operation list step by step against the real net AND an abstract
model  dict[(group, element_type)] -> {"rc": None|"name"|"rid", "set": set of index labels | reference values}.
After every step the model is compared with what pandapower reports (see `Run.compare`).
"""
import copy
import math

from hypothesis import strategies as st

from pbt import netgen
from pbt.core import Result, silence, exc_sig

ID = "C27"
LEVEL = "exploration"
EXAMPLES = {"quick": 640, "thorough": 16000}
DEADLINE_S = {"quick": 480, "thorough": 3000}
TECHNIQUE = "property-based testing: operation histories (lists of JSON operations) + abstract set model compared after every step"
RULE = ("Hypothesis draws a network recipe (netgen.grid, <=12 buses, all element kinds, switches, out-of-service parts) and a "
        "history of 4-21 operations (thorough: -31): create_group / create_group_from_dict (index / 'name' / 'rid' reference columns, explicit "
        "or free group index), attach_to_group(s) (new types, overlapping members, differing reference column), "
        "detach_from_group(s) (one / several / all groups, scalar or list), drop_group, drop_group_and_elements, toolbox drops "
        "(drop_elements, drop_elements_simple, drop_buses with/without cascade, drop_lines, drop_trafos, drop_elements_at_buses, "
        "drop_inner_branches, drop_out_of_service_elements, drop_inactive_elements, drop of the branch behind a grouped switch), reindex_elements (lookup / new+old / all; "
        "partial or complete), reindex_buses, create_continuous_bus_index / _elements_index, reindex of the group table, "
        "set_group_reference_column, set_group_in/out_of_service, set_value_to_group, runpp + group_res_p_mw/q_mvar, and an 'observe' "
        "step (count_group_elements, isin_group, element_associated_groups must report the model membership). "
        "Arguments are positions resolved against the current state. Oracle after EVERY step: group_element_index(g, et) equals "
        "the model set (reference-value sets resolved against the current table) for every group and type, a (group, type) row "
        "exists iff the set is non-empty, no duplicated rows, group names unchanged, groups not targeted keep their members, "
        "pure group operations leave all element-table indices alone, in/out-of-service and set_value change exactly the "
        "members' cells, drop_group_and_elements drops exactly the members, after an element drop no row still stores (reference values of) dropped elements, group_res_* equals the signed sum over the model "
        "members. Non-trivial = every step executed, a member set grew (create/attach) and later shrank by detach or an "
        "element drop, and >= 2 groups coexisted; distinct by case hash.")
ASSUMPTIONS = [
    "element drops are taken from the observed change of the element tables (which elements a toolbox drop cascades to is "
    "property C22, not C27); the model then removes exactly those elements from every group",
    "reference columns are unique and of one dtype per column (documented requirement); null names occur and are filled by "
    "set_group_reference_column (uuid strings - only membership is compared, never the generated strings)",
    "group_res_*: generator convention for ext_grid/gen/sgen (negative), pl_mw/ql_mvar for branches, bus/switch skipped "
    "(docstring example); NaN results count as 0 (pandas sum); tolerance 1e-9 + 1e-9 rel; a power flow that does not run is skipped",
    "an exception of a toolbox drop/reindex that does not come from group code ends the history as skipped (not C27)",
    "avoid flags (drawn per case, 80 % each) steer histories around the shapes of already reported defects: "
    "'f22' normalises a null reference column through the public set_group_reference_column(net, g, None, et) before "
    "attaching to an existing index row; 'shared-drop' applies drop_group_and_elements only to groups that share no member "
    "with another group; 'switch-cascade' does not drop buses whose switches are group members; 'partial-lookup' pads "
    "reindex lookups with identity entries; 'inner' keeps drop_inner_branches away from grouped impedances/switches; 'eag-scalar' calls "
    "element_associated_groups only with lists",
    "when no group is left an attach operation creates a group from its members (keeps histories busy)",
]
SHRINK_S = {"quick": 10, "thorough": 60}

# element types that may become group members (order = preference for small drawn integers)
ETS = ["bus", "line", "load", "switch", "sgen", "trafo", "gen", "ext_grid", "shunt", "storage", "ward", "xward",
       "motor", "impedance", "trafo3w"]
BUS_COLS = {"line": ("from_bus", "to_bus"), "trafo": ("hv_bus", "lv_bus"), "trafo3w": ("hv_bus", "mv_bus", "lv_bus"),
            "impedance": ("from_bus", "to_bus"), "switch": ("bus",)}
GEN_SIGN = {"ext_grid": -1, "gen": -1, "sgen": -1}
RES_SKIP = ("switch", "measurement", "bus")
AVOID = ("f22", "shared-drop", "switch-cascade", "partial-lookup", "inner", "eag-scalar")
PROFILE = netgen.profile(nb_max=10, max_per_bus=2, oos=0.15, open_prob=0.3, noslack_island=False,
                         bus_kinds={"load": 5, "sgen": 3, "gen": 2, "storage": 1, "shunt": 1, "ward": 1, "xward": 1,
                                    "motor": 1, "asymmetric_load": 0, "asymmetric_sgen": 0},
                         branch_kinds={"line": 8, "impedance": 2, "bb": 2})

DROP_FNS = ["drop_elements", "drop_elements", "drop_elements_simple", "drop_buses", "drop_buses_keep", "drop_lines",
            "drop_trafos", "drop_elements_at_buses", "drop_inner_branches", "drop_out_of_service_elements",
            "drop_inactive_elements", "drop_switched_branch", "drop_switched_branch"]
BUS_CASCADE = ("drop_buses", "drop_elements_at_buses", "drop_out_of_service_elements", "drop_inactive_elements")
REINDEX_FORMS = ["lookup", "lookup", "new_old", "new_all", "buses", "cont_bus", "cont_all"]
KINDS = {"create": 4, "attach": 8, "detach": 6, "drop_group": 1, "drop_group_and_elements": 2, "drop": 5, "reindex": 5,
         "reindex_group": 1, "set_rc": 3, "service": 2, "set_value": 2, "results": 2, "observe": 2}


# ------------------------------------------------------------------------------------------------ generator

_small = st.integers(0, 7)
_idx = st.lists(st.integers(0, 11), min_size=1, max_size=4)
_rc = st.sampled_from([None, None, None, "name", "name", "rid"])


@st.composite
def _parts(draw, max_parts=3):
    return [{"et": draw(_small), "idx": draw(_idx)} for _ in range(draw(st.integers(1, max_parts)))]


@st.composite
def _op(draw, kind=None):
    kind = kind or draw(netgen.weighted(KINDS))
    op = {"op": kind}
    if kind == "create":
        op.update(parts=draw(_parts()), rc=draw(_rc), via_dict=draw(st.booleans()),
                  index=draw(st.sampled_from([None, None, 0, 1, 3])))
    elif kind == "attach":
        op.update(g=draw(_small), parts=draw(_parts(2)), rc=draw(_rc), multi=draw(st.sampled_from([None, None, None, 1, 2])),
                  str_type=draw(st.booleans()), member_type=draw(st.booleans()))
    elif kind == "detach":
        op.update(g=draw(st.sampled_from([0, 1, 2, 3, None, [0, 1], [1, 2]])), et=draw(_small), idx=draw(_idx),
                  from_members=draw(st.sampled_from([True, True, False])), scalar=draw(st.sampled_from([False, False, True])),
                  fn=draw(st.sampled_from(["group", "groups"])))
    elif kind in ("drop_group", "drop_group_and_elements"):
        op.update(g=draw(_small))
    elif kind == "drop":
        op.update(fn=draw(st.sampled_from(DROP_FNS)), et=draw(_small),
                  idx=draw(st.lists(st.integers(0, 11), min_size=1, max_size=2)),
                  from_members=draw(st.booleans()))
    elif kind == "reindex":
        op.update(form=draw(st.sampled_from(REINDEX_FORMS)), et=draw(_small), sel=draw(_idx),
                  new=draw(st.lists(st.integers(0, 30), min_size=4, max_size=4)), start=draw(st.sampled_from([0, 0, 1, 5])),
                  member_type=draw(st.booleans()))
    elif kind == "reindex_group":
        op.update(g=draw(_small), new=draw(st.integers(0, 6)))
    elif kind == "set_rc":
        op.update(g=draw(_small), rc=draw(st.sampled_from([None, "name", "name", "rid"])),
                  et=draw(st.sampled_from([None, None, 0, 1, 2])))
    elif kind == "service":
        op.update(g=draw(_small), on=draw(st.booleans()))
    elif kind == "observe":
        op.update(et=draw(_small), pos=draw(st.integers(0, 11)), scalar=draw(st.booleans()))
    elif kind == "set_value":
        col = draw(st.sampled_from(["tag", "zone", "note"]))
        val = draw(st.integers(1, 4)) * 1.0 if col == "tag" else draw(st.sampled_from(["A", "B"]))
        op.update(g=draw(_small), column=col, value=val, replace=draw(st.booleans()), append=draw(st.booleans()))
    return op


@st.composite
def _case(draw, tier):
    recipe = draw(netgen.grid(PROFILE))
    avoid = [a for a in AVOID if draw(st.sampled_from([True, True, True, False]))]
    first = [draw(_op("create")), draw(_op("create"))]
    n = draw(st.integers(2, 18 if tier == "quick" else 28))
    rest = draw(st.lists(_op(), min_size=n, max_size=n))
    if draw(st.integers(0, 2)):
        rest.append({"op": "results"})
    return {"recipe": recipe, "name_null": draw(st.sampled_from([0, 0, 3, 4])), "avoid": avoid, "ops": first + rest}


def strategy(tier):
    return _case(tier)


# ------------------------------------------------------------------------------------------------ model


class _FastCreate:
    """pandapower facade handed to netgen.build: create_empty_network (0.25 s, most of a case) is served as a deep copy of
    a pristine template that is never modified (0.02 s)"""
    _templates = {}

    def __init__(self, pp):
        self._pp = pp

    def __getattr__(self, name):
        return getattr(self._pp, name)

    def create_empty_network(self, sn_mva=1.0, f_hz=50.0):
        key = (sn_mva, f_hz)
        if key not in self._templates:
            self._templates[key] = self._pp.create_empty_network(sn_mva=sn_mva, f_hz=f_hz)
        return copy.deepcopy(self._templates[key])



def _isnull(v):
    return v is None or (isinstance(v, float) and math.isnan(v))


def _plain(v):
    """hashable python value of a table cell / index label"""
    if hasattr(v, "item"):
        v = v.item()
    return v


class Model:
    def __init__(self):
        self.rows = {}      # (g, et) -> {"rc": None | str, "set": set}
        self.names = {}     # g -> name

    def groups(self):
        return sorted(self.names)

    def types_of(self, g):
        return [et for (gg, et) in sorted(self.rows) if gg == g]

    def resolve(self, net, g, et):
        row = self.rows.get((g, et))
        if row is None:
            return set()
        if row["rc"] is None:
            return set(row["set"])
        col = net[et][row["rc"]]
        return {_plain(i) for i, v in zip(col.index, col.values) if not _isnull(v) and _plain(v) in row["set"]}

    def values(self, net, et, rc, labels):
        if rc is None:
            return {_plain(l) for l in labels}
        return {_plain(net[et].at[l, rc]) for l in labels}

    def prune(self):
        for key in [k for k, r in self.rows.items() if not r["set"]]:
            del self.rows[key]
        for g in [g for g in self.names if not any(gg == g for gg, _ in self.rows)]:
            del self.names[g]


def _rcname(rc):
    return "idx" if rc is None else rc


# ------------------------------------------------------------------------------------------------ interpreter


class Stop(Exception):
    pass


class Run:
    def __init__(self, case, res):
        import pandapower as pp
        import pandas as pd
        self.pp, self.pd = pp, pd
        self.res = res
        self.avoid = set(case.get("avoid", []))
        self.net, _ = netgen.build(case["recipe"], pp=_FastCreate(pp))
        k = case.get("name_null", 0)
        for et in ETS:
            t = self.net[et]
            names = [None if (k and i % k == k - 1) else "%s_%d" % (et, i) for i in range(len(t))]
            t["name"] = pd.Series(names, index=t.index, dtype=object)
            t["rid"] = pd.Series([1000 + i for i in range(len(t))], index=t.index, dtype="int64")
        self.M = Model()
        self.step = -1
        self.op = None
        self.n_created = 0
        self.grew = False
        self.shrunk_after_grow = False
        self.max_groups = 0
        self.executed = 0
        self.noops = 0

    # ---- resolution helpers
    def types(self):
        return [et for et in ETS if len(self.net[et])]

    def labels(self, et):
        return [_plain(l) for l in self.net[et].index]

    def pick(self, pool, idx):
        out = []
        if not pool:
            return out
        for i in idx:
            l = pool[i % len(pool)]
            if l not in out:
                out.append(l)
        return out

    def group(self, k):
        gs = self.M.groups()
        return gs[k % len(gs)] if gs else None

    def table_index(self):
        return {et: tuple(self.labels(et)) for et in ETS}

    def fail(self, sig, **detail):
        self.res.fail(sig, step=self.step, op=self.op, **detail)

    def call(self, ctx, fn, *a, **kw):
        """run a pandapower call of the history; an exception is a failure of the step (inputs are valid by construction)"""
        try:
            with silence():
                return fn(*a, **kw)
        except Exception as e:   # noqa: BLE001
            self.fail("%s/exc:%s" % (ctx, exc_sig(e)), error=repr(e)[:300])
            raise Stop()

    # ---- the oracle applied after every step
    def compare(self, ctx, targets=(), ctxmap=None, tables_before=None, dropping=None):
        """dropping: None, or "typed" / "untyped" after an operation that removes elements from the tables - a member that
        is still listed although its element is gone then gets the root-cause kind 'dropped-not-detached'"""
        net, M, pd = self.net, self.M, self.pd
        ctxmap = ctxmap or {}

        def dropping_et(et):
            return ":" + et if dropping == "typed" else ""
        rows_real = [(_plain(g), et) for g, et in zip(net.group.index, net.group.element_type)]
        if len(rows_real) != len(set(rows_real)):
            self.fail("%s/duplicated-rows" % ctx, rows=rows_real)
        real_groups = {g for g, _ in rows_real}
        keys = sorted(set(rows_real) | set(M.rows), key=lambda k: (k[0], ETS.index(k[1]) if k[1] in ETS else 99))
        # one extra type per group that neither side knows: must report no members
        extra_et = ETS[self.step % len(ETS)]
        for g in sorted(real_groups | set(M.names)):
            if (g, extra_et) not in keys:
                keys.append((g, extra_et))
        for g, et in keys:
            c = ctxmap.get((g, et), ctx)
            where = "target" if g in targets else "other"
            exp = M.resolve(net, g, et)
            if g not in real_groups:
                if exp:
                    self.fail("%s/%s/group-missing" % (c, where), g=g, et=et, expected=sorted(exp, key=str))
                continue
            try:
                with silence():
                    got_idx = self.pp.group_element_index(net, g, et)
                got = [_plain(i) for i in got_idx]
            except Exception as e:   # noqa: BLE001
                self.fail("%s/%s/exc:%s@group_element_index" % (c, where, type(e).__name__), g=g, et=et, error=repr(e)[:300])
                continue
            if len(got) != len(set(got)):
                self.fail("%s/%s/duplicated-members" % (c, where), g=g, et=et, reported=got)
            got = set(got)
            if got != exp:
                extra, missing = got - exp, exp - got
                if extra and et in net and not (extra & set(self.labels(et))):
                    kind = "stale-member:" + et
                elif extra:
                    kind = "extra-member"
                else:
                    kind = "missing-member"
                if dropping and kind.startswith("stale-member"):
                    self.fail("%s/dropped-not-detached%s" % (c, dropping_et(et)), g=g, et=et, reported=sorted(got, key=str),
                              expected=sorted(exp, key=str))
                else:
                    self.fail("%s/%s/%s" % (c, where, kind), g=g, et=et, reported=sorted(got, key=str),
                              expected=sorted(exp, key=str))
            elif dropping and (g, et) in M.rows and M.rows[(g, et)]["rc"] is not None and (g, et) in rows_real and \
                    self.raw_set(g, et) - M.rows[(g, et)]["set"]:
                # reference-column row: the dropped elements' values are still stored (invisible to group_element_index now,
                # but the row survives when its last existing member leaves) - attribute it to the drop that caused it
                self.fail("%s/dropped-not-detached%s" % (c, dropping_et(et)), g=g, et=et,
                          stale_values=sorted(self.raw_set(g, et) - M.rows[(g, et)]["set"], key=str)[:6])
            elif (g, et) in rows_real and not exp:
                raw = net.group.element_index[(net.group.index == g) & (net.group.element_type == et).values].iloc[0]
                if dropping and hasattr(raw, "__len__") and len(raw):
                    # the row still lists (reference values of) elements that were dropped from the table
                    self.fail("%s/dropped-not-detached%s" % (c, dropping_et(et)), g=g, et=et, stored=list(raw)[:6])
                else:
                    self.fail("%s/%s/row-without-members" % (c, where), g=g, et=et)
            elif (g, et) not in rows_real and exp:
                self.fail("%s/%s/members-without-row" % (c, where), g=g, et=et)
        for g in sorted(real_groups & set(M.names)):
            try:
                nm = self.pp.group_name(net, g)
            except Exception as e:   # noqa: BLE001
                self.fail("%s/exc:%s@group_name" % (ctx, type(e).__name__), g=g, error=repr(e)[:300])
                continue
            if nm != M.names[g]:
                self.fail("%s/%s/name-changed" % (ctx, "target" if g in targets else "other"), g=g, name=nm,
                          expected=M.names[g])
        if tables_before is not None:
            now = self.table_index()
            for et in ETS:
                if now[et] != tables_before[et]:
                    self.fail("%s/element-table-index-changed:%s" % (ctx, et), before=tables_before[et], after=now[et])
        self.max_groups = max(self.max_groups, len(M.names))
        if self.res.failures:
            raise Stop()

    def raw_set(self, g, et):
        net = self.net
        raw = net.group.element_index[(net.group.index == g) & (net.group.element_type == et).values].iloc[0]
        return {_plain(v) for v in raw} if hasattr(raw, "__iter__") and not isinstance(raw, str) else {_plain(raw)}

    # ---- operations
    def resolve_parts(self, parts, rc, existing_group=None, member_type=False):
        """-> list of (et, rc, labels, passed values); one part per element type; reference-column parts only use
        elements with a non-null reference value (documented: the values must exist in the column)"""
        out, seen = [], set()
        types = self.types()
        if existing_group is not None and member_type and self.M.types_of(existing_group):
            types = self.M.types_of(existing_group) + types
        for p in parts:
            et = types[p["et"] % len(types)]
            if et in seen:
                continue
            pool = self.labels(et)
            if et == "switch":
                # rare kinds first (transformer switches, then bus-bus switches): small drawn positions reach them
                kind = self.net.switch.et.to_dict()
                pool.sort(key=lambda l: {"t": 0, "t3": 0, "b": 1}.get(kind[l], 2))
            if rc is not None:
                col = self.net[et][rc]
                pool = [l for l in pool if not _isnull(col.at[l])]
            labels = self.pick(pool, p["idx"])
            if not labels:
                continue
            seen.add(et)
            passed = labels if rc is None else [_plain(self.net[et].at[l, rc]) for l in labels]
            out.append((et, rc, labels, passed))
        return out

    def op_create(self, op):
        pp, M, net = self.pp, self.M, self.net
        parts = self.resolve_parts(op["parts"], op["rc"])
        if not parts:
            return False
        name = "G%d" % self.n_created
        self.n_created += 1
        index = op.get("index")
        if index is not None:
            used = set(M.names)
            base = (max(used) + 1) if used else 0
            index = index if index not in used else base + index
        before = self.table_index()
        ets, vals = [p[0] for p in parts], [p[3] for p in parts]
        ctx = "create[%s%s]" % (_rcname(op["rc"]), ",dict" if op["via_dict"] else "")
        if op["via_dict"]:
            g = self.call(ctx, pp.create_group_from_dict, net, dict(zip(ets, vals)), name=name, reference_column=op["rc"],
                          index=index)
        elif len(parts) == 1 and op["parts"][0]["idx"][0] % 2:
            g = self.call(ctx, pp.create_group, net, ets[0], [vals[0]], name=name, reference_columns=op["rc"], index=index)
        else:
            g = self.call(ctx, pp.create_group, net, ets, vals, name=name, reference_columns=op["rc"], index=index)
        g = _plain(g)
        if g in M.names:
            self.fail("%s/returned-existing-group-index" % ctx, g=g)
            raise Stop()
        if index is not None and g != index:
            self.fail("%s/index-not-respected" % ctx, g=g, index=index)
            raise Stop()
        M.names[g] = name
        for et, rc, labels, passed in parts:
            M.rows[(g, et)] = {"rc": rc, "set": set(passed)}
        self.grew = True
        if op["rc"] is not None:
            self.res.label("rc-group")
        self.compare(ctx, targets={g}, tables_before=before)
        return True

    def op_attach(self, op):
        pp, M, net = self.pp, self.M, self.net
        g0 = self.group(op["g"])
        if g0 is None:
            # no group left (all dropped / emptied): the members start a new group instead
            return self.op_create({"op": "create", "parts": op["parts"], "rc": op["rc"], "via_dict": False, "index": None})
        gs = [g0]
        if op.get("multi"):
            allg = M.groups()
            for k in range(1, op["multi"] + 1):
                g = allg[(allg.index(g0) + k) % len(allg)]
                if g not in gs:
                    gs.append(g)
        parts = self.resolve_parts(op["parts"], op["rc"], existing_group=g0, member_type=op.get("member_type"))
        if not parts:
            return False
        before = self.table_index()
        ctxmap = {}
        for g in gs:
            for et, rc, labels, passed in parts:
                row = M.rows.get((g, et))
                # attaching to an existing index row takes one code path whatever reference column is passed
                shape = "new:%s" % _rcname(rc) if row is None else "any->idx" if row["rc"] is None else \
                    "%s->%s" % (_rcname(rc), _rcname(row["rc"]))
                ctxmap[(g, et)] = "attach[%s]" % shape
                if row is not None:
                    self.res.label("attach-existing-row")
                    if row["rc"] != rc:
                        self.res.label("attach-rc-conversion")
                    if row["rc"] is None:
                        if "f22" in self.avoid:
                            # public-API way to make a null reference column None again (see ASSUMPTIONS)
                            self.call("set_rc[pre-attach]", pp.set_group_reference_column, net, g, None, element_type=et)
                            self.compare("set_rc[pre-attach]", targets={g}, tables_before=before)
                        else:
                            self.res.label("shape:f22-possible")
        ets, vals = [p[0] for p in parts], [p[3] for p in parts]
        if len(parts) == 1 and op.get("str_type"):
            ets = ets[0]
        ctx = "attach[untouched-row]"
        if len(gs) > 1:
            self.res.label("attach_to_groups")
            self.call("attach_to_groups", pp.attach_to_groups, net, gs, ets, vals, reference_columns=op["rc"])
        else:
            self.call("attach_to_group", pp.attach_to_group, net, g0, ets, vals, reference_columns=op["rc"])
        for g in gs:
            for et, rc, labels, passed in parts:
                row = M.rows.get((g, et))
                if row is None:
                    M.rows[(g, et)] = {"rc": rc, "set": set(passed)}
                    self.grew = True
                else:
                    new = M.values(net, et, row["rc"], labels)    # table read after the call: null names may have been filled
                    if new - row["set"]:
                        self.grew = True
                    row["set"] |= new
        if any(r["rc"] is not None for r in M.rows.values()):
            self.res.label("rc-group")
        self.compare(ctx, targets=set(gs), ctxmap=ctxmap, tables_before=before)
        return True

    def op_detach(self, op):
        pp, M, net = self.pp, self.M, self.net
        if not M.names:
            return False
        allg = M.groups()
        if op["g"] is None:
            gs, garg = list(allg), None
        elif isinstance(op["g"], list):
            gs = []
            for k in op["g"]:
                g = allg[k % len(allg)]
                if g not in gs:
                    gs.append(g)
            garg = list(gs)
        else:
            gs = [allg[op["g"] % len(allg)]]
            garg = gs[0]
        mtypes = sorted({et for (g, et) in M.rows if g in gs}, key=ETS.index)
        if op["from_members"] and mtypes:
            et = mtypes[op["et"] % len(mtypes)]
            pool = sorted(set().union(*[M.resolve(net, g, et) for g in gs]))
        else:
            types = self.types()
            et = types[op["et"] % len(types)]
            pool = self.labels(et)
        labels = self.pick(pool, op["idx"])
        if not labels:
            return False
        scalar = op["scalar"]
        arg = labels[0] if scalar else labels
        if scalar:
            labels = labels[:1]
        before = self.table_index()
        rckinds = sorted({_rcname(M.rows[(g, et)]["rc"]) for g in gs if (g, et) in M.rows}) or ["no-row"]
        ctx = "detach[%s]" % "+".join(rckinds)
        vals = {rc: M.values(net, et, rc, labels) for rc in (None, "name", "rid")}
        if op["fn"] == "group" and not isinstance(garg, list) and garg is not None:
            self.call(ctx, pp.detach_from_group, net, garg, et, arg)
        else:
            self.call(ctx, pp.detach_from_groups, net, et, arg, index=garg)
        if len(gs) > 1:
            self.res.label("detach-multi-group")
        for g in gs:
            row = M.rows.get((g, et))
            if row is not None:
                n0 = len(row["set"])
                row["set"] -= vals[row["rc"]]
                if len(row["set"]) < n0:
                    self.res.label("detach-effective")
                    if self.grew:
                        self.shrunk_after_grow = True
                if not row["set"]:
                    self.res.label("row-vanished")
        M.prune()
        self.compare(ctx, targets=set(gs), tables_before=before)
        return True

    def op_drop_group(self, op):
        g = self.group(op["g"])
        if g is None:
            return False
        before = self.table_index()
        self.call("drop_group", self.pp.drop_group, self.net, g)
        for key in [k for k in self.M.rows if k[0] == g]:
            del self.M.rows[key]
        del self.M.names[g]
        self.compare("drop_group", targets={g}, tables_before=before)
        return True

    def shared_with_others(self, g):
        M, net = self.M, self.net
        for et in M.types_of(g):
            mine = M.resolve(net, g, et)
            for (g2, et2) in M.rows:
                if g2 != g and et2 == et and mine & M.resolve(net, g2, et):
                    return True
        return False

    def snapshot_refs(self):
        return {et: self.net[et][["name", "rid"]].copy() for et in ETS}

    def apply_drops(self, before, refs):
        """remove the elements that left the element tables from every model set; -> dict et -> dropped labels"""
        M = self.M
        now = self.table_index()
        dropped = {et: set(before[et]) - set(now[et]) for et in ETS}
        for (g, et), row in M.rows.items():
            d = dropped.get(et)
            if not d:
                continue
            gone = d if row["rc"] is None else {_plain(refs[et].at[l, row["rc"]]) for l in d}
            n0 = len(row["set"])
            row["set"] -= gone
            if len(row["set"]) < n0:
                self.res.label("drop-hits-member")
                if self.grew:
                    self.shrunk_after_grow = True
            if not row["set"]:
                self.res.label("row-vanished")
        M.prune()
        return dropped

    def op_drop_group_and_elements(self, op):
        M, net = self.M, self.net
        g = self.group(op["g"])
        if g is None:
            return False
        if self.shared_with_others(g):
            if "shared-drop" in self.avoid:
                cands = [x for x in M.groups() if not self.shared_with_others(x)]
                if not cands:
                    return False
                g = cands[op["g"] % len(cands)]
            else:
                self.res.label("shape:shared-drop")
        members = {et: M.resolve(net, g, et) for et in M.types_of(g)}
        before, refs = self.table_index(), self.snapshot_refs()
        ctx = "drop_group_and_elements"
        self.call(ctx, self.pp.drop_group_and_elements, net, g)
        for key in [k for k in M.rows if k[0] == g]:
            del M.rows[key]
        del M.names[g]
        dropped = self.apply_drops(before, refs)
        for et in ETS:
            if dropped[et] != members.get(et, set()):
                self.fail("%s/dropped-elements-differ-from-members" % ctx, et=et, dropped=sorted(dropped[et]),
                          members=sorted(members.get(et, set())))
        self.compare(ctx, targets={g}, dropping="untyped")
        return True

    def grouped_switches(self):
        out = set()
        for (g, et) in self.M.rows:
            if et == "switch":
                out |= self.M.resolve(self.net, g, et)
        return out

    def op_drop(self, op):
        pp, M, net = self.pp, self.M, self.net
        fn = op["fn"]
        types = self.types()
        mtypes = sorted({et for (_, et) in M.rows}, key=ETS.index)
        forced = None
        if fn == "drop_switched_branch":
            # drop the line / transformer behind a switch that is a group member (trafo switches first: they are rare)
            sw = net.switch.loc[[l for l in sorted(self.grouped_switches()) if l in net.switch.index]]
            sw = sw[sw.et.isin(["l", "t", "t3"])]
            if not len(sw):
                fn = "drop_lines"
            else:
                tr = sw[sw.et != "l"]
                row = (tr if len(tr) and op["idx"][0] % 3 else sw).iloc[op["idx"][-1] % (len(tr) if len(tr) and op["idx"][0] % 3 else len(sw))]
                forced = ({"l": "line", "t": "trafo", "t3": "trafo3w"}[row.et], _plain(row.element))
                fn = "drop_lines" if forced[0] == "line" else "drop_trafos"
                self.res.label("drop-branch-of-grouped-switch")
        if op.get("from_members") and mtypes:
            et = mtypes[op["et"] % len(mtypes)]
        else:
            et = types[op["et"] % len(types)]
        if fn in ("drop_buses", "drop_buses_keep", "drop_elements_at_buses", "drop_inner_branches"):
            et = "bus"
        elif fn == "drop_lines":
            et = "line"
        elif fn == "drop_trafos":
            et = "trafo3w" if (op["et"] % 2 and len(net.trafo3w)) else "trafo"
            if not len(net[et]):
                et = "trafo3w" if et == "trafo" else "trafo"
            if not len(net[et]):
                return False
        elif fn == "drop_elements_simple" and et in ("bus", "line", "trafo", "trafo3w"):
            fn = "drop_elements"
        pool = self.labels(et)
        if op.get("from_members"):
            mem = sorted(set().union(*[M.resolve(net, g, e) for (g, e) in M.rows if e == et] or [set()]))
            pool = mem or pool
        if op.get("from_members") and fn in ("drop_lines", "drop_trafos", "drop_elements") and et in ("line", "trafo", "trafo3w"):
            # prefer branches whose switches are group members (their switches are dropped along with them)
            code = {"line": "l", "trafo": "t", "trafo3w": "t3"}[et]
            sw = net.switch.loc[[l for l in sorted(self.grouped_switches()) if l in net.switch.index]]
            via = sorted({_plain(e) for e in sw.element[sw.et == code]} & set(self.labels(et)))
            if via:
                pool = via
                self.res.label("drop-branch-of-grouped-switch")
        labels = self.pick(pool, op["idx"])
        if forced is not None and forced[1] in self.labels(forced[0]):
            et, labels = forced[0], [forced[1]]
        if fn == "drop_inner_branches":
            labels = self.pick(self.labels("bus"), op["idx"] + [op["idx"][0] + 1, op["idx"][0] + 2])
            if len(net.line):
                ln = net.line.iloc[op["et"] % len(net.line)]
                labels = sorted(set(labels) | {_plain(ln.from_bus), _plain(ln.to_bus)})
        cascade = fn in BUS_CASCADE or (fn == "drop_elements" and et == "bus")
        ctx = "drop[%s]" % ("bus-cascade" if cascade else fn if fn != "drop_elements" else "drop_elements:" +
                            (et if et in ("line", "trafo", "trafo3w") else "simple"))
        gsw = self.grouped_switches()
        if cascade and gsw:
            sw = net.switch
            if fn in ("drop_out_of_service_elements", "drop_inactive_elements"):
                if "switch-cascade" in self.avoid:
                    return False
                self.res.label("shape:switch-cascade-possible")
            else:
                def hit(b):
                    m = (sw.bus == b) | ((sw.element == b) & (sw.et == "b"))
                    return bool(set(_plain(i) for i in sw.index[m]) & gsw)
                if any(hit(b) for b in labels):
                    if "switch-cascade" in self.avoid:
                        labels = [b for b in labels if not hit(b)]
                    else:
                        self.res.label("shape:switch-cascade")
        if fn == "drop_inner_branches":
            inner_grouped = False
            bs = set(labels)
            for e2 in ("impedance", "switch"):
                t = net[e2]
                if not len(t):
                    continue
                if e2 == "switch":
                    m = t.bus.isin(bs) & t.element.isin(bs) & (t.et == "b")
                else:
                    m = t.from_bus.isin(bs) & t.to_bus.isin(bs)
                inner = set(_plain(i) for i in t.index[m])
                if any(inner & M.resolve(net, g, e) for (g, e) in M.rows if e == e2):
                    inner_grouped = True
            if inner_grouped:
                if "inner" in self.avoid:
                    return False
                self.res.label("shape:inner-grouped")
        if not labels and fn not in ("drop_out_of_service_elements", "drop_inactive_elements"):
            return False
        before, refs = self.table_index(), self.snapshot_refs()
        try:
            with silence():
                if fn == "drop_elements":
                    pp.drop_elements(net, et, labels)
                elif fn == "drop_elements_simple":
                    pp.drop_elements_simple(net, et, labels)
                elif fn == "drop_buses":
                    pp.drop_buses(net, labels)
                elif fn == "drop_buses_keep":
                    pp.drop_buses(net, labels, drop_elements=False)
                elif fn == "drop_lines":
                    pp.drop_lines(net, labels)
                elif fn == "drop_trafos":
                    pp.drop_trafos(net, labels, table=et)
                elif fn == "drop_elements_at_buses":
                    pp.drop_elements_at_buses(net, labels)
                elif fn == "drop_inner_branches":
                    pp.drop_inner_branches(net, labels)
                elif fn == "drop_out_of_service_elements":
                    pp.drop_out_of_service_elements(net)
                else:
                    pp.drop_inactive_elements(net)
        except Exception as e:   # noqa: BLE001
            self.toolbox_exception(ctx, e)
        self.res.label("drop:" + fn)
        self.apply_drops(before, refs)
        self.compare(ctx, dropping="untyped" if fn == "drop_inner_branches" else "typed")
        return True

    def toolbox_exception(self, ctx, e):
        """an exception inside a toolbox drop/reindex: a C27 failure only if it comes from group code"""
        import traceback
        grp = False
        for fr in traceback.extract_tb(e.__traceback__):
            if "/pandapower/" in fr.filename and (fr.filename.endswith("groups.py") or "group" in (fr.line or "")):
                grp = True
        if grp:
            self.fail("%s/exc:%s" % (ctx, exc_sig(e)), error=repr(e)[:300])
        else:
            self.res.skipped = "toolbox-exception:" + exc_sig(e)
        raise Stop()

    def op_reindex(self, op):
        pp, M, net = self.pp, self.M, self.net
        form = op["form"]
        types = self.types()
        mtypes = sorted({et for (_, et) in M.rows}, key=ETS.index)
        et = mtypes[op["et"] % len(mtypes)] if (op.get("member_type") and mtypes) else types[op["et"] % len(types)]
        if form in ("buses", "cont_bus"):
            et = "bus"
        lookups = {}
        if form in ("cont_bus", "cont_all"):
            start = op["start"]
            for e2 in (ETS if form == "cont_all" else ["bus"]):
                lookups[e2] = {old: start + i for i, old in enumerate(sorted(self.labels(e2)))}
            ctx = "reindex[%s]" % form
            fn = pp.create_continuous_bus_index if form == "cont_bus" else pp.create_continuous_elements_index
            args, kw = (net,), {"start": start}
        else:
            labels = self.labels(et)
            sel = labels if form == "new_all" else self.pick(labels, op["sel"])
            untouched = set(labels) - set(sel)
            cands = [c for c in list(range(0, len(labels) + 6)) + [100, 101, 102, 103] if c not in untouched]
            new = []
            for i, _ in enumerate(sel):
                c = cands[(op["new"][i % len(op["new"])] + i) % len(cands)]
                cands.remove(c)
                new.append(c)
            lk = dict(zip(sel, new))
            partial = len(sel) < len(labels)
            grouped_outside = any(r["rc"] is None and (r["set"] - set(sel)) for (g, e), r in M.rows.items() if e == et)
            if partial and et != "bus" and form in ("lookup", "new_old"):
                if "partial-lookup" in self.avoid:
                    for l in labels:
                        lk.setdefault(l, l)
                    sel, new = list(lk), [lk[l] for l in lk]
                    partial = False
                elif grouped_outside:
                    self.res.label("shape:partial-lookup")
            lookups[et] = lk
            # lookup= and new_indices=/old_indices= are one code path; what matters is whether every index is covered
            ctx = "reindex[%s%s]" % ("partial" if partial else "buses" if form == "buses" else "complete",
                                     ",bus" if et == "bus" else "")
            if form == "buses":
                fn, args, kw = pp.reindex_buses, (net, dict(lk)), {}
            elif form == "lookup":
                fn, args, kw = pp.reindex_elements, (net, et), {"lookup": dict(lk)}
            elif form == "new_old":
                fn, args, kw = pp.reindex_elements, (net, et), {"new_indices": list(new), "old_indices": list(sel)}
            else:
                fn, args, kw = pp.reindex_elements, (net, et), {"new_indices": list(new)}
        try:
            with silence():
                fn(*args, **kw)
        except Exception as e:   # noqa: BLE001
            self.toolbox_exception(ctx, e)
        for (g, e2), row in M.rows.items():
            lk = lookups.get(e2)
            if lk and row["rc"] is None:
                moved = {l for l in row["set"] if lk.get(l, l) != l}
                if moved:
                    self.res.label("reindex-moves-member")
                row["set"] = {lk.get(l, l) for l in row["set"]}
            elif lk and any(lk.get(l, l) != l for l in M.resolve(net, g, e2)):
                self.res.label("reindex-moves-rc-member")
        self.res.label("reindex:" + form)
        self.compare(ctx)
        return True

    def op_reindex_group(self, op):
        M, net = self.M, self.net
        g = self.group(op["g"])
        if g is None:
            return False
        new = op["new"]
        while new in M.names:
            new += 1
        before = self.table_index()
        ctx = "reindex_group"
        self.call(ctx, self.pp.reindex_elements, net, "group", lookup={g: new})
        M.names[new] = M.names.pop(g)
        for key in [k for k in M.rows if k[0] == g]:
            M.rows[(new, key[1])] = M.rows.pop(key)
        self.compare(ctx, targets={new}, tables_before=before)
        return True

    def op_set_rc(self, op):
        M, net = self.M, self.net
        g = self.group(op["g"])
        if g is None:
            return False
        mt = M.types_of(g)
        ets = mt if op["et"] is None else [mt[op["et"] % len(mt)]]
        rc = op["rc"]
        members = {et: M.resolve(net, g, et) for et in ets}
        before = self.table_index()
        ctx = "set_rc[%s]" % "+".join(sorted({"%s->%s" % (_rcname(M.rows[(g, et)]["rc"]), _rcname(rc)) for et in ets}))
        if op["et"] is None:
            self.call(ctx, self.pp.set_group_reference_column, net, g, rc)
        else:
            self.call(ctx, self.pp.set_group_reference_column, net, g, rc, element_type=ets[0])
        for et in ets:
            M.rows[(g, et)] = {"rc": rc, "set": M.values(net, et, rc, members[et])}
        if rc is not None:
            self.res.label("rc-group")
        self.compare(ctx, targets={g}, tables_before=before)
        return True

    def column_snapshot(self, column):
        out = {}
        for et in ETS:
            t = self.net[et]
            out[et] = dict(zip(self.labels(et), [_plain(v) for v in t[column].values])) if column in t.columns else None
        return out

    def op_service(self, op):
        M, net = self.M, self.net
        g = self.group(op["g"])
        if g is None:
            return False
        on = bool(op["on"])
        old = self.column_snapshot("in_service")
        before = self.table_index()
        ctx = "set_group_in_service" if on else "set_group_out_of_service"
        self.call(ctx, self.pp.set_group_in_service if on else self.pp.set_group_out_of_service, net, g)
        new = self.column_snapshot("in_service")
        flipped = 0
        for et in ETS:
            mem = M.resolve(net, g, et)
            if old[et] is None:
                if new[et] is not None:
                    self.fail("%s/column-added" % ctx, et=et)
                continue
            exp = {l: (on if l in mem else v) for l, v in old[et].items()}
            flipped += sum(1 for l in exp if exp[l] != old[et][l])
            if new[et] != exp:
                bad = sorted(l for l in exp if new[et].get(l) != exp[l])
                kind = "non-member-changed" if any(l not in mem for l in bad) else "member-not-set"
                self.fail("%s/%s" % (ctx, kind), et=et, labels=bad, members=sorted(mem))
        if flipped:
            self.res.label("service-flips-members")
        self.compare(ctx, targets={g}, tables_before=before)
        return True

    def op_set_value(self, op):
        M, net = self.M, self.net
        g = self.group(op["g"])
        if g is None:
            return False
        col, val, replace, append = op["column"], op["value"], op["replace"], op["append"]
        old = self.column_snapshot(col)
        before = self.table_index()
        ctx = "set_value_to_group[%s%s]" % ("replace" if replace else "fill", ",append" if append else "")
        self.call(ctx, self.pp.set_value_to_group, net, g, val, col, replace=replace, append_column=append)
        new = self.column_snapshot(col)
        wrote = 0
        for et in ETS:
            mem = M.resolve(net, g, et)
            if old[et] is None and not (append and mem):
                if new[et] is not None:
                    self.fail("%s/column-added" % ctx, et=et)
                continue
            exp = {}
            for l in self.labels(et):
                o = old[et][l] if old[et] is not None else None
                exp[l] = val if (l in mem and (replace or _isnull(o))) else o
            got = new[et] or {}
            bad = sorted(l for l in exp if not (got.get(l) == exp[l] or (_isnull(got.get(l)) and _isnull(exp[l]))))
            wrote += sum(1 for l in exp if exp[l] == val and l in mem)
            if new[et] is None or bad:
                kind = "non-member-changed" if any(l not in mem for l in bad) else "member-not-set"
                self.fail("%s/%s" % (ctx, kind), et=et, labels=bad, members=sorted(mem))
        if wrote:
            self.res.label("set_value-writes-members")
        self.compare(ctx, targets={g}, tables_before=before)
        return True

    def op_observe(self, op):
        """the other functions that report membership: count_group_elements, isin_group, element_associated_groups"""
        M, net, pp = self.M, self.net, self.pp
        if not M.names:
            return False
        mtypes = sorted({et for (_, et) in M.rows}, key=ETS.index)
        et = mtypes[op["et"] % len(mtypes)]
        labels = self.labels(et)
        before = self.table_index()
        member_of = {l: sorted(g for g in M.groups() if l in M.resolve(net, g, et)) for l in labels}
        for g in M.groups():
            cnt = self.call("observe/count_group_elements", pp.count_group_elements, net, g)
            got = {k: int(v) for k, v in cnt.to_dict().items()}
            exp = {e: len(M.rows[(g, e)]["set"]) for e in M.types_of(g)}
            if got != exp:
                self.fail("observe/count_group_elements/differs", g=g, reported=got, expected=exp)
            isin = self.call("observe/isin_group", pp.isin_group, net, et, labels, index=g)
            if [bool(b) for b in isin] != [g in member_of[l] for l in labels]:
                self.fail("observe/isin_group[one-group]/differs", g=g, et=et, reported=[bool(b) for b in isin],
                          members=sorted(M.resolve(net, g, et)))
        isin = self.call("observe/isin_group", pp.isin_group, net, et, labels)
        if [bool(b) for b in isin] != [bool(member_of[l]) for l in labels]:
            self.fail("observe/isin_group[all-groups]/differs", et=et, reported=[bool(b) for b in isin])
        ass = self.call("observe/element_associated_groups", pp.element_associated_groups, net, et, labels)
        got = {_plain(k): sorted(_plain(x) for x in v) for k, v in ass.items()}
        if got != member_of:
            self.fail("observe/element_associated_groups[list]/differs", et=et, reported=got, expected=member_of)
        if op["scalar"] and labels:
            l = labels[op["pos"] % len(labels)]
            one = self.call("observe/isin_group[scalar]", pp.isin_group, net, et, l)
            if bool(one) != bool(member_of[l]):
                self.fail("observe/isin_group[scalar]/differs", et=et, element=l, reported=bool(one))
            if "eag-scalar" not in self.avoid:
                self.res.label("shape:eag-scalar")
                # a KeyError and a wrong list are two faces of one lookup, so they share a signature
                try:
                    with silence():
                        one = sorted(_plain(x) for x in pp.element_associated_groups(net, et, l))
                except KeyError as e:
                    one = repr(e)
                if one != member_of[l]:
                    self.fail("observe/element_associated_groups[scalar]/wrong-or-KeyError", et=et, element=l, reported=one,
                              expected=member_of[l])
        self.compare("observe", tables_before=before)
        return True

    def op_results(self, op):
        M, net, pp = self.M, self.net, self.pp
        if not M.names:
            return False
        try:
            with silence():
                pp.runpp(net, numba=False)
        except Exception:   # noqa: BLE001  (not converged / no slack left / dangling references after drops: legal here)
            self.res.label("pf-failed")
            return False
        if not net.converged:
            self.res.label("pf-failed")
            return False
        for g in M.groups():
            exp = {"p": 0.0, "q": 0.0}
            counted = 0
            for et in M.types_of(g):
                if et in RES_SKIP:
                    continue
                rt = net["res_" + et]
                mem = [l for l in sorted(M.resolve(net, g, et)) if l in rt.index]
                for key, cols in (("p", ("p_mw", "pl_mw")), ("q", ("q_mvar", "ql_mvar"))):
                    col = cols[0] if cols[0] in rt.columns else cols[1] if cols[1] in rt.columns else None
                    if col is None:
                        continue
                    vals = [float(v) for v in rt[col].loc[mem].values]
                    exp[key] += GEN_SIGN.get(et, 1) * sum(v for v in vals if not math.isnan(v))
                    counted += len(vals)
            for key, fn in (("p", pp.group_res_p_mw), ("q", pp.group_res_q_mvar)):
                got = self.call("group_res_%s" % key, fn, net, g)
                if not abs(float(got) - exp[key]) <= 1e-9 + 1e-9 * abs(exp[key]):
                    self.fail("group_res_%s/sum-differs" % key, g=g, reported=float(got), expected=exp[key],
                              types=M.types_of(g))
            if counted:
                self.res.label("results-over-members")
        self.compare("results")
        return True


def check(case):
    res = Result()
    with silence():
        run = Run(case, res)
    for a in AVOID:
        res.label(("avoid:" if a in run.avoid else "allow:") + a)
    stopped = False
    for i, op in enumerate(case["ops"]):
        run.step, run.op = i, op
        try:
            if not run.types() and op["op"] in ("create", "attach", "detach", "drop", "reindex"):
                done = False      # every element table is empty by now
            else:
                done = getattr(run, "op_" + op["op"])(op)
        except Stop:
            stopped = True
            break
        if done:
            run.executed += 1
            res.label("op:" + op["op"])
        else:
            run.noops += 1
    if run.max_groups >= 2:
        res.label("groups>=2")
    seen = {}
    for (g, et) in sorted(run.M.rows):
        mem = run.M.resolve(run.net, g, et)
        if mem & seen.get(et, set()):
            res.label("shared-members-at-end")
        seen[et] = seen.get(et, set()) | mem
    res.label("steps:%s" % ("<=5" if run.executed <= 5 else "6-10" if run.executed <= 10 else ">10"))
    if stopped:
        res.label("stopped-early")
    res.nontrivial = bool(not stopped and not res.skipped and run.grew and run.shrunk_after_grow and run.max_groups >= 2)
    return res
