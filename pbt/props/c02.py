"""C02 - Power flow honours the documented element equivalent circuits (DESIGN.md sec. 2, C02)."""
import math

from hypothesis import strategies as st

from pbt import netgen, oracles, refmodel
from pbt.core import Result, pf_tol, silence, pf_outcome

ID = "C02"
LEVEL = "exploration"
EXAMPLES = {"quick": 960, "thorough": 40000}
RULE = ("Hypothesis draws a network recipe emphasising branch parameters (all tap changer types x tap side x tap sign x shift, "
        "T/pi model, leakage ratios, parallel, 3W transformers with taps and all trafo3w_losses, asymmetric impedances with shunt "
        "parts and own sn_mva, wards, xwards, impedance switches, line g/parallel/df) and options (trafo_model, trafo_loading, "
        "angles on/off, switch_rx_ratio; AC or DC). Oracle: independent models (pbt/refmodel.py, written from doc/elements in "
        "kV/Ohm/kA) evaluated at the reported bus voltages reproduce every res_line/res_trafo/res_trafo3w/res_impedance/"
        "res_switch/res_ward/res_xward value (p, q at each end, currents, loading). DC: vm=1, pl=0, p_from=-p_to and the "
        "line / impedance / transformer flows equal the linear B-model. Non-trivial = converged and >=1 branch with "
        "non-neutral tap or shift, or >=1 non-line branch; distinct by case hash.")
ASSUMPTIONS = ["z_k and y_m of a transformer are referred to the tap-adjusted LV rated voltage; the tap-induced angle applies also with "
               "calculate_voltage_angles=False (only shift_degree is suppressed) - conventions read off the code where the docs are ambiguous",
               "3W transformers with tap_at_star_point and a non-neutral tap are not compared winding by winding (only the star balance)",
               "tolerance 1e-5 MVA*max(1,sn/100) + 1e-6 relative on powers, 1e-6 relative on currents/loading"]

PROFILE = netgen.profile(dcline=False, oos=0.04, open_prob=0.15, max_per_bus=2, slack_any_level=True,
                         branch_kinds={"line": 6, "impedance": 3, "bb": 2},
                         level_sets=netgen.LEVEL_SETS + [[110.0, 20.0, 0.4], [380.0, 110.0, 20.0], [220.0, 110.0, 10.0], [110.0, 20.0], [20.0, 0.4]] * 2,
                         bus_kinds={"load": 5, "sgen": 3, "gen": 1, "storage": 1, "shunt": 1, "ward": 2, "xward": 2, "motor": 0,
                                    "asymmetric_load": 0, "asymmetric_sgen": 0})


@st.composite
def _case(draw, tier):
    recipe = draw(netgen.grid(PROFILE))
    if draw(st.integers(0, 4)) == 0:
        opt = {"mode": "dc"}
    else:
        opt = {"mode": "ac", "trafo_model": draw(st.sampled_from(["t", "pi"])),
               "trafo_loading": draw(st.sampled_from(["current", "power"])),
               "calculate_voltage_angles": draw(st.sampled_from([True, True, False])),
               "trafo3w_losses": draw(st.sampled_from(["hv", "mv", "lv"])),
               "switch_rx_ratio": draw(st.sampled_from([2.0, 2.0, 0.5, 10.0])),
               "numba": draw(st.sampled_from([True, True, False]))}
    return {"recipe": recipe, "opt": opt}


def strategy(tier):
    return _case(tier)


def _cmp(res, sig, what, ref, got, atol, rtol):
    if got is None or ref is None:
        return
    got = float(got)
    if math.isnan(got) and math.isnan(ref):
        return
    if math.isnan(got) != math.isnan(ref) or abs(ref - got) > atol + rtol * max(abs(ref), abs(got)):
        res.fail(sig, what=what, reference=ref, reported=got)


def check(case):
    import pandapower as pp
    res = Result()
    recipe, opt = case["recipe"], case["opt"]
    net, maps = netgen.build(recipe)
    dc = opt["mode"] == "dc"
    sn = recipe.get("sn_mva", 1.0)
    res.label("mode:" + opt["mode"])
    try:
        with silence():
            if dc:
                pp.rundcpp(net)
            else:
                o = {k: v for k, v in opt.items() if k != "mode"}
                pp.runpp(net, tolerance_mva=pf_tol(sn), max_iteration=40, **o)
    except Exception as e:
        kind, what = pf_outcome(e)
        if kind == "skip":
            res.skipped = what
        else:
            res.fail(what, error=repr(e)[:300])
        return res
    ptol = 1e-5 * max(1.0, sn / 100.0)
    V = {b: refmodel.bus_voltage(net, b) for b in net.bus.index}
    nontrivial = False
    if dc:
        return check_dc(net, res, V, sn)
    angles = opt["calculate_voltage_angles"]
    tm = opt["trafo_model"]
    m = "ac"
    for idx in net.line.index:
        r = net.line.loc[idx]
        if not r.in_service or V[r.from_bus] is None or V[r.to_bus] is None:
            continue
        if ((net.switch.et == "l") & (net.switch.element == idx) & ~net.switch.closed).any():
            continue   # an open end is modelled with an auxiliary bus whose voltage is not reported
        ref = refmodel.line_model(net, idx, V[r.from_bus], V[r.to_bus])
        for c, v in ref.items():
            tol = (1e-9, 1e-6) if c.startswith("i_") or c == "loading_percent" else (ptol, 1e-6)
            _cmp(res, "line-model/%s" % ("current" if c.startswith("i_") or c == "loading_percent" else "power"),
                 "line%d.%s" % (idx, c), v, net.res_line.at[idx, c], *tol)
    for idx in net.trafo.index:
        r = net.trafo.loc[idx]
        if not r.in_service or V[r.hv_bus] is None or V[r.lv_bus] is None:
            continue
        if ((net.switch.et == "t") & (net.switch.element == idx) & ~net.switch.closed).any():
            continue
        ref = refmodel.trafo_model(net, idx, V[r.hv_bus], V[r.lv_bus], trafo_model=tm, angles=angles,
                                   trafo_loading=opt["trafo_loading"])
        tct = r.get("tap_changer_type")
        tapped = isinstance(tct, str) and r.tap_pos != r.tap_neutral
        if tapped or r.shift_degree != 0 or True:
            nontrivial = True
        res.label("trafo-tap:%s/%s" % (tct if isinstance(tct, str) else "none", r.get("tap_side") if isinstance(tct, str) else "-"))
        cls = "trafo-model/%s/%s" % (tm, ("tap-" + tct) if tapped else "neutral")
        for c, v in ref.items():
            tol = (1e-9, 1e-6) if c.startswith("i_") or c == "loading_percent" else (ptol, 1e-6)
            _cmp(res, cls + ("/current" if c.startswith("i_") or c == "loading_percent" else ""), "trafo%d.%s" % (idx, c), v,
                 net.res_trafo.at[idx, c], *tol)
    for idx in net.trafo3w.index:
        r = net.trafo3w.loc[idx]
        if not r.in_service:
            continue
        if ((net.switch.et == "t3") & (net.switch.element == idx) & ~net.switch.closed).any():
            continue
        Vh, Vm, Vl = V[r.hv_bus], V[r.mv_bus], V[r.lv_bus]
        vmi, vai = net.res_trafo3w.at[idx, "vm_internal_pu"], net.res_trafo3w.at[idx, "va_internal_degree"]
        if Vh is None or Vm is None or Vl is None or math.isnan(vmi):
            continue
        import cmath
        Vstar = cmath.rect(vmi * net.bus.at[r.hv_bus, "vn_kv"], math.radians(vai))
        tct = r.get("tap_changer_type")
        tapped = isinstance(tct, str) and r.tap_pos != r.tap_neutral
        if tapped and bool(r.get("tap_at_star_point", False)):
            res.label("trafo3w-tap-at-star-skipped")
            continue
        nontrivial = True
        res.label("trafo3w")
        ref = refmodel.trafo3w_model(net, idx, Vh, Vm, Vl, Vstar, trafo_model=tm, angles=angles, losses=opt["trafo3w_losses"],
                                     trafo_loading=opt["trafo_loading"])
        cls = "trafo3w-model/%s/%s" % (tm, ("tap-%s-%s" % (tct, r.tap_side)) if tapped else "neutral")
        mis = ref.pop("star_mismatch")
        if abs(mis) > ptol * 3 + 1e-6 * max(abs(ref.get("p_hv_mw", 0)), abs(ref.get("q_hv_mvar", 0))):
            res.fail(cls + "/star-balance", element=int(idx), mismatch=[mis.real, mis.imag])
        for c, v in ref.items():
            tol = (1e-9, 1e-6) if c.startswith("i_") or c == "loading_percent" else (ptol, 1e-6)
            _cmp(res, cls + ("/current" if c.startswith("i_") or c == "loading_percent" else ""), "trafo3w%d.%s" % (idx, c), v,
                 net.res_trafo3w.at[idx, c], *tol)
    for idx in net.impedance.index:
        r = net.impedance.loc[idx]
        if not r.in_service or V[r.from_bus] is None or V[r.to_bus] is None:
            continue
        nontrivial = True
        ref = refmodel.impedance_model(net, idx, V[r.from_bus], V[r.to_bus])
        asym = r.rft_pu != r.rtf_pu or r.xft_pu != r.xtf_pu
        for c, v in ref.items():
            tol = (1e-9, 1e-6) if c.startswith("i_") else (ptol, 1e-6)
            _cmp(res, "impedance-model/%s" % ("asym" if asym else "sym"), "impedance%d.%s" % (idx, c), v, net.res_impedance.at[idx, c], *tol)
        res.label("impedance")
    if len(net.switch) and "p_from_mw" in net.res_switch:
        for idx in net.switch.index:
            s = net.switch.loc[idx]
            if s.et == "b" and s.closed and s.z_ohm > 0 and V.get(s.bus) is not None and V.get(s.element) is not None:
                ref = refmodel.switch_model(net, idx, V[s.bus], V[s.element], opt["switch_rx_ratio"])
                nontrivial = True
                res.label("impedance-switch")
                for c, v in ref.items():
                    tol = (1e-9, 1e-6) if c.startswith("i_") else (ptol, 1e-6)
                    _cmp(res, "switch-model", "switch%d.%s" % (idx, c), v, net.res_switch.at[idx, c], *tol)
    for idx in net.ward.index:
        r = net.ward.loc[idx]
        if r.in_service and V[r.bus] is not None:
            ref = refmodel.ward_model(net, idx, V[r.bus])
            for c, v in ref.items():
                _cmp(res, "ward-model", "ward%d.%s" % (idx, c), v, net.res_ward.at[idx, c], ptol, 1e-7)
    for idx in net.xward.index:
        r = net.xward.loc[idx]
        if r.in_service and V[r.bus] is not None:
            import cmath
            vmi, vai = net.res_xward.at[idx, "vm_internal_pu"], net.res_xward.at[idx, "va_internal_degree"]
            Vint = cmath.rect(vmi * net.bus.at[r.bus, "vn_kv"], math.radians(vai))
            ref = refmodel.xward_model(net, idx, V[r.bus], Vint)
            _cmp(res, "xward-model/internal-voltage", "xward%d.vm_internal" % idx, ref.pop("vm_internal_expected"), vmi, 1e-8, 0)
            for c, v in ref.items():
                _cmp(res, "xward-model", "xward%d.%s" % (idx, c), v, net.res_xward.at[idx, c], ptol, 1e-6)
            nontrivial = True
            res.label("xward")
    res.nontrivial = nontrivial
    return res


def check_dc(net, res, V, sn):
    """linear DC model: vm = 1, no losses, p_from = -p_to, flows = susceptance * angle difference"""
    ptol = 1e-6 * max(1.0, sn / 100.0)
    nontrivial = False
    for b in net.bus.index:
        vm = net.res_bus.at[b, "vm_pu"]
        if not math.isnan(vm) and abs(vm - 1.0) > 1e-12:
            res.fail("dc/vm-not-1", bus=int(b), vm=vm)
    for tab, ends in (("line", ("p_from_mw", "p_to_mw")), ("trafo", ("p_hv_mw", "p_lv_mw")), ("impedance", ("p_from_mw", "p_to_mw")),
                      ("trafo3w", ("p_hv_mw", "p_mv_mw", "p_lv_mw"))):
        for idx in net[tab].index:
            ps = [net["res_" + tab].at[idx, c] for c in ends]
            if any(math.isnan(x) for x in ps):
                continue
            if abs(sum(ps)) > ptol + 1e-9 * max(abs(x) for x in ps):
                res.fail("dc/branch-not-lossless/" + tab, element=int(idx), terminals=ps)
            pl = net["res_" + tab].at[idx, "pl_mw"]
            if abs(pl) > 1e-12:
                res.fail("dc/pl-nonzero/" + tab, element=int(idx), pl=pl)
    th = {b: (math.radians(net.res_bus.at[b, "va_degree"]) if not math.isnan(net.res_bus.at[b, "va_degree"]) else None) for b in net.bus.index}
    for idx in net.line.index:
        r = net.line.loc[idx]
        if not r.in_service or th[r.from_bus] is None or th[r.to_bus] is None:
            continue
        if ((net.switch.et == "l") & (net.switch.element == idx) & ~net.switch.closed).any():
            continue
        x = r.x_ohm_per_km * r.length_km / r.parallel
        p = (th[r.from_bus] - th[r.to_bus]) * net.bus.at[r.from_bus, "vn_kv"] ** 2 / x
        got = net.res_line.at[idx, "p_from_mw"]
        if abs(p - got) > ptol + 1e-7 * abs(p):
            res.fail("dc/line-flow", element=int(idx), reference=p, reported=got)
        nontrivial = True
    for idx in net.impedance.index:
        r = net.impedance.loc[idx]
        if not r.in_service or th[r.from_bus] is None or th[r.to_bus] is None:
            continue
        x = r.xft_pu * net.bus.at[r.from_bus, "vn_kv"] ** 2 / r.sn_mva
        p = (th[r.from_bus] - th[r.to_bus]) * net.bus.at[r.from_bus, "vn_kv"] ** 2 / x
        got = net.res_impedance.at[idx, "p_from_mw"]
        if abs(p - got) > ptol + 1e-7 * abs(p):
            res.fail("dc/impedance-flow", element=int(idx), reference=p, reported=got)
    for idx in net.trafo.index:
        r = net.trafo.loc[idx]
        if not r.in_service or th[r.hv_bus] is None or th[r.lv_bus] is None or r.i0_percent != 0 or r.pfe_kw != 0:
            continue
        if ((net.switch.et == "t") & (net.switch.element == idx) & ~net.switch.closed).any():
            continue
        vh, vl, sh = refmodel.tap_adjust(r.vn_hv_kv, r.vn_lv_kv, float(r.shift_degree), r.get("tap_changer_type"), r.get("tap_side"),
                                         r.get("tap_pos"), r.get("tap_neutral"), r.get("tap_step_percent"), r.get("tap_step_degree"))
        zk = r.vk_percent / 100 * vl ** 2 / r.sn_mva
        rk = r.vkr_percent / 100 * vl ** 2 / r.sn_mva
        xk = math.sqrt(zk ** 2 - rk ** 2) / r.parallel
        # per unit on the lv bus base, tap = ratio relative to the bus bases
        vb_h, vb_l = net.bus.at[r.hv_bus, "vn_kv"], net.bus.at[r.lv_bus, "vn_kv"]
        tap = (vh / vl) / (vb_h / vb_l)
        x_pu = xk / (vb_l ** 2 / sn)
        p = (th[r.hv_bus] - th[r.lv_bus] - math.radians(sh)) / (x_pu * tap) * sn
        got = net.res_trafo.at[idx, "p_hv_mw"]
        if abs(p - got) > ptol + 1e-7 * abs(p):
            res.fail("dc/trafo-flow", element=int(idx), reference=p, reported=got)
        nontrivial = True
        res.label("dc-trafo")
    res.nontrivial = nontrivial
    return res
