"""C32 - Characteristics interpolate through their support points (DESIGN.md sec. 2, C32).

Code under test: pandapower.control.util.characteristic.{Characteristic, SplineCharacteristic, LogSplineCharacteristic}
and their JSON serialisation (JSONSerializableClass.to_json/from_json, pandapower.to_json/from_json_string of a net).
"""
import copy
import math

from hypothesis import strategies as st

from pbt.core import Result, silence, exc_sig

ID = "C32"
LEVEL = "exploration"
EXAMPLES = {"quick": 24000, "thorough": 400000}
DEADLINE_S = {"quick": 900, "thorough": 3600}   # generous: the machine is shared (cap hit => inconclusive, never a violation)
RULE = ("Hypothesis draws a class (Characteristic / SplineCharacteristic / LogSplineCharacteristic), a constructor "
        "(__init__ or from_points) and container type (list / tuple / numpy array), 2-12 strictly increasing x values "
        "(spacings m*10^e, e in -6..6 at random per step for the shape-preserving kinds, within two decades for "
        "quadratic/cubic splines; LogSpline: positive x with multiplicative steps), y values arbitrary, increasing or "
        "decreasing (with occasional ties; LogSpline: positive), the interpolator (interp1d kinds linear, slinear, "
        "quadratic, cubic, nearest, previous, next, zero; Pchip; default) and fill behaviour (default, 'extrapolate', "
        "(y_left, y_right) tuple; Pchip extrapolate flag), and probe points (knots, 1e-9 next to knots, interior, outside the "
        "range). Oracle: (1) c(x_i) = y_i for scalar and vector calls; (2) for monotone y and shape-preserving "
        "interpolation (piecewise linear, Pchip, also in log-log space) every probe value lies between the neighbouring "
        "support values and the probe values are monotone; Characteristic is constant outside the range, a fill tuple is "
        "returned outside the range; (3) from_json(to_json()) of the object (and of the whole net in a minority of the "
        "cases, and a second generation) has the same class and support data and evaluates bit-identically on all probes, "
        "also after the cached _interpolator of either object is dropped. Non-trivial = >= 3 support points, at least one probe "
        "strictly inside an interval and the round trip was evaluated; distinct by case hash.")
ASSUMPTIONS = ["knot tolerance 1e-12*max|y| (linear, Pchip, step kinds), 1e-9*max|y| for quadratic/cubic splines whose knot spacings "
               "stay within a factor 100 (measured scipy collocation error 4e-10 at factor 1e4, 7 at 1e10: wider ratios are a "
               "conditioning limit of interp1d, not generated), LogSpline relative 1e-9",
               "bounds / monotonicity tolerance 1e-12*max|y| (LogSpline: relative 1e-10)",
               "serialisation must reproduce the values bit-identically (NaN == NaN)",
               "object-level serialisation uses a bare pandapowerNet container (the classes only need net['characteristic'])"]

STEP_KINDS = ("nearest", "previous", "next", "zero")
LINEAR_KINDS = ("linear", "slinear")
SMOOTH_KINDS = ("quadratic", "cubic")
NEED = {"linear": 2, "slinear": 2, "nearest": 2, "previous": 2, "next": 2, "zero": 2, "quadratic": 3, "cubic": 4,
        "Pchip": 2, "default": 3}
FRACS = [0.0, 1.0, 0.5, 1e-9, 1.0 - 1e-9, 0.25, 0.9, 1e-3]
_BASE = []


# ------------------------------------------------------------------------------------------------ strategy

def _mant():
    return st.integers(100, 999).map(lambda m: m / 100.0)


@st.composite
def _case(draw, tier):
    cls = draw(st.sampled_from(["Characteristic", "Spline", "Spline", "LogSpline"]))
    case = {"cls": cls, "ctor": draw(st.sampled_from(["init", "init", "from_points"])),
            "container": draw(st.sampled_from(["list", "list", "tuple", "array"]))}
    if cls == "Characteristic":
        kind = "piecewise-linear"
    elif cls == "Spline":
        kind = draw(st.sampled_from(["default", "linear", "quadratic", "cubic", "Pchip", "Pchip", "slinear", "nearest",
                                     "previous", "next", "zero"]))
    else:
        kind = draw(st.sampled_from(["Pchip", "Pchip", "default", "linear", "quadratic", "cubic"]))
    case["kind"] = kind
    n = draw(st.integers(max(2, NEED.get(kind, 2)), 12))
    smooth = kind in SMOOTH_KINDS or kind == "default"
    # ---- x
    xs = []
    if cls == "LogSpline":
        x = draw(_mant()) * 10.0 ** draw(st.integers(-6, 3))
        lo_step, hi_step = (5, 200) if not smooth else (10, 100)      # hundredths of a decade
        for _ in range(n):
            xs.append(float("%.12g" % x))
            x = x * 10.0 ** (draw(st.integers(lo_step, hi_step)) / 100.0)
    else:
        e0 = draw(st.integers(-6, 4 if smooth else 6))
        x = draw(st.sampled_from([0.0, 0.0, 1.0, -1.0, -7.5, 3.25])) * 10.0 ** e0
        for _ in range(n):
            xs.append(float("%.15g" % x))
            e = e0 + draw(st.integers(0, 2)) if smooth else draw(st.integers(-6, 6))
            x = x + draw(_mant()) * 10.0 ** e
    for i in range(1, n):       # rounding must keep x strictly increasing
        if not xs[i] > xs[i - 1]:
            xs[i] = math.nextafter(xs[i - 1], math.inf)
    # ---- y
    shape = draw(st.sampled_from(["inc", "dec", "any", "any"]))
    ey = draw(st.integers(-3, 6))
    ys = []
    for _ in range(n):
        if cls == "LogSpline":
            ys.append(draw(_mant()) * 10.0 ** (ey + draw(st.integers(-3, 3)) - 3))
        else:
            v = draw(st.integers(-999, 999)) / 100.0 * 10.0 ** (ey - draw(st.integers(0, 3)))
            ys.append(v)
    if shape != "any":
        ys = sorted(ys, reverse=(shape == "dec"))
        if draw(st.integers(0, 3)) == 0 and n > 2:
            j = draw(st.integers(0, n - 2))
            ys[j + 1] = ys[j]                  # a tie (flat segment)
    ys = [float("%.12g" % v) for v in ys]
    if shape != "any":
        ys = sorted(ys, reverse=(shape == "dec"))
    case["x"], case["y"], case["shape"] = xs, ys, shape
    # ---- fill / extrapolation
    if cls == "Characteristic":
        case["fill"] = "default"
    elif kind == "Pchip":
        case["fill"] = draw(st.sampled_from(["default", "default", "extrapolate_true", "extrapolate_false"]))
    else:
        case["fill"] = draw(st.sampled_from(["default", "extrapolate", "tuple"]))
        if kind in STEP_KINDS and case["fill"] == "extrapolate" and kind in ("nearest",):
            case["fill"] = "tuple"
    case["fill_values"] = [draw(st.integers(1, 999)) / 10.0, draw(st.integers(1, 999)) / 7.0]
    # ---- probes: [interval, fraction index or free fraction]
    probes = []
    for _ in range(draw(st.integers(4, 16))):
        i = draw(st.integers(-1, n - 1))
        if draw(st.booleans()):
            probes.append([i, FRACS[draw(st.integers(0, len(FRACS) - 1))]])
        else:
            probes.append([i, draw(st.integers(1, 999)) / 1000.0])
    case["probes"] = probes
    case["ser"] = "net" if draw(st.integers(0, 99)) == 57 else "object"   # whole-net round trip costs 0.5 s
    case["call_before"] = draw(st.booleans())
    return case


def strategy(tier):
    return _case(tier)


# ------------------------------------------------------------------------------------------------ check

def _empty_net():
    if not _BASE:
        import pandapower as pp
        _BASE.append(pp.create_empty_network())
    return copy.deepcopy(_BASE[0])


def _container(vals, kind):
    import numpy as np
    if kind == "tuple":
        return tuple(vals)
    if kind == "array":
        return np.array(vals, dtype=float)
    return list(vals)


def _build(case, net):
    from pandapower.control.util import characteristic as ch
    cls = {"Characteristic": ch.Characteristic, "Spline": ch.SplineCharacteristic, "LogSpline": ch.LogSplineCharacteristic}[case["cls"]]
    kw = {}
    kind = case["kind"]
    if case["cls"] != "Characteristic":
        if kind == "Pchip":
            kw["interpolator_kind"] = "Pchip"
            if case["fill"] == "extrapolate_true":
                kw["extrapolate"] = True
            elif case["fill"] == "extrapolate_false":
                kw["extrapolate"] = False
        else:
            if kind != "default":
                kw["kind"] = kind
            if case["fill"] == "extrapolate":
                kw["fill_value"] = "extrapolate"
            elif case["fill"] == "tuple":
                fv = case["fill_values"]
                kw["fill_value"] = (fv[0], fv[1])
    if case["ctor"] == "from_points":
        pts = list(zip(case["x"], case["y"]))
        if case["container"] == "tuple":
            pts = tuple(pts)
        return cls.from_points(net, pts, **kw), cls
    xc, yc = _container(case["x"], case["container"]), _container(case["y"], case["container"])
    _LAST_INPUTS[:] = [xc, yc]
    return cls(net, xc, yc, **kw), cls


_LAST_INPUTS = []


def _ev(c, p):
    """scalar evaluation -> python float; exceptions propagate"""
    import numpy as np
    v = c(p)
    return float(np.asarray(v).reshape(-1)[0])


def _same(a, b):
    return (math.isnan(a) and math.isnan(b)) or a == b


def check(case):
    import numpy as np
    from pandapower.auxiliary import pandapowerNet
    res = Result()
    cls_name, kind, xs, ys = case["cls"], case["kind"], case["x"], case["y"]
    n = len(xs)
    log = cls_name == "LogSpline"
    res.label("cls:" + cls_name, "kind:" + kind, "y:" + case["shape"], "ctor:" + case["ctor"], "container:" + case["container"],
              "fill:" + case["fill"], "ser:" + case["ser"])
    net = _empty_net() if case["ser"] == "net" else pandapowerNet({"name": "c32"})
    try:
        with silence():
            c, cls = _build(case, net)
    except Exception as e:
        res.fail("constructor-exc/%s/%s" % (cls_name, exc_sig(e)), msg=str(e)[:200])
        return res
    # the support data handed over by the caller must not be modified by the object
    if len(_LAST_INPUTS) == 2 and case["ctor"] != "from_points":
        for nm, given, orig in (("x", _LAST_INPUTS[0], xs), ("y", _LAST_INPUTS[1], ys)):
            now = [float(v) for v in np.asarray(given, dtype=float).reshape(-1)]
            if now != [float(v) for v in orig]:
                res.fail("caller-data-modified/%s/%s" % (cls_name, case["container"]), which=nm, before=list(orig)[:4], after=now[:4])
    scale = max(abs(v) for v in ys) or 1.0
    smooth = kind in SMOOTH_KINDS or kind == "default"
    ktol = (1e-9 if smooth else 1e-12) * scale

    def tol_at(v):
        return (1e-9 if smooth else 1e-10) * abs(v) if log else ktol

    # ---- probe points
    span = xs[-1] - xs[0]
    probes = []
    for i, f in case["probes"]:
        if i < 0:
            p = xs[0] / (1.0 + 3 * f + 1e-3) if log else xs[0] - (f + 1e-3) * span
            probes.append((p, -1))
        elif i >= n - 1:
            p = xs[-1] * (1.0 + 3 * f + 1e-3) if log else xs[-1] + (f + 1e-3) * span
            probes.append((p, n - 1))
        else:
            p = xs[i] + f * (xs[i + 1] - xs[i])
            p = min(max(p, xs[i]), xs[i + 1])
            probes.append((p, i))
    if case["call_before"]:
        res.label("called-before-serialisation")

    # ---- (1) support points, scalar and vector call
    try:
        with silence():
            knots_s = [_ev(c, x) for x in xs] if case["call_before"] else None
            knots_v = [float(v) for v in np.asarray(c(np.array(xs, dtype=float))).reshape(-1)]
            if knots_s is None:
                knots_s = [_ev(c, x) for x in xs]
            vals = [_ev(c, p) for p, _ in probes]
    except Exception as e:
        res.fail("evaluation-exc/%s/%s/%s" % (cls_name, kind, exc_sig(e)), msg=str(e)[:200])
        return res
    for nm, got in (("scalar", knots_s), ("vector", knots_v)):
        bad = [(xs[i], ys[i], got[i]) for i in range(n) if not abs(got[i] - ys[i]) <= tol_at(ys[i])]
        if len(got) != n or bad:
            res.fail("support-point-not-reproduced/%s/%s/%s" % (cls_name, kind, nm), first=bad[:3], n=n, tol=ktol)
            break

    # ---- (2) shape
    mono = case["shape"] != "any"
    shape_preserving = cls_name == "Characteristic" or kind in LINEAR_KINDS or kind == "Pchip" or kind in STEP_KINDS
    interior = False
    if mono and shape_preserving:
        res.label("shape-clause")
    for (p, i), v in zip(probes, vals):
        if 0 <= i < n - 1:
            if xs[i] < p < xs[i + 1]:
                interior = True
            if mono and shape_preserving:
                lo, hi = min(ys[i], ys[i + 1]), max(ys[i], ys[i + 1])
                if not (lo - tol_at(lo) <= v <= hi + tol_at(hi)):
                    res.fail("outside-neighbouring-support-values/%s/%s" % (cls_name, kind), x=p, value=v,
                             interval=[xs[i], xs[i + 1]], support=[ys[i], ys[i + 1]])
                    break
        else:
            res.label("probe-outside-range")
            edge = ys[0] if i < 0 else ys[-1]
            if cls_name == "Characteristic" and not abs(v - edge) <= tol_at(edge):
                res.fail("not-constant-outside-range/Characteristic", x=p, value=v, expected=edge)
                break
            if case["fill"] == "tuple":
                fv = case["fill_values"][0 if i < 0 else 1]
                exp = 10.0 ** fv if log else fv
                if not abs(v - exp) <= 1e-12 * abs(exp):
                    res.fail("fill-value-not-returned/%s/%s" % (cls_name, kind), x=p, value=v, expected=exp)
                    break
            if case["fill"] == "extrapolate_false" and not math.isnan(v):
                res.fail("extrapolate-false-ignored/%s" % cls_name, x=p, value=v)
                break
    if mono and shape_preserving:
        inside = sorted((p, v) for (p, i), v in zip(probes, vals) if 0 <= i < n - 1)
        inside += []
        sign = 1.0 if case["shape"] == "inc" else -1.0
        for (p1, v1), (p2, v2) in zip(inside, inside[1:]):
            if p1 < p2 and sign * (v2 - v1) < -(tol_at(v1) + tol_at(v2)):
                res.fail("not-monotone-for-monotone-data/%s/%s" % (cls_name, kind), x1=p1, v1=v1, x2=p2, v2=v2)
                break

    # ---- (3) serialisation
    pts = [p for p, _ in probes] + list(xs)
    ref = vals + knots_s
    try:
        with silence():
            if case["ser"] == "net":
                import pandapower as pp
                net2 = pp.from_json_string(pp.to_json(net))
                c2 = net2.characteristic.object.at[c.index]
            else:
                c2 = cls.from_json(c.to_json())
            c3 = type(c2).from_json(c2.to_json())
            loaded = [("loaded", c2), ("loaded-twice", c3)]
            out = {}
            for nm, obj in loaded:
                out[nm] = [_ev(obj, p) for p in pts]
                if hasattr(obj, "_interpolator"):
                    del obj._interpolator
                    out[nm + "/interpolator-dropped"] = [_ev(obj, p) for p in pts]
            if hasattr(c, "_interpolator"):
                del c._interpolator
                out["original/interpolator-dropped"] = [_ev(c, p) for p in pts]
    except Exception as e:
        res.fail("serialisation-exc/%s/%s/%s" % (cls_name, case["ser"], exc_sig(e)), msg=str(e)[:200])
        return res
    if type(c2) is not cls:
        res.fail("serialisation/class-changed/%s" % cls_name, got=type(c2).__name__)
    for nm, obj in loaded:
        try:
            same_data = np.array_equal(np.asarray(obj.x_vals, dtype=float), np.asarray(c.x_vals, dtype=float)) and \
                np.array_equal(np.asarray(obj.y_vals, dtype=float), np.asarray(c.y_vals, dtype=float))
        except Exception as e:
            same_data = False
        if not same_data:
            res.fail("serialisation/support-data-changed/%s/%s" % (cls_name, nm), x=list(np.asarray(obj.x_vals).reshape(-1))[:4])
            break
    for nm, got in out.items():
        bad = [(pts[j], ref[j], got[j]) for j in range(len(pts)) if not _same(ref[j], got[j])]
        if bad:
            res.fail("serialisation/values-differ/%s/%s/%s" % (cls_name, kind, nm), first=bad[:3], fill=case["fill"])
            break
    res.nontrivial = n >= 3 and interior
    return res
