"""C06 - All power flow algorithms and back-ends agree on the solution (DESIGN.md sec. 2, C06)."""
import copy
import math

import numpy as np

from hypothesis import strategies as st

from pbt import netgen, oracles
from pbt.core import Result, silence, pf_outcome, exc_sig
from pbt.props.c07 import reachable_buses
from pbt.props.c01 import SINGLE_SLACK_PROFILE

ID = "C06"
LEVEL = "exploration"
EXAMPLES = {"quick": 480, "thorough": 12000}
SHRINK_S = {"quick": 40, "thorough": 120}
RULE = ("Hypothesis draws a network recipe (radial, weakly meshed, multi-island with one slack per island, PV buses, phase "
        "shifters, ZIP loads only when every drawn algorithm documents support) and 2-3 alternative solver configurations from "
        "algorithm {nr, iwamoto_nr, bfsw, gs, fdbx, fdxb} x numba on/off x lightsim2grid False/auto/True x init flat/dc/results "
        "(results = after a run with loads scaled by 0.9). Reference = nr, numba=False, lightsim2grid=False. Oracle "
        "(differential): every alternative that returns agrees with the reference on all result tables (vm 1e-6, powers 1e-4 MVA "
        "scaled); bfsw on a network with <=3 loops per island must not raise anything but LoadflowNotConverged. "
        "Non-trivial = >=1 alternative returned on a network with a PV bus, a loop or >=2 supplied islands; distinct by case hash.")
ASSUMPTIONS = ["cases in which either run reports a bus voltage below 0.5 or above 1.5 p.u. (second, non-physical solution of the power "
               "flow equations) are counted and not compared; init='flat' with angles and phase shifts > 30 degrees is replaced by 'dc'",
               "LoadflowNotConverged / NotImplementedError / UserWarning of an alternative are legal outcomes",
               "voltage-dependent loads are switched off when a pypower algorithm (gs, fdbx, fdxb) takes part",
               "per-generator q is compared as sum per node; solver accuracy 1e-8 MVA (tolerance_mva = 1e-8/sn_mva), comparison 1e-4 MVA, currents and loadings with the power tolerance expressed at the lowest voltage level / smallest rating; gs max_iteration 20000"]

PROFILE = netgen.profile(oos=0.04, open_prob=0.2, dcline=False, second_slack=False, nb_max=9, max_per_bus=2, slack_any_level=True, bus_order=True,
                         extra_branches=(0, 2), trafo_parallel_pair=True,
                         bus_kinds={"load": 6, "sgen": 3, "gen": 2, "storage": 1, "shunt": 1, "ward": 1, "xward": 0, "motor": 0,
                                    "asymmetric_load": 0, "asymmetric_sgen": 0})
ALGOS = ["nr", "iwamoto_nr", "bfsw", "bfsw", "gs", "fdbx", "fdxb"]


@st.composite
def _case(draw, tier):
    if draw(st.integers(0, 9)) == 0:
        # networks on which the default configuration takes its "single slack" result shortcut (one ext_grid, no gens, no
        # susceptance at any bus, no voltage dependent loads): compared with the configurations that do not take it
        recipe = draw(netgen.grid(SINGLE_SLACK_PROFILE))
        for e in recipe["el"]:
            if e["t"] == "line":
                e["c_nf_per_km"] = 0.0
                e.pop("g_us_per_km", None)
            if e["t"] == "trafo":
                e["i0_percent"], e["pfe_kw"] = 0.0, 0.0
            if e["t"] == "impedance":
                for k in ("gf_pu", "bf_pu", "gt_pu", "bt_pu"):
                    e.pop(k, None)
        alts = [{"algorithm": "nr", "numba": True, "init": "auto", "lightsim2grid": draw(st.sampled_from([False, "auto"]))},
                {"algorithm": draw(st.sampled_from(["nr", "bfsw", "gs", "fdbx"])), "numba": draw(st.booleans()), "init": "auto"}]
        if alts[1]["algorithm"] == "nr":
            alts[1]["lightsim2grid"] = False
        return {"recipe": recipe, "alts": alts, "angles": draw(st.booleans()), "vdl": False}
    recipe = draw(netgen.grid(PROFILE))
    # optional second island with its own slack
    if draw(st.integers(0, 3)) == 0:
        vn = recipe["buses"][-1]["vn_kv"]
        n0 = len(recipe["buses"])
        k = draw(st.integers(2, 3))
        recipe["buses"] += [{"vn_kv": vn} for _ in range(k)]
        for j in range(1, k):
            d = draw(netgen.line_params(vn, PROFILE))
            d.update(from_bus=n0 + j - 1, to_bus=n0 + j)
            recipe["el"].append(d)
        if k == 3 and draw(st.booleans()):
            d = draw(netgen.line_params(vn, PROFILE))
            d.update(from_bus=n0, to_bus=n0 + 2)
            recipe["el"].append(d)
        recipe["el"].append({"t": "ext_grid", "bus": n0, "vm_pu": 1.01, "va_degree": 0.0})
        recipe["el"].append(dict(draw(netgen.bus_element("load", vn, PROFILE)), bus=n0 + k - 1))
    alts = []
    for _ in range(draw(st.integers(2, 3))):
        a = {"algorithm": draw(st.sampled_from(ALGOS)), "numba": draw(st.booleans()),
             "init": draw(st.sampled_from(["flat", "dc", "results", "auto"]))}
        if a["algorithm"] == "nr":
            a["lightsim2grid"] = draw(st.sampled_from([False, "auto", True]))
        alts.append(a)
    return {"recipe": recipe, "alts": alts, "angles": draw(st.sampled_from([True, True, False]))}


def strategy(tier):
    return _case(tier)


def loops_per_island(recipe):
    """max cyclomatic number over the supplied islands (in-service closed branches), own union-find"""
    nb = len(recipe["buses"])
    par = list(range(nb + 50))
    extra = [nb]

    def find(a):
        while par[a] != a:
            par[a] = par[par[a]]
            a = par[a]
        return a
    edges = []
    bus_is = [b.get("in_service", True) for b in recipe["buses"]]
    open_sw = {(e["et"], e["element"]) for e in recipe["el"] if e["t"] == "switch" and e["et"] != "b" and not e["closed"]}
    cnt = {"line": 0, "trafo": 0, "trafo3w": 0}
    for e in recipe["el"]:
        t = e["t"]
        if t in cnt:
            k = cnt[t]
            cnt[t] += 1
        if not e.get("in_service", True):
            continue
        if t == "line" and ("l", k) not in open_sw:
            edges.append((e["from_bus"], e["to_bus"]))
        elif t == "trafo" and ("t", k) not in open_sw:
            edges.append((e["hv_bus"], e["lv_bus"]))
        elif t == "trafo3w" and ("t3", k) not in open_sw:
            s = extra[0]
            extra[0] += 1
            edges += [(e["hv_bus"], s), (e["mv_bus"], s), (e["lv_bus"], s)]
        elif t == "impedance":
            edges.append((e["from_bus"], e["to_bus"]))
        elif t == "switch" and e["et"] == "b" and e["closed"] and e.get("z_ohm", 0) > 0:
            edges.append((e["bus"], e["element"]))
        elif t == "switch" and e["et"] == "b" and e["closed"]:
            par[find(e["bus"])] = find(e["element"])
    edges = [(find(a), find(b)) for a, b in edges if (a >= nb or bus_is[a]) and (b >= nb or bus_is[b])]
    loops = 0
    comp = list(range(nb + 50))

    def f2(a):
        while comp[a] != a:
            comp[a] = comp[comp[a]]
            a = comp[a]
        return a
    per = {}
    for a, b in edges:
        ra, rb = f2(a), f2(b)
        if ra == rb:
            per[ra] = per.get(ra, 0) + 1
        else:
            comp[ra] = rb
            per[rb] = per.get(rb, 0) + per.pop(ra, 0)
    return max(per.values()) if per else 0


def run(net, opts, sn, angles, vdl):
    import pandapower as pp
    o = dict(opts)
    alg = o.get("algorithm", "nr")
    init = o.pop("init", "auto")
    tol = 1e-8 / sn       # absolute accuracy 1e-8 MVA (the criterion is applied to the p.u. mismatch)
    mi = {"nr": 40, "iwamoto_nr": 40, "bfsw": 300, "gs": 20000, "fdbx": 300, "fdxb": 300}[alg]
    if init == "results":
        # previous results of a nearby state: all loads scaled by 0.9
        sc = net.load.scaling.copy()
        net.load["scaling"] = sc * 0.9
        with silence():
            pp.runpp(net, calculate_voltage_angles=angles, voltage_depend_loads=vdl, tolerance_mva=tol, numba=False, lightsim2grid=False)
        net.load["scaling"] = sc
    with silence():
        pp.runpp(net, calculate_voltage_angles=angles, voltage_depend_loads=vdl, tolerance_mva=tol, max_iteration=mi, init=init, **o)


def tap_phase_shift(recipe):
    """an in-service transformer whose tap changer (not its vector group) adds a phase angle in its present position"""
    for e in recipe["el"]:
        if e["t"] in ("trafo", "trafo3w") and e.get("in_service", True) and e.get("tap_changer_type") \
                and e.get("tap_pos", 0) != e.get("tap_neutral", 0) \
                and (e["tap_changer_type"] == "Ideal" or e.get("tap_step_degree", 0.0) != 0.0):
            return True
    return False


def is_other_solution(alt, ref, sn, angles, vdl):
    """True if the (differing) result of `alt` is a root of the power flow equations as well: the complex voltages of all
    internal buses (incl. the auxiliary buses, which the result tables do not show) satisfy V*conj(Ybus*V) = Sbus(|V|) at the
    PQ buses and its real part at the PV buses within 1e-6 p.u.; if the internal data are not available: Newton-Raphson
    started from the result tables converges at once to the same voltages."""
    import pandapower as pp
    # only a different point counts: with the same bus voltages as the reference, differing results are an extraction error
    ok = ~(np.isnan(alt.res_bus.vm_pu.values) | np.isnan(ref.res_bus.vm_pu.values))
    dv = np.abs(alt.res_bus.vm_pu.values[ok] - ref.res_bus.vm_pu.values[ok])
    da = np.abs((alt.res_bus.va_degree.values[ok] - ref.res_bus.va_degree.values[ok] + 180.0) % 360.0 - 180.0)
    same = not ok.any() or (dv.max() < 1e-5 and np.nanmax(da) < 1e-3)
    try:    # auxiliary buses (open-ended branches, star points) are only visible in the internal voltage vector
        Va, Vr = np.asarray(alt._ppc["internal"]["V"]), np.asarray(ref._ppc["internal"]["V"])
        if same and Va.shape == Vr.shape and np.abs(Va - Vr).max() > 1e-5:
            same = False
    except Exception:
        pass
    if same:
        return False
    internal = alt._ppc.get("internal", {}) if alt._ppc is not None else {}
    if all(k in internal for k in ("V", "Ybus", "bus", "gen", "baseMVA", "pv", "pq")):
        from pandapower.pypower.makeSbus import makeSbus
        V = np.asarray(internal["V"])
        Sbus = makeSbus(internal["baseMVA"], internal["bus"], internal["gen"], vm=np.abs(V) if vdl else None)
        mis = V * np.conj(internal["Ybus"] @ V) - Sbus
        pv, pq = np.asarray(internal["pv"], dtype=int), np.asarray(internal["pq"], dtype=int)
        F = np.r_[mis[pv].real, mis[pq].real, mis[pq].imag]
        return bool(len(F) == 0 or np.abs(F).max() < 1e-6)
    net = copy.deepcopy(alt)
    vm0, va0 = net.res_bus.vm_pu.values.copy(), net.res_bus.va_degree.values.copy()
    try:
        with silence():
            pp.runpp(net, calculate_voltage_angles=angles, voltage_depend_loads=vdl, tolerance_mva=1e-8 / sn, init="results",
                     max_iteration=3, numba=False, lightsim2grid=False)
    except Exception:
        return False
    ok = ~np.isnan(vm0)
    if not np.array_equal(ok, ~np.isnan(net.res_bus.vm_pu.values)):
        return False
    dvm = np.abs(net.res_bus.vm_pu.values[ok] - vm0[ok]).max() if ok.any() else 0.0
    dva = np.abs(net.res_bus.va_degree.values[ok] - va0[ok]).max() if ok.any() else 0.0
    return bool(dvm < 1e-7 and dva < 1e-5)


def compare(ref, alt, sn):
    atol_s = 1e-4     # MVA
    cur_cols = tuple(c for t in oracles.res_tables(ref) for c in ref[t].columns if c.startswith("i_") or c == "loading_percent")
    diffs = oracles.compare_results(ref, alt, atol=atol_s, rtol=1e-6, angle_tol=1e-4,
                                    tables=[t for t in oracles.res_tables(ref) if t not in ("res_gen", "res_ext_grid")],
                                    skip_cols=cur_cols)
    # currents / loadings: the power tolerance expressed as a current at the lowest voltage level (and as a loading of the
    # smallest rating); relative 1e-5
    vmin = float(ref.bus.vn_kv.min())
    atol_i = atol_s / (math.sqrt(3) * vmin)
    for t in oracles.res_tables(ref):
        for c in ref[t].columns:
            if not (c.startswith("i_") or c == "loading_percent") or c not in alt[t].columns:
                continue
            if c == "loading_percent":
                el = t[4:]
                if el == "line":
                    a = 100 * atol_i / float((ref.line.max_i_ka * ref.line.df * ref.line.parallel).min())
                elif el == "trafo":
                    a = 100 * atol_s / float(ref.trafo.sn_mva.min())
                elif el == "trafo3w":
                    a = 100 * atol_s / float(ref.trafo3w[["sn_hv_mva", "sn_mv_mva", "sn_lv_mva"]].min().min())
                else:
                    a = 1e-3
            else:
                a = atol_i
            x, y = ref[t][c].values.astype(float), alt[t][c].values.astype(float)
            for i in range(len(x)):
                if math.isnan(x[i]) and math.isnan(y[i]):
                    continue
                if math.isnan(x[i]) != math.isnan(y[i]) or abs(x[i] - y[i]) > a + 1e-5 * max(abs(x[i]), abs(y[i])):
                    diffs.append("%s.%s[%s]: %r vs %r (tol %.3g)" % (t, c, ref[t].index[i], x[i], y[i], a))
                    break
    # voltages tighter
    for b in ref.res_bus.index:
        a, c = ref.res_bus.at[b, "vm_pu"], alt.res_bus.at[b, "vm_pu"]
        if not (math.isnan(a) and math.isnan(c)) and not abs(a - c) <= 1e-6:
            diffs.append("res_bus.vm_pu[%s]: %r vs %r" % (b, a, c))
    node = oracles.fused_nodes(ref)
    for t in ("gen", "ext_grid"):
        sa, sb = {}, {}
        for i in ref[t].index:
            n = node[ref[t].at[i, "bus"]]
            for s, net in ((sa, ref), (sb, alt)):
                p, q = net["res_" + t].at[i, "p_mw"], net["res_" + t].at[i, "q_mvar"]
                s[n] = s.get(n, 0j) + complex(0 if math.isnan(p) else p, 0 if math.isnan(q) else q)
        for n in sa:
            if abs(sa[n] - sb[n]) > 2e-4 * max(1.0, sn / 100.0) + 1e-6 * abs(sa[n]):
                diffs.append("sum res_%s at node %s: %r vs %r" % (t, n, sa[n], sb[n]))
    return diffs


def check(case):
    import pandapower as pp
    res = Result()
    recipe = case["recipe"]
    sn = recipe.get("sn_mva", 1.0)
    angles = case["angles"]
    pyp = any(a["algorithm"] in ("gs", "fdbx", "fdxb") for a in case["alts"])
    vdl = (not pyp) and case.get("vdl", True)
    if "vdl" in case:
        res.label("single-slack-shortcut-network")
    ref, maps = netgen.build(recipe)
    try:
        run(ref, {"algorithm": "nr", "numba": False, "lightsim2grid": False, "init": "dc" if angles else "flat"}, sn, angles, vdl)
    except Exception as e:
        kind, what = pf_outcome(e)
        if kind == "skip":
            res.skipped = "reference-" + what
        else:
            res.fail(what, error=repr(e)[:300])
        return res
    loops = loops_per_island(recipe)
    reach, slacks = reachable_buses(recipe)
    has_pv = any(e["t"] == "gen" and not e.get("slack") and e.get("in_service", True) and e["bus"] in reach for e in recipe["el"])
    interesting = has_pv or loops > 0 or len(slacks) > 1
    res.label("loops:%d" % min(loops, 4))
    top = max(b["vn_kv"] for b in recipe["buses"])
    lv_fed = any(e["t"] == "ext_grid" and recipe["buses"][e["bus"]]["vn_kv"] < top for e in recipe["el"][:len(recipe["el"])])
    if lv_fed:
        res.label("slack-below-top-level")
    if has_pv:
        res.label("pv-bus")
    if len(slacks) > 1:
        res.label("multi-island")
    returned = 0
    big_shift = angles and any(abs(e.get(k, 0.0)) > 30 for e in recipe["el"] if e["t"] in ("trafo", "trafo3w")
                               for k in ("shift_degree", "shift_mv_degree", "shift_lv_degree"))
    for a in case["alts"]:
        alg = a["algorithm"]
        if a["init"] == "flat" and big_shift:
            # documented: a flat start with voltage angles "might lead to non-convergence"; with phase shifts > 30 degrees it
            # is not a start in the vicinity of the solution (Newton may reach a spurious low-voltage solution): use "dc"
            a = dict(a, init="dc")
            res.label("flat-start-replaced-by-dc(big shift)")
        name = alg + ("+ls2g:%s" % a["lightsim2grid"] if "lightsim2grid" in a else "")
        net, _ = netgen.build(recipe)
        try:
            run(net, a, sn, angles, vdl)
        except Exception as e:
            kind, what = pf_outcome(e)
            if kind == "skip":
                res.label("alt-%s:%s" % (alg, what.split(":")[0]))
                continue
            if alg == "bfsw" and loops > 3:
                res.label("bfsw-heavily-meshed-error")
                continue
            res.fail("%s/%s" % (alg, what), options=a, error=repr(e)[:300], loops=loops, islands=len(slacks))
            continue
        returned += 1
        res.label("alt-%s:returned" % alg)
        if alg == "bfsw" and lv_fed and angles:
            res.label("bfsw-returned/fed-from-lower-level+angles")
        if a["init"] == "results":
            res.label("init-results")
        lo = min(ref.res_bus.vm_pu.min(), net.res_bus.vm_pu.min())
        hi = max(ref.res_bus.vm_pu.max(), net.res_bus.vm_pu.max())
        if lo < 0.5 or hi > 1.5:
            # the power flow equations have several solutions; far from the operating range Newton's method may reach a
            # low-voltage one depending on the start. Not a disagreement of the solvers on "the" solution: counted, not compared
            res.label("degenerate-solution-skipped")
            continue
        diffs = compare(ref, net, sn)
        if diffs and is_other_solution(net, ref, sn, angles, vdl):
            # the alternative returned a point that satisfies the power flow equations, too (Newton started from it stays
            # there): the equations have several solutions, which one an iteration reaches is not a property of the code
            res.label("other-valid-solution-skipped:" + alg)
            continue
        if diffs:
            if alg == "bfsw" and loops > 0 and tap_phase_shift(recipe):
                kind = "/tap-phase-shift-in-meshed-network"
            else:
                kind = "/init-results" if a["init"] == "results" else ""
            res.fail("%s/results-differ%s" % (name, kind), options=a, diffs=diffs[:6])
    res.nontrivial = returned >= 1 and interesting
    return res
