"""C25 - standard types are applied completely and consistently (DESIGN.md sec. 2, C25).

Generator: pbt/c25_gen.py (exhaustive enumeration of the built-in types + Hypothesis-drawn type dictionaries).
Oracles (i)-(iv) as in the design; see RULE.
"""
import copy
import inspect
import math

from pbt import c25_gen as G
from pbt import oracles
from pbt.core import Result, silence, exc_sig, pf_outcome

ID = "C25"
LEVEL = "exploration"
EXHAUSTIVE = True          # the enumerate_cases part: every built-in type of every element in every table state
EXAMPLES = {"quick": 1400, "thorough": 30000}
SHRINK_S = {"quick": 10, "thorough": 40}
DEADLINE_S = {"quick": 900, "thorough": 3000}
RULE = ("enumerate_cases (exhaustive): each of the 75 built-in line/line_dc/trafo/trafo3w types in each of 4 states of the "
        "element table (empty; one element of another type; one element created from parameters with every optional "
        "column; after add_temperature_coefficient + add_zero_impedance_parameters) and each of the 31 built-in fuse types. "
        "strategy: Hypothesis draws a type dictionary (required parameters of required_std_type_parameters + optional "
        "documented ones: type, q_mm2, alpha, voltage_rating, g_us_per_km, complete zero-sequence line data, "
        "endtemp_degree; vector_group, complete tap changer set, second tap changer, complete zero-sequence trafo data, "
        "additional free parameter; fuse curves avg or min/total), a type name (1 in 10 overwrites a built-in name), the "
        "old type of the element (built-in with the same rated voltages or generated), the table state, element arguments "
        "(length, parallel, df, tap position, max_loading_percent, temperature) and a calculation. "
        "Oracle (i) after create_<element>(std_type=name): every type key that is required or a column of the table has "
        "cell == type value (trafo3w.vector_group exempt); (ii) runpp / calc_sc (3ph, and 1ph when all zero-sequence data is "
        "there; max or min case) on the net with the std-type element equal the results of the same net with "
        "create_*_from_parameters(**type values that the function's signature names) - skipped when rule (i) already "
        "failed for the case (same root cause); line temperature only after add_temperature_coefficient / with explicit "
        "columns, endtemp_degree for the min case through parameter_from_std_type when create_line made no column; "
        "(iii) element created with the old "
        "type + change_std_type(new): every type key that is a column after direct creation is a column with the same "
        "value, std_type == new name, all other cells of the row and all other rows unchanged; (iv) create_std_type -> "
        "load_std_type == data, std_type_exists, row of available_std_types; overwrite=False keeps, missing required parameter is rejected; "
        "copy_std_types into an empty net -> load == data; rename_std_type -> load(new) == data, old gone, std_type cells "
        "renamed; delete_std_type -> gone, second delete / load raise UserWarning; the type dictionary is not modified by "
        "any of the above. Fuse: Fuse(fuse_type=name) has rated_i_a == i_rated_a, the documented curve (avg, else "
        "min/total by curve_select) as characteristic, trips at the tabulated points with the tabulated time, and behaves "
        "as a Fuse built with explicit rated_i_a + create_characteristic. "
        "Non-trivial = the element was created from the type, the type has >= 1 optional parameter and >= 1 calculation "
        "(or the fuse characteristic) was compared on converged results; distinct by case hash.")
ASSUMPTIONS = ["cells compared exactly (values are copied); results of std-type net vs explicit net within 1e-9 abs / 1e-9 rel",
               "type keys that are never columns (q_mm2, voltage_rating, weight_t, trafo_characteristic_table, alpha / "
               "endtemp_degree without column) are outside rule (i); vector_group of trafo3w is not a documented trafo3w "
               "std-type parameter and exempt",
               "partial zero-sequence / tap data sets are not generated (not documented)",
               "non-convergence or a documented rejection that hits both nets alike is legal (skipped)",
               "change_std_type 'changes only parameters given for the type': columns that are not type keys are required "
               "to stay unchanged, not to equal a fresh creation"]
TECHNIQUE = ("property-based testing: exhaustive enumeration of built-in types + Hypothesis type-dictionary generator; "
             "oracles: cell = type value, differential (std type vs explicit parameters, change vs create), round trip of "
             "the type library")

_BUILTIN = {}
EXEMPT = {"trafo3w": {"vector_group"}}
ATOL, RTOL = 1e-9, 1e-9


def builtins():
    if not _BUILTIN:
        _BUILTIN.update(G.builtin_types())
    return _BUILTIN


def enumerate_cases(tier):
    return G.builtin_cases()


def strategy(tier):
    return G.case(tier, builtins())


# ------------------------------------------------------------------------------------------------------ helpers
def _isnull(v):
    import pandas as pd
    try:
        return bool(pd.isnull(v))
    except (TypeError, ValueError):
        return False


def same_value(cell, val):
    """cell of an element table == value of the type dictionary"""
    if _isnull(val):
        return _isnull(cell)
    if _isnull(cell):
        return False
    if isinstance(val, str) or isinstance(cell, str):
        return cell == val
    try:
        return float(cell) == float(val)
    except (TypeError, ValueError):
        return cell == val


def same_cell(a, b):
    if _isnull(a) or _isnull(b):
        return _isnull(a) and _isnull(b)
    if isinstance(a, str) or isinstance(b, str):
        return a == b
    try:
        return float(a) == float(b)
    except (TypeError, ValueError):
        return a == b


def type_data(case):
    return copy.deepcopy(case["data"] if case["data"] is not None else builtins()[case["el"]][case["name"]])


def old_data(case):
    o = case["old"]
    return copy.deepcopy(o["data"] if o["data"] is not None else builtins()[case["el"]][o["name"]])


def explicit_kwargs(fn, data):
    names = set(inspect.signature(fn).parameters) - {"net", "kwargs", "name", "index"}
    return {k: v for k, v in data.items() if k in names}


_EMPTY = {}


def empty_net(add_stdtypes=True):
    """fresh empty network (deep copy of a never-modified create_empty_network() result: 15 ms instead of 200 ms)"""
    if add_stdtypes not in _EMPTY:
        import pandapower as pp
        _EMPTY[add_stdtypes] = pp.create_empty_network(add_stdtypes=add_stdtypes)
    return copy.deepcopy(_EMPTY[add_stdtypes])


# ------------------------------------------------------------------------------------------------ network builders
def _register(net, case):
    """put the generated types into the library (the data handed over is a private copy)"""
    import pandapower as pp
    el = case["el"]
    o = case["old"]
    if o is not None and o["data"] is not None and case["data"] is not None and o["name"] != case["name"]:
        pp.create_std_types(net, {o["name"]: copy.deepcopy(o["data"]), case["name"]: copy.deepcopy(case["data"])}, element=el)
        return
    if o is not None and o["data"] is not None:
        pp.create_std_type(net, copy.deepcopy(o["data"]), o["name"], element=el)
    if case["data"] is not None:
        pp.create_std_type(net, copy.deepcopy(case["data"]), case["name"], element=el)


def _opt(d, **kw):
    d = dict(d)
    for k, v in kw.items():
        if v is not None:
            d[k] = v
    return d


def _addcols(net):
    import pandapower as pp
    pp.add_temperature_coefficient(net)
    pp.add_zero_impedance_parameters(net)


def _ext_grid(net, bus):
    import pandapower as pp
    pp.create_ext_grid(net, bus, vm_pu=1.02, s_sc_max_mva=1000.0, s_sc_min_mva=800.0, rx_max=0.1, rx_min=0.1,
                       x0x_max=1.0, r0x0_max=0.1, x0x_min=1.0, r0x0_min=0.1)


def line_length(case):
    lo, hi = G.LINE_LEVEL[case["vn"]]["l"] if case["el"] == "line" else (5.0, 100.0)
    return round(lo + (hi - lo) * case["args"]["length_f"], 4)


def build_line(case, mode):
    import pandapower as pp
    el, a, data, name = case["el"], case["args"], type_data(case), case["name"]
    dc = el == "line_dc"
    net = empty_net()
    _register(net, case)
    vn = case["vn"]
    length = line_length(case)
    if dc:
        pp.create_buses(net, 3, 110.0)
        # AC side without lines (net.line stays empty, so that its columns say nothing about net.line_dc)
        pp.create_impedance(net, 0, 1, 0.002, 0.01, 100.)
        pp.create_impedance(net, 0, 2, 0.002, 0.01, 100.)
        _ext_grid(net, 0)
        pp.create_load(net, 2, 10, 5)
        pp.create_bus_dc(net, 110.0, "A")
        pp.create_bus_dc(net, 110.0, "B")
        fb, tb, pb = 0, 1, (0, 1)
        create, create_par = pp.create_line_dc, pp.create_line_dc_from_parameters
    else:
        pp.create_buses(net, 3, vn)
        _ext_grid(net, 0)
        fb, tb, pb = 0, 2, (0, 1)
        create, create_par = pp.create_line, pp.create_line_from_parameters
    pre = case["pre"]
    od = old_data(case)
    if pre == "std":
        create(net, pb[0], pb[1], length, std_type=case["old"]["name"])
    elif pre == "addcols":
        create(net, pb[0], pb[1], length, std_type=case["old"]["name"], temperature_degree_celsius=25.0)
        _addcols(net)
    elif pre == "rich":
        kw = dict(length_km=length, r_ohm_per_km=od["r_ohm_per_km"], max_i_ka=od["max_i_ka"], alpha=4e-3,
                  temperature_degree_celsius=20.0, max_loading_percent=100.0, g_us_per_km=0.5)
        if not dc:
            kw.update(x_ohm_per_km=od["x_ohm_per_km"], c_nf_per_km=od["c_nf_per_km"], r0_ohm_per_km=0.5, x0_ohm_per_km=0.4,
                      c0_nf_per_km=100.0, endtemp_degree=80.0)
        create_par(net, pb[0], pb[1], **kw)
    if not dc and pre != "none":
        s = 0.2 * math.sqrt(3) * vn * od["max_i_ka"]
        pp.create_load(net, 1, 0.95 * s, 0.3 * s)
    common = _opt({"parallel": a["parallel"], "df": a["df"]}, max_loading_percent=a["max_loading_percent"],
                  temperature_degree_celsius=a["temperature_degree_celsius"])
    if mode == "std":
        idx = create(net, fb, tb, length, std_type=name, **common)
    elif mode == "change":
        idx = create(net, fb, tb, length, std_type=case["old"]["name"], **common)
    else:
        idx = create_par(net, fb, tb, length, **explicit_kwargs(create_par, data), **common)
    if dc:
        pp.create_vsc(net, 1, 0, 0.1, 5, 0.15, control_mode_ac="vm_pu", control_value_ac=1., control_mode_dc="vm_pu",
                      control_value_dc=1.02)
        pp.create_vsc(net, 2, 1, 0.1, 5, 0.15, control_mode_ac="vm_pu", control_value_ac=1., control_mode_dc="p_mw",
                      control_value_dc=5)
    else:
        s = 0.3 * math.sqrt(3) * vn * data["max_i_ka"] * a["parallel"] * a["df"]
        pp.create_load(net, 2, 0.95 * s, 0.3 * s)
    return net, idx


def _tap_args(a, data, prefix="tap"):
    off = a.get(prefix + "_off")
    if off is None or prefix + "_neutral" not in data:
        return {}
    return {prefix + "_pos": data[prefix + "_neutral"] + off}


def build_trafo(case, mode):
    import pandapower as pp
    a, data, name = case["args"], type_data(case), case["name"]
    net = empty_net()
    _register(net, case)
    hv = pp.create_bus(net, float(data["vn_hv_kv"]))
    lv = pp.create_bus(net, float(data["vn_lv_kv"]))
    lv2 = pp.create_bus(net, float(data["vn_lv_kv"]))
    _ext_grid(net, hv)
    pre = case["pre"]
    od = old_data(case)
    if pre in ("std", "addcols"):
        pp.create_transformer(net, hv, lv2, std_type=case["old"]["name"])
        if pre == "addcols":
            _addcols(net)
    elif pre == "rich":
        pp.create_transformer_from_parameters(
            net, hv, lv2, sn_mva=od["sn_mva"], vn_hv_kv=data["vn_hv_kv"], vn_lv_kv=data["vn_lv_kv"], vk_percent=8.0,
            vkr_percent=0.5, pfe_kw=od["pfe_kw"], i0_percent=od["i0_percent"], shift_degree=data["shift_degree"],
            tap_side="hv", tap_neutral=0, tap_min=-2, tap_max=2, tap_step_percent=1.5, tap_step_degree=0., tap_pos=1,
            tap_changer_type="Ratio", vector_group="Dyn", vk0_percent=8.0, vkr0_percent=0.5, mag0_percent=100.,
            mag0_rx=0., si0_hv_partial=0.9, max_loading_percent=100., pt_percent=5.0, oltc=True, xn_ohm=0.1,
            tap2_side="lv", tap2_neutral=0, tap2_min=-1, tap2_max=1, tap2_step_percent=1.0, tap2_step_degree=0.,
            tap2_pos=0, tap2_changer_type="Ratio")
    if pre != "none":
        pp.create_load(net, lv2, 0.2 * od["sn_mva"], 0.05 * od["sn_mva"])
    common = _opt({"parallel": a["parallel"], "df": a["df"]}, max_loading_percent=a["max_loading_percent"])
    common.update(_tap_args(a, data, "tap"))
    common.update(_tap_args(a, data, "tap2"))
    if mode == "std":
        idx = pp.create_transformer(net, hv, lv, std_type=name, **common)
    elif mode == "change":
        idx = pp.create_transformer(net, hv, lv, std_type=case["old"]["name"],
                                    **{k: v for k, v in common.items() if not k.endswith("_pos")})
    else:
        f = pp.create_transformer_from_parameters
        idx = f(net, hv, lv, **explicit_kwargs(f, data), **common)
    s = 0.5 * data["sn_mva"] * a["parallel"]
    pp.create_load(net, lv, 0.95 * s, 0.3 * s)
    return net, idx


def build_trafo3w(case, mode):
    import pandapower as pp
    a, data, name = case["args"], type_data(case), case["name"]
    net = empty_net()
    _register(net, case)
    b = [pp.create_bus(net, float(data["vn_%s_kv" % s])) for s in ("hv", "mv", "lv", "mv", "lv")]
    _ext_grid(net, b[0])
    pre = case["pre"]
    od = old_data(case)
    if pre in ("std", "addcols"):
        pp.create_transformer3w(net, b[0], b[3], b[4], std_type=case["old"]["name"])
        if pre == "addcols":
            _addcols(net)
    elif pre == "rich":
        kw = {k: od[k] for k in G.REQUIRED["trafo3w"]}
        kw.update({k: data[k] for k in G.REQUIRED["trafo3w"] if k.startswith("vn_") or k.startswith("shift_")})
        pp.create_transformer3w_from_parameters(
            net, b[0], b[3], b[4], tap_side="hv", tap_neutral=0, tap_min=-3, tap_max=3, tap_step_percent=1.2,
            tap_step_degree=0., tap_pos=-1, tap_changer_type="Ratio", max_loading_percent=100., vector_group="YNynd",
            vk0_hv_percent=10., vk0_mv_percent=10., vk0_lv_percent=10., vkr0_hv_percent=0.3, vkr0_mv_percent=0.3,
            vkr0_lv_percent=0.3, **kw)
    if pre != "none":
        pp.create_load(net, b[3], 0.1 * od["sn_mv_mva"], 0.02 * od["sn_mv_mva"])
        pp.create_load(net, b[4], 0.1 * od["sn_lv_mva"], 0.02 * od["sn_lv_mva"])
    common = _opt({"tap_at_star_point": a["tap_at_star_point"]}, max_loading_percent=a["max_loading_percent"])
    common.update(_tap_args(a, data, "tap"))
    if mode == "std":
        idx = pp.create_transformer3w(net, b[0], b[1], b[2], std_type=name, **common)
    elif mode == "change":
        idx = pp.create_transformer3w(net, b[0], b[1], b[2], std_type=case["old"]["name"],
                                      **{k: v for k, v in common.items() if not k.endswith("_pos")})
    else:
        f = pp.create_transformer3w_from_parameters
        idx = f(net, b[0], b[1], b[2], **explicit_kwargs(f, data), **common)
    pp.create_load(net, b[1], 0.3 * data["sn_mv_mva"], 0.1 * data["sn_mv_mva"])
    pp.create_load(net, b[2], 0.3 * data["sn_lv_mva"], 0.1 * data["sn_lv_mva"])
    return net, idx


BUILD = {"line": build_line, "line_dc": build_line, "trafo": build_trafo, "trafo3w": build_trafo3w}


# ------------------------------------------------------------------------------------------------------- oracles
def fail_once(res, sig, **detail):
    """one failure per signature and case; further keys with the same signature are listed under `also`"""
    for s, d in res.failures:
        if s == sig:
            d.setdefault("also", []).append(detail.get("key"))
            return
    res.fail(sig, **detail)


def rule_i(res, case, net, idx, data):
    """(i) every type key that is required or a column of the table: cell == type value"""
    el = case["el"]
    tab = net[el]
    if tab.at[idx, "std_type"] != case["name"]:
        res.fail("cell/%s/std_type" % el, cell=repr(tab.at[idx, "std_type"]), expected=case["name"])
    for k, v in data.items():
        if k in EXEMPT.get(el, ()):
            continue
        if k not in tab.columns:
            if k in G.REQUIRED[el]:
                fail_once(res, "cell/%s/required/column-missing" % el, key=k)
            continue
        cell = tab.at[idx, k]
        if not same_value(cell, v):
            how = "not-set" if _isnull(cell) else "wrong-value"
            fail_once(res, "cell/%s/%s/%s" % (el, G.key_class(el, k), how), key=k, cell=repr(cell), type_value=repr(v),
                      pre=case["pre"])


def rule_iii(res, case, net_std, idx, data):
    """(iii) change_std_type on an element of the old type == creating it with the new type, on the type's columns
    (keys for which the creation itself was already reported by rule (i) are not reported a second time)"""
    import pandapower as pp
    el = case["el"]
    reported = {k for s, d in res.failures if s.startswith("cell/") for k in [d.get("key")] + d.get("also", [])}
    try:
        with silence():
            net_c, idx_c = BUILD[el](case, "change")
            before = net_c[el].copy(deep=True)
            pp.change_std_type(net_c, idx_c, case["name"], element=el)
    except Exception as e:
        res.fail("change/%s/crash/%s" % (el, exc_sig(e)), error=repr(e)[:300])
        return
    res.label("change:old-" + ("builtin" if case["old"]["data"] is None else "gen"))
    tc, ts = net_c[el], net_std[el]
    if tc.at[idx_c, "std_type"] != case["name"]:
        res.fail("change/%s/std_type" % el, cell=repr(tc.at[idx_c, "std_type"]))
    for k in data:
        if k in EXEMPT.get(el, ()) or k not in ts.columns or k in reported:
            continue
        if k not in tc.columns:
            # one root cause (change_std_type loops over the existing columns only): one signature per element
            fail_once(res, "change/%s/column-not-added" % el, key=k, key_class=G.key_class(el, k), created=repr(ts.at[idx, k]))
        elif not same_cell(tc.at[idx_c, k], ts.at[idx, k]):
            fail_once(res, "change/%s/%s/differs-from-creation" % (el, G.key_class(el, k)), key=k,
                      changed=repr(tc.at[idx_c, k]), created=repr(ts.at[idx, k]))
    # documented: "Changes only parameter that are given for the type"
    if list(tc.index) != list(before.index) or [c for c in before.columns if c not in tc.columns]:
        res.fail("change/%s/table-shape" % el)
        return
    for i in before.index:
        for c in before.columns:
            if i == idx_c and (c in data or c == "std_type"):
                continue
            if not same_cell(before.at[i, c], tc.at[i, c]):
                res.fail("change/%s/foreign-cell-modified" % el, row=int(i), column=c, before=repr(before.at[i, c]),
                         after=repr(tc.at[i, c]))
                return


def _run(fn, net, **kw):
    """-> ("ok", None) | ("skip", reason) | ("crash", signature, error)"""
    try:
        with silence():
            fn(net, **kw)
    except Exception as e:
        kind, what = pf_outcome(e)
        return (kind, what, repr(e)[:300])
    if fn.__name__ == "runpp" and not net.converged:
        return ("skip", "not-converged", "")
    return ("ok", None, "")


def _first_table(diffs):
    return diffs[0].split(":")[0].split(".")[0].split(" ")[0]


def compare_calc(res, el, what, fn, net_a, net_b, tables=None, **kw):
    """run the same calculation on the std-type net and on the explicit net; equal outcome and equal results"""
    ra, rb = _run(fn, net_a, **kw), _run(fn, net_b, **kw)
    if ra[0] != rb[0] or (ra[0] != "ok" and ra[1] != rb[1]):
        res.fail("%s/%s/outcome-differs/%s|%s" % (what, el, ra[1] or "ok", rb[1] or "ok"), std=ra, explicit=rb, options=kw)
        return False
    if ra[0] == "crash":
        res.fail("%s/%s/%s" % (what, el, ra[1]), error=ra[2], options=kw)
        return False
    if ra[0] == "skip":
        res.label("%s:%s" % (what, ra[1].split("@")[0]))
        return False
    diffs = oracles.compare_results(net_a, net_b, atol=ATOL, rtol=RTOL, tables=tables, angle_tol=1e-8)
    if diffs:
        res.fail("%s/%s/results-differ/%s" % (what, el, _first_table(diffs)), diffs=diffs[:6], options=kw)
        return False
    res.label("calc:" + what)
    return True


def rule_ii(res, case, net_std, data):
    import pandapower as pp
    import pandapower.shortcircuit as sc
    el = case["el"]
    try:
        with silence():
            net_x, _ = BUILD[el](case, "explicit")
    except Exception as e:
        res.fail("explicit/%s/crash/%s" % (el, exc_sig(e)), error=repr(e)[:300])
        return False
    done = False
    calc = case["calc"]
    if calc["pf"] is not None:
        o = dict(calc["pf"])
        temp = o.pop("consider_line_temperature")
        # line temperature needs alpha and temperature_degree_celsius for every line: only after the documented
        # add_temperature_coefficient (pre = addcols) or with explicit columns (pre = rich), and when the types define alpha
        # (not for line_dc: build_branch._calc_line_dc_parameter takes the correction factor of net.line, not net.line_dc)
        if el == "line" and temp and "alpha" in data and case["args"]["temperature_degree_celsius"] is not None \
                and (case["pre"] == "rich" or (case["pre"] == "addcols" and "alpha" in old_data(case))):
            o["consider_line_temperature"] = True
            res.label("pf:line-temperature")
        done |= compare_calc(res, el, "pf", pp.runpp, net_std, net_x, tolerance_mva=1e-10, max_iteration=30, **o)
    if calc["sc"] is not None and el != "line_dc":
        fault, cs = calc["sc"], calc["sc_case"]
        pre = case["pre"]
        if el == "line":
            # zero-sequence data of every line is needed for 1ph; endtemp_degree of every line for the min case
            od = old_data(case)
            zero_ok = all(k in data for k in G.LINE_ZERO) and (pre in ("none", "rich") or all(k in od for k in G.LINE_ZERO))
            min_ok = "endtemp_degree" in data and pre in ("none", "rich")
        elif el == "trafo":
            od = old_data(case)
            zero_ok = all(k in data for k in G.TRAFO_ZERO) and data.get("vector_group") in G.VECTOR_GROUPS_SC \
                and (pre in ("none", "rich") or (all(k in od for k in G.TRAFO_ZERO)
                                                 and od.get("vector_group") in G.VECTOR_GROUPS_SC))
            min_ok = True
        else:
            zero_ok, min_ok = False, True
        if fault == "1ph" and not zero_ok:
            fault = "3ph"
        if cs == "min" and not min_ok:
            cs = "max"
        if el == "line" and cs == "min" and pre == "none":
            # endtemp_degree is an additional type parameter that create_line does not add as a column; the documented
            # way to bring it into the table is parameter_from_std_type (doc/std_types/manage.rst)
            with silence():
                pp.parameter_from_std_type(net_std, "endtemp_degree")
            res.label("sc:endtemp-via-parameter_from_std_type")
        tabs = ["res_bus_sc", "res_line_sc", "res_trafo_sc", "res_trafo3w_sc"]
        ok = compare_calc(res, el, "sc-%s-%s" % (fault, cs), sc.calc_sc, net_std, net_x, tables=tabs, fault=fault, case=cs,
                          branch_results=True, ip=(fault == "3ph"), ith=(fault == "3ph"))
        done |= ok
    return done


# ------------------------------------------------------------------------------------------- (iv) type library
def rule_iv(res, case, net, data):
    """library round trips on a net that contains elements of the type; `data` is the pristine copy of the type"""
    import pandapower as pp
    el, name, new = case["el"], case["name"], case["mgmt"]["new_name"]

    def loaded(n, nm, stage):
        try:
            got = pp.load_std_type(n, nm, element=el)
        except Exception as e:
            res.fail("mgmt/%s/load-raises" % stage, element=el, error=repr(e)[:200])
            return False
        if got != data or list(got) != list(data):
            bad = sorted(k for k in set(got) | set(data) if got.get(k, "<missing>") != data.get(k, "<missing>"))
            res.fail("mgmt/%s/type-changed" % stage, element=el, keys=bad[:6])
            return False
        return True

    try:
        with silence():
            # created (or built-in) -> unchanged after the element creation / calculations that happened before
            if not pp.std_type_exists(net, name, element=el):
                res.fail("mgmt/exists/false-for-existing", element=el)
            loaded(net, name, "after-use")
            tab = pp.available_std_types(net, element=el)
            if name not in tab.index or not all(same_value(tab.at[name, k], data[k]) for k in G.REQUIRED[el]):
                res.fail("mgmt/available_std_types/row-differs", element=el)
            # overwrite=False keeps the existing type
            other = copy.deepcopy(data)
            num = [k for k in G.REQUIRED[el] if isinstance(other[k], (int, float)) and not isinstance(other[k], bool)][0]
            other[num] = other[num] * 2 + 1
            pp.create_std_type(net, other, name, element=el, overwrite=False)
            loaded(net, name, "create-no-overwrite")
            # a type without a required parameter is rejected
            short = copy.deepcopy(data)
            short.pop(G.REQUIRED[el][-1])
            try:
                pp.create_std_type(net, short, "incomplete", element=el)
                res.fail("mgmt/create/missing-required-accepted", element=el, missing=G.REQUIRED[el][-1])
            except UserWarning:
                pass
            if pp.std_type_exists(net, "incomplete", element=el):
                res.fail("mgmt/create/rejected-type-stored", element=el)
            # copy into a net without types
            net2 = empty_net(add_stdtypes=False)
            pp.copy_std_types(net2, net, element=el)
            if sorted(net2.std_types[el]) != sorted(net.std_types[el]):
                res.fail("mgmt/copy/name-set-differs", element=el)
            elif loaded(net2, name, "copy"):
                res.label("mgmt:copy")
    except Exception as e:
        res.fail("mgmt/crash/%s" % exc_sig(e), element=el, error=repr(e)[:300])
        return
    # rename
    uses_before = None
    if el in net and "std_type" in net[el].columns:
        uses_before = list(net[el].index[net[el].std_type == name])
    try:
        with silence():
            pp.rename_std_type(net, name, new, element=el)
    except Exception as e:
        res.fail("mgmt/rename/raises/%s/%s" % (type(e).__name__, "no-%s-table" % el if el not in net else "other"),
                 element=el, error=repr(e)[:200])
    try:
        with silence():
            if pp.std_type_exists(net, name, element=el) or not pp.std_type_exists(net, new, element=el):
                res.fail("mgmt/rename/exists-inconsistent", element=el)
            elif loaded(net, new, "rename"):
                res.label("mgmt:rename")
            if uses_before is not None:
                now = list(net[el].index[net[el].std_type == new])
                if now != uses_before or (net[el].std_type == name).any():
                    res.fail("mgmt/rename/element-cells", element=el, before=[int(i) for i in uses_before],
                             after=[int(i) for i in now])
            # renaming to an existing name / from an unknown name is rejected (raise sites of rename_std_type)
            for a, b in ((new, new), (name, "zz")):
                try:
                    pp.rename_std_type(net, a, b, element=el)
                    res.fail("mgmt/rename/invalid-accepted", element=el)
                except UserWarning:
                    pass
            # delete
            n_before = len(net.std_types[el])
            pp.delete_std_type(net, new, element=el)
            if pp.std_type_exists(net, new, element=el) or len(net.std_types[el]) != n_before - 1:
                res.fail("mgmt/delete/still-there", element=el)
            for f in (pp.delete_std_type, pp.load_std_type):
                try:
                    f(net, new, element=el)
                    res.fail("mgmt/delete/%s-of-deleted-accepted" % f.__name__, element=el)
                except UserWarning:
                    pass
            res.label("mgmt:delete")
    except Exception as e:
        res.fail("mgmt/crash/%s" % exc_sig(e), element=el, error=repr(e)[:300])


# --------------------------------------------------------------------------------------------------------- fuse
def expected_curve(data, curve_select):
    """docstring of Fuse: avg curve if the type has one, otherwise t_min (curve_select 0) / t_total (curve_select 1)"""
    if data["t_avg"] != 0:
        return data["x_avg"], data["t_avg"], "avg"
    if curve_select == 0:
        return data["x_min"], data["t_min"], "min"
    return data["x_total"], data["t_total"], "total"


def _fuse_net():
    import pandapower as pp
    net = empty_net()
    pp.create_buses(net, 3, 0.4)
    pp.create_ext_grid(net, 0, s_sc_max_mva=100., rx_max=0.1)
    pp.create_line_from_parameters(net, 1, 2, 0.1, 0.2, 0.08, 200, 0.3)
    pp.create_switch(net, 0, 1, et="b", closed=True)
    pp.create_load(net, 2, 0.05)
    return net


def _trip(fuse, net, i_a):
    import pandas as pd
    net["res_switch_sc"] = pd.DataFrame({"ikss_ka": [i_a / 1000.0]}, index=[0])
    r = fuse.protection_function(net, scenario="sc")
    return bool(r["trip_melt"]), float(r["trip_melt_time_s"])


def check_fuse(res, case):
    import numpy as np
    import pandapower as pp
    from pandapower.protection.protection_devices.fuse import Fuse
    name, cs = case["name"], case["mgmt"]["curve"]
    data = type_data(case)
    res.label("fuse-curve-select:%d" % cs)
    net = _fuse_net()
    netx = _fuse_net()
    try:
        with silence():
            _register(net, case)
            fuse = Fuse(net, 0, fuse_type=name, curve_select=cs)
    except Exception as e:
        res.fail("fuse/create/crash/%s" % exc_sig(e), error=repr(e)[:300])
        return res
    x, t, which = expected_curve(data, cs)
    res.label("fuse-curve:" + which)
    # (i) every parameter of the type is applied
    if not same_value(fuse.rated_i_a, data["i_rated_a"]):
        res.fail("fuse/rated_i_a", got=repr(fuse.rated_i_a), type_value=data["i_rated_a"])
    if fuse.fuse_type != name:
        res.fail("fuse/fuse_type", got=repr(fuse.fuse_type))
    try:
        c = net.characteristic.at[fuse.characteristic_index, "object"]
        xs, ts = np.asarray(c.x_vals, dtype=float), np.asarray(c.y_vals, dtype=float)
    except Exception as e:
        res.fail("fuse/characteristic-missing", error=repr(e)[:200])
        return res
    if len(xs) != len(x) or not np.allclose(xs, np.log10(x), rtol=1e-12, atol=0) \
            or not np.allclose(ts, np.log10(t), rtol=1e-12, atol=1e-15):
        res.fail("fuse/curve/%s-not-applied" % which, x=list(map(float, xs))[:4], expected_x=list(np.log10(x))[:4])
    if fuse.i_start_a != min(x) or fuse.i_stop_a != max(x):
        res.fail("fuse/curve/start-stop", start=fuse.i_start_a, stop=fuse.i_stop_a, curve=which)
    # (ii) behaviour: tabulated points are reproduced; same behaviour as a fuse built from explicit parameters
    try:
        with silence():
            fx = Fuse(netx, 0, fuse_type="none", rated_i_a=data["i_rated_a"])
            fx.create_characteristic(netx, list(x), list(t))
            probes = [min(x) * 0.5, max(x) * 2.0] + [xi for xi in x[1:-1]] + [(x[0] + x[1]) / 2.0, (x[-2] + x[-1]) / 2.0]
            for k, i_a in enumerate(probes):
                a, b = _trip(fuse, net, i_a), _trip(fx, netx, i_a)
                if a[0] != b[0] or not (a[1] == b[1] or abs(a[1] - b[1]) <= 1e-9 * abs(b[1])):
                    res.fail("fuse/behaviour/differs-from-explicit", i_a=i_a, std=a, explicit=b, curve=which)
                    break
                if k == 0 and (a[0] or a[1] != float("inf")):
                    res.fail("fuse/behaviour/trips-below-curve", i_a=i_a, got=a)
                if k == 1 and (not a[0] or a[1] != 0):
                    res.fail("fuse/behaviour/above-curve", i_a=i_a, got=a)
                if 2 <= k < len(x) and (not a[0] or abs(a[1] - t[k - 1]) > 1e-6 * t[k - 1]):
                    res.fail("fuse/behaviour/tabulated-point", i_a=i_a, got=a, expected=t[k - 1], curve=which)
    except Exception as e:
        res.fail("fuse/behaviour/crash/%s" % exc_sig(e), error=repr(e)[:300])
    res.nontrivial = not res.failures
    rule_iv(res, case, net, data)
    return res


# -------------------------------------------------------------------------------------------------------- check
def check(case):
    res = Result()
    el = case["el"]
    res.label("el:" + el, "src:" + ("builtin" if case["data"] is None else "generated"))
    if case["data"] is not None and case["name"] in builtins()[el]:
        res.label("overwrites-builtin-name")
    if el == "fuse":
        return check_fuse(res, case)
    data = type_data(case)
    res.label("pre:" + case["pre"])
    opt = [k for k in data if k not in G.REQUIRED[el]]
    for lab, keys in (("type:tap", ("tap_neutral",)), ("type:tap2", ("tap2_neutral",)), ("type:alpha", ("alpha",)),
                      ("type:zero-seq", ("r0_ohm_per_km", "vk0_percent")), ("type:endtemp", ("endtemp_degree",)),
                      ("type:g", ("g_us_per_km",)), ("type:vector_group", ("vector_group",))):
        if any(k in data for k in keys):
            res.label(lab)
    if any(float(data.get(k, 0)) != 0 for k in ("shift_degree", "shift_mv_degree", "shift_lv_degree")):
        res.label("type:shift")
    if case["args"].get("tap_off") not in (None, 0) or case["args"].get("tap2_off") not in (None, 0):
        res.label("tap-pos-off-neutral")
    try:
        with silence():
            net, idx = BUILD[el](case, "std")
    except Exception as e:
        res.fail("create/%s/crash/%s" % (el, exc_sig(e)), error=repr(e)[:300], pre=case["pre"])
        return res
    rule_i(res, case, net, idx, data)
    cell_ok = not res.failures
    rule_iii(res, case, net, idx, data)
    # a wrong cell makes the calculations differ as well: one root cause, reported once by rule (i)
    done = rule_ii(res, case, net, data) if cell_ok else False
    if not cell_ok:
        res.label("calc-skipped-after-cell-failure")
    rule_iv(res, case, net, data)
    res.nontrivial = bool(done and opt)
    return res
