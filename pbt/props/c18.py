"""C18 - Short-circuit results are consistent with IEC 60909 relations (DESIGN.md sec. 2, C18)."""
import copy
import math

from hypothesis import strategies as st

from pbt import netgen
from pbt.core import Result, silence, exc_sig
from pbt.netgen import q, LEVELS

ID = "C18"
LEVEL = "exploration"
EXAMPLES = {"quick": 960, "thorough": 24000}
SHRINK_S = {"quick": 25, "thorough": 90}
RULE = ("Hypothesis draws a network recipe (1-3 voltage levels, <=12 buses; ext_grids with s_sc_max/min, rx_max/min; lines with "
        "endtemp_degree, parallel; 2W transformers with off-nominal rated voltages, taps, parallel; 3W transformers; reciprocal "
        "impedances; gens with xdss/rdss/cos_phi/vn_kv/sn_mva; full-converter sgens with k; asynchronous sgens (lrc_pu, rx); "
        "motors; loads/shunts; fused buses, impedance switches, open switches, out-of-service parts, an unsupplied island; "
        "zero-sequence data with the documented vector groups for 1ph) and calc_sc options (case max/min, fault 3ph/2ph/1ph, "
        "lv_tol_percent, ip/ith, kappa_method, topology, r/x_fault_ohm, inverse_y, a subset of fault buses or a scalar bus, a "
        "second net.sn_mva). Oracle per faulted bus: (i) ikss = c*Un/(sqrt3*|rk+jxk|) (2ph: c*Un/(2|Zk|), 1ph: sqrt3*c*Un/"
        "|2Zk+Zk0|) from the same row; with current sources (3ph) ikss = that + |1/(Zjj+Zf)*sum_m Zjm*I_kC,m| from the reference; "
        "(ii) rk+jxk = driving-point impedance of pbt/c18_refsc.py (own element models in ohm incl. K_T, K_G, K_L, dense "
        "inverse) + fault impedance; (iii) 3ph: skss = sqrt3*Un*ikss; (iv) ikss_2ph = sqrt3/2*ikss_3ph without current sources; "
        "(v) kappa = (ip/sqrt2 - ikss2)/ikss1 in [1.02, 2], equal to 1.02+0.98exp(-3R/X) for topology=radial, to the clipped "
        "1.15-fold for method B/meshed, and to the IEC method (c) value of the reference at 20 Hz where that is unambiguous; "
        "(vi) the row of a bus is identical for another net.sn_mva, the other inverse_y, and for all buses (or only this bus) "
        "faulted in one call; unsupplied buses report NaN. Non-trivial = >=1 faulted bus with finite results in a net whose "
        "supplied part contains a transformer or a generator; distinct by case hash.")
ASSUMPTIONS = ["reference impedance tolerance 1e-8 relative (measured agreement 1e-13 .. 5e-13 per element kind), same-row relations "
               "1e-9, invariances 1e-9 relative (rk/xk and rk0/xk0 compared as complex numbers)",
               "rk_ohm/xk_ohm are taken to include r_fault_ohm/x_fault_ohm (they are the impedance ikss is computed with)",
               "skss relation is checked for 3ph only (skss of a 2ph fault is not defined by the docs / IEC 60909; pandapower "
               "reports Un*ikss/sqrt3 there)",
               "an island without ext_grid/gen is unsupplied (motors alone do not energise it): results must be NaN",
               "the exact IEC method (c) peak factor is demanded only for nets with <=1 shunt-type source (ext_grid/gen/motor) per "
               "node and no ext_grid with R/X = 0; elsewhere pandapower reduces the sources of a bus before scaling X to 20 Hz "
               "(and drops other sources at a generator bus), which the property text (kappa in [1.02, 2]) does not exclude",
               "impedance elements are generated reciprocal (rtf = rft): the kappa bound presupposes a passive reciprocal network",
               "1ph: only the documented data (trafo vector groups Dyn/YNyn/Yzn/Yyn, no trafo3w, x0x in 0..1); the zero-sequence "
               "impedance itself has no reference model, only the same-row relation and the invariances are checked",
               "asynchronous sgens and 3W transformers with a winding below 1 kV restrict the options (case=max resp. "
               "lv_tol_percent=10) because the documentation does not say what applies otherwise",
               "wards/xwards, power-station units, DFIG sgens, branch results and the superposition method are not generated",
               "documented rejections (ValueError/UserWarning/NotImplementedError about missing data) are skipped"]

# Element kinds were enabled one at a time (DESIGN.md "### C18"), each after pbt/c18_refsc.py had reproduced rk+jxk of the
# unchanged tree on 300-500 generated cases x {max, min}; worst relative deviation per stage: ext_grid + line + trafo 9e-14,
# + gen (K_G) 2.4e-13, + motor 1.3e-13, + full-converter sgen (current-source share of ikss) < 1e-8, + trafo3w 8e-14,
# + impedance / impedance switch 4e-14, + asynchronous sgen 5e-13 (outside the shapes of the reported findings).
BUS_KINDS = {"load": 2, "sgen": 2, "gen": 2, "storage": 0, "shunt": 1, "ward": 0, "xward": 0, "motor": 2,
             "asymmetric_load": 0, "asymmetric_sgen": 0}
PROFILE = netgen.profile(nb_level=(1, 4), nb_max=10, bus_kinds=BUS_KINDS, max_per_bus=2,
                         branch_kinds={"line": 8, "impedance": 1, "bb": 2}, trafo3w=True, switch_z=True, dcline=False,
                         zip=False, scaling=False, gen_qlims=False, oos=0.05, open_prob=0.25)

# True: demand the IEC 60909-0 method (c) peak factor on every shape (pandapower deviates where several sources share a bus,
# see the report in ASSUMPTIONS); the property as stated only demands kappa in [1.02, 2]
STRICT_KAPPA_C = False

SN_ALT = (0.1, 1.0, 7.5, 100.0, 1000.0)


@st.composite
def _sc_data(draw, recipe, zero=False):
    """short-circuit data for every element of the recipe (values inside the documented ranges of doc/elements/*_par.csv);
    zero=True: also zero-sequence data for single-phase faults"""
    for e in recipe["el"]:
        t = e["t"]
        vn = recipe["buses"][e["bus"]]["vn_kv"] if "bus" in e and t != "switch" else None
        if t == "ext_grid":
            s = round(LEVELS[vn]["s"] * draw(q(5.0, 300.0, nd=1)), 4)
            e.update(s_sc_max_mva=s, s_sc_min_mva=round(s * draw(q(0.3, 1.0, nd=2)), 4),
                     rx_max=draw(q(0.0, 0.6, nd=2)), rx_min=draw(q(0.0, 0.6, nd=2)))
            if zero:
                e.update(r0x0_max=draw(q(0.05, 0.5, nd=2)), x0x_max=draw(q(0.1, 1.0, nd=2)),
                         r0x0_min=draw(q(0.05, 0.5, nd=2)), x0x_min=draw(q(0.1, 1.0, nd=2)))
        elif t == "impedance":
            # reciprocal impedances only: IEC 60909 (and its bound on the peak factor) knows no direction-dependent branch
            e.pop("rtf_pu", None)
            e.pop("xtf_pu", None)
            if zero:
                e.update(rft0_pu=round(e["rft_pu"] * 2, 6), xft0_pu=round(e["xft_pu"] * 3, 6),
                         gf0_pu=e.get("gf_pu", 0.0), bf0_pu=e.get("bf_pu", 0.0))
        elif t == "line":
            e["endtemp_degree"] = float(draw(st.sampled_from([20, 80, 80, 160, 250])))
            if zero:
                e.update(r0_ohm_per_km=round(e["r_ohm_per_km"] * draw(q(1.5, 4.0, nd=1)), 5),
                         x0_ohm_per_km=round(e["x_ohm_per_km"] * draw(q(2.0, 4.0, nd=1)), 5),
                         c0_nf_per_km=round(e["c_nf_per_km"] * draw(q(0.4, 1.0, nd=1)), 3))
        elif t == "trafo" and zero:
            # the vector groups documented in doc/elements/trafo_par.csv
            e.update(vector_group=draw(st.sampled_from(["Dyn", "Dyn", "YNyn", "Yzn", "Yyn"])),
                     vk0_percent=round(e["vk_percent"] * draw(q(0.8, 1.0, nd=2)), 4),
                     mag0_percent=float(draw(st.sampled_from([100, 100, 50, 10]))), mag0_rx=draw(q(0.0, 0.3, nd=2)),
                     si0_hv_partial=draw(q(0.1, 0.9, nd=1)))
            e["vkr0_percent"] = round(min(e["vkr_percent"], e["vk0_percent"]) * draw(q(0.8, 1.0, nd=2)), 4)
        elif t == "gen":
            sn = round(LEVELS[vn]["s"] * draw(q(0.5, 6.0, nd=1)), 4)
            vg = round(vn * draw(st.sampled_from([1.0, 1.0, 1.05, 0.95])), 6)
            xd = draw(q(0.1, 0.35, nd=3))
            e.update(vn_kv=vg, sn_mva=sn, xdss_pu=xd, cos_phi=draw(q(0.7, 1.0, nd=2)),
                     rdss_ohm=round(draw(q(0.005, 0.15, nd=3)) * xd * vg ** 2 / sn, 8))
        elif t == "sgen":
            e.update(sn_mva=round(LEVELS[vn]["s"] * draw(q(0.1, 2.0, nd=2)), 5))
            if draw(st.integers(0, 3)) == 0:     # asynchronous generator: an impedance, not a current source
                e.update(generator_type="async", current_source=False, lrc_pu=draw(q(3.0, 8.0, nd=1)), rx=draw(q(0.05, 0.4, nd=2)))
            else:
                e.update(k=draw(q(1.0, 1.5, nd=2)))
        elif t == "motor":
            e.update(vn_kv=round(vn * draw(st.sampled_from([1.0, 1.0, 0.95, 1.05])), 6), lrc_pu=draw(q(3.0, 8.0, nd=1)),
                     rx=draw(q(0.1, 0.42, nd=2)), cos_phi_n=draw(q(0.7, 0.95, nd=2)),
                     efficiency_n_percent=float(draw(st.integers(80, 99))))
    # several generators at one electrical node: pandapower keeps ONE correction factor K_G per bus (known finding
    # "zk/multi-kg-gen-node"); in 4 of 5 such recipes the generators of a node get equal K_G data so that the search
    # continues behind that shape, the rest keeps hitting it
    node = netgen.nodes_of(recipe)
    # an "async" sgen at a node with another voltage-source-type element: pandapower assigns (instead of adds) its admittance
    # to the bus (known finding "zk/async-sgen-overwrites-bus-admittance"); avoided in 4 of 5 such recipes
    others = {node[e["bus"]] for e in recipe["el"] if e["t"] in ("ext_grid", "gen", "motor")}
    clash = [e for e in recipe["el"] if e["t"] == "sgen" and e.get("generator_type") == "async" and node[e["bus"]] in others]
    if clash and draw(st.integers(0, 4)) != 0:
        for e in clash:
            for key in ("generator_type", "current_source", "lrc_pu", "rx"):
                e.pop(key)
            e["k"] = 1.2
    groups = {}
    for e in recipe["el"]:
        if e["t"] == "gen":
            groups.setdefault(node[e["bus"]], []).append(e)
    if any(len(g) > 1 for g in groups.values()) and draw(st.integers(0, 4)) != 0:
        for g in groups.values():
            for e in g[1:]:
                e.update(vn_kv=g[0]["vn_kv"], xdss_pu=g[0]["xdss_pu"], cos_phi=g[0]["cos_phi"])
    return recipe


@st.composite
def _case(draw, tier):
    recipe = draw(netgen.grid(PROFILE))
    fault = draw(st.sampled_from(["3ph", "3ph", "3ph", "2ph", "2ph", "1ph"]))
    if fault == "1ph" and any(e["t"] == "trafo3w" for e in recipe["el"]):
        fault = "2ph"       # zero-sequence data of three-winding transformers are not documented (doc/elements/trafo3w_par.csv)
    recipe = draw(_sc_data(recipe, zero=fault == "1ph" or draw(st.integers(0, 3)) == 0))
    nb = len(recipe["buses"])
    opt = {"case": draw(st.sampled_from(["max", "min"])),
           "fault": fault,
           "lv_tol_percent": draw(st.sampled_from([10, 10, 6])),
           "ip": draw(st.booleans()), "ith": draw(st.sampled_from([False, False, True])),
           "kappa_method": draw(st.sampled_from(["C", "C", "B"])),
           "topology": draw(st.sampled_from(["auto", "auto", "meshed", "radial"])),
           "tk_s": draw(st.sampled_from([1.0, 0.1, 3.0])),
           "inverse_y": draw(st.booleans()),
           "r_fault_ohm": 0.0, "x_fault_ohm": 0.0}
    if any(e.get("generator_type") == "async" for e in recipe["el"]):
        opt["case"] = "max"             # whether asynchronous generators feed minimum short-circuit currents is not documented
    if any(e["t"] == "trafo3w" and min(e["vn_mv_kv"], e["vn_lv_kv"]) < 1.0 for e in recipe["el"]):
        opt["lv_tol_percent"] = 10      # which c_max a 3W pair with a winding below 1 kV takes at 6 % is not documented
    if draw(st.integers(0, 3)) == 0:
        opt["r_fault_ohm"] = draw(q(0.0, 2.0, nd=3))
        opt["x_fault_ohm"] = draw(q(0.0, 2.0, nd=3)) if draw(st.booleans()) else 0.0
    if draw(st.integers(0, 3)) == 0:
        buses = None
    else:
        buses = draw(st.lists(st.integers(0, nb - 1), min_size=1, max_size=min(nb, 4), unique=True))
    sn2 = draw(st.sampled_from([s for s in SN_ALT if s != recipe["sn_mva"]]))
    return {"recipe": recipe, "opt": opt, "buses": buses, "sn2": sn2, "scalar_bus": draw(st.booleans())}


def strategy(tier):
    return _case(tier)


class _FastPP:
    """the pandapower namespace, except that create_empty_network returns a deep copy of one pristine empty network
    (0.015 s instead of 0.18 s per case; sn_mva / f_hz are plain attributes of the net)"""

    def __init__(self):
        import pandapower
        self._pp = pandapower
        self._empty = None

    def __getattr__(self, name):
        return getattr(self._pp, name)

    def create_empty_network(self, sn_mva=1.0, f_hz=50.0):
        if self._empty is None:
            self._empty = self._pp.create_empty_network()
        net = copy.deepcopy(self._empty)
        net.sn_mva = sn_mva
        net.f_hz = f_hz
        return net


_PP = []


def build(recipe):
    if not _PP:
        _PP.append(_FastPP())
    return netgen.build(recipe, pp=_PP[0])


def run_sc(net, buses, opt, **over):
    """-> (table as {bus: {col: value}}, None) or (None, skip reason / failure signature)"""
    import pandapower.shortcircuit as sc
    o = dict(opt)
    o.update(over)
    with silence():
        sc.calc_sc(net, bus=buses, **o)
    tab = net.res_bus_sc
    return {int(b): {c: float(tab.at[b, c]) for c in tab.columns} for b in tab.index}


def _rel(a, b, rtol, atol=0.0):
    if math.isnan(a) or math.isnan(b):
        return math.isnan(a) and math.isnan(b)
    if math.isinf(a) or math.isinf(b):
        return a == b
    return abs(a - b) <= atol + rtol * max(abs(a), abs(b))


def compare_rows(res, what, base, other, buses, opt, rtol=1e-9, **detail):
    """rows of the same bus from two calculations must agree; rk/xk are compared as one complex number (a component that
    is analytically zero, e.g. rk with R/X = 0 everywhere, is numerical noise of the order 1e-16 * |Zk|)"""
    for b in buses:
        ra, rb = base.get(b), other.get(b)
        if ra is None or rb is None:
            res.fail("invariance/%s/row-missing" % what, bus=b, **detail)
            continue
        zabs = {}
        for sfx in ("", "0"):
            za = abs(complex(ra.get("rk%s_ohm" % sfx, 0.0), ra.get("xk%s_ohm" % sfx, 0.0)))
            zabs["rk%s_ohm" % sfx] = zabs["xk%s_ohm" % sfx] = za if math.isfinite(za) else 0.0
        for c in ra:
            atol = rtol * zabs[c] if c in zabs else 1e-12
            if c not in rb:
                res.fail("invariance/%s/column-missing" % what, bus=b, column=c, **detail)
            elif not _rel(ra[c], rb[c], rtol, atol):
                sig = "invariance/%s/%s" % (what, c)
                if c in ("ip_ka", "ith_ka"):     # ikss agrees (checked before): the peak factor is the ingredient that differs
                    sig = "invariance/%s/peak-factor/kappa-%s-%s" % (what, opt["kappa_method"], opt["topology"])
                res.fail(sig, bus=b, column=c, base=ra[c], other=rb[c], **detail)
                break


def floating_zero_sequence(net, ref):
    """True when a supplied bus lies in a zero-sequence island without any connection to earth (no ext_grid / gen, no line
    with c0 > 0, no earthed transformer winding, no impedance with zero-sequence shunt part): Z0 is infinite there and
    pandapower's zero-sequence admittance matrix is singular up to the 1e-20 p.u. placeholders of open windings"""
    n = ref.Y.shape[0]
    par = list(range(n))

    def find(a):
        while par[a] != a:
            par[a] = par[par[a]]
            a = par[a]
        return a
    earthed = set()
    for kind, idx, where, z in ref.parts:
        if not isinstance(where, tuple):
            if kind in ("ext_grid", "gen"):
                earthed.add(where)
            continue
        a, b = where
        through = True
        if kind == "line":
            if float(net.line.at[idx, "c0_nf_per_km"]) > 0:
                earthed.update((a, b))
        elif kind == "trafo":
            vg = str(net.trafo.at[idx, "vector_group"]).lower()
            through = vg == "ynyn"
            earthed.add(b)
            if through:
                earthed.add(a)
        elif kind == "impedance":
            im = net.impedance
            if any(c in im.columns and float(im.at[idx, c] or 0) != 0 for c in ("gf0_pu", "bf0_pu", "gt0_pu", "bt0_pu")):
                earthed.update((a, b))
        if through:
            ra, rb = find(a), find(b)
            if ra != rb:
                par[max(ra, rb)] = min(ra, rb)
    ok = {find(k) for k in earthed}
    return any(find(k) not in ok for k in ref.live)


def check(case):
    from pbt.c18_refsc import RefSC, c_factors
    res = Result()
    recipe, opt = case["recipe"], dict(case["opt"])
    net, maps = build(recipe)
    blab = maps["bus"]
    buses = None if case["buses"] is None else [blab[p] for p in case["buses"]]
    faulted = list(net.bus.index) if buses is None else buses
    if buses is not None and len(buses) == 1 and case.get("scalar_bus"):
        buses = buses[0]            # calc_sc(bus=<int>)
        res.label("bus-argument-scalar")
    res.label("case:" + opt["case"], "fault:" + opt["fault"], "inverse_y:%s" % opt["inverse_y"],
              "buses:" + ("all" if buses is None else "subset"))
    zf = complex(opt["r_fault_ohm"], opt["x_fault_ohm"])
    if zf != 0:
        res.label("fault-impedance")
    # ---- independent model (from the input tables only)
    ref = RefSC(net, case=opt["case"], lv_tol_percent=opt["lv_tol_percent"])
    zk_ref = ref.solve()
    two = opt["fault"] == "2ph"
    one = opt["fault"] == "1ph"
    floating = one and floating_zero_sequence(net, ref)
    yzn = one and any(kind == "trafo" and str(net.trafo.at[idx, "vector_group"]).lower() == "yzn" for kind, idx, w, z in ref.parts)
    if floating:
        res.label("floating-zero-seq-island")
    try:
        base = run_sc(net, buses, opt)
    except (ValueError, UserWarning, NotImplementedError) as e:
        res.skipped = "rejected:" + exc_sig(e)
        return res
    except Exception as e:
        res.fail("1ph/floating-zero-seq-island" if floating else "crash/" + exc_sig(e), error=repr(e)[:300], opt=opt)
        return res
    sgen_on = bool(len(net.sgen)) and bool((net.sgen.in_service & net.sgen.current_source.astype(bool) &
                                            net.bus.in_service.reindex(net.sgen.bus).values).any())
    cur_src = sgen_on and opt["case"] == "max"
    if cur_src:
        res.label("current-source")
        ref.current_sources(net)
    for kind in sorted(ref.has):
        res.label("has:" + kind)
    multi_gen = any(len(v) > 1 for v in ref.gen_nodes.values())
    multi_kg = any(len({round(k, 12) for k in v}) > 1 for v in ref.gen_kg.values())
    if multi_gen:
        res.label("multi-gen-node")
    if multi_kg:
        res.label("multi-kg-gen-node")
    shunts_at = {}
    for kind, idx, where, z in ref.parts:
        if not isinstance(where, tuple):
            shunts_at.setdefault(where, set()).add(kind)
    async_clash = any("async" in v and len(v) > 1 for v in shunts_at.values())
    if async_clash:
        res.label("async-sgen-shares-node")
    zc_ref = None
    if opt["ip"] and opt["kappa_method"] == "C" and opt["topology"] != "radial":
        refc = RefSC(net, case=opt["case"], lv_tol_percent=opt["lv_tol_percent"], peak=True)
        zc_ref = refc.solve()
    # the exact method (c) value is only demanded where "reduce the sources of a bus, then scale X" (pandapower) and "scale
    # every X, then reduce" (IEC) coincide: at most one shunt-type source per node and no purely reactive ext_grid
    per_node = {}
    for kind, idx, where, z in ref.parts:
        if not isinstance(where, tuple):
            per_node[where] = per_node.get(where, 0) + 1
    kappa_c_clean = all(v <= 1 for v in per_node.values()) and \
        not any(kind == "ext_grid" and z.real == 0 for kind, idx, where, z in ref.parts)
    if zc_ref is not None:
        res.label("kappa-C-exact" if kappa_c_clean else "kappa-C-range-only")
    finite = 0
    for b in faulted:
        row = base.get(int(b))
        if row is None:
            res.fail("result/row-missing", bus=b)
            continue
        zr = zk_ref[int(b)]
        un = float(net.bus.at[b, "vn_kv"])
        cmax, cmin = c_factors(un, opt["lv_tol_percent"])
        c = cmax if opt["case"] == "max" else cmin
        if zr is None:
            res.label("unsupplied-fault-bus")
            if not (math.isnan(row["ikss_ka"]) or row["ikss_ka"] == 0.0):
                res.fail("unsupplied/ikss-finite", bus=b, row=row)
            continue
        if math.isnan(row["ikss_ka"]):
            res.fail("supplied/ikss-nan", bus=b, row=row, zk_ref=zr)
            continue
        finite += 1
        kinds_sig = "+".join(sorted(ref.kinds_at(b) - {"ext_grid", "line"})) or "basic"      # what feeds this fault
        zk = complex(row["rk_ohm"], row["xk_ohm"])
        # (ii) Thevenin impedance
        zexp = zr + zf
        if abs(zk - zexp) > 1e-8 * abs(zexp):
            sig = "zk/multi-kg-gen-node" if multi_kg else ("zk/async-sgen-overwrites-bus-admittance" if async_clash else
                                                           "zk/%s/%s" % (opt["case"], kinds_sig))
            res.fail(sig, bus=b, zk=zk, zk_ref=zexp, rel=abs(zk - zexp) / abs(zexp))
        # (i) ikss from the same row
        if one:
            # IEC 60909-0: I''k1 = sqrt3 * c * Un / |Z1 + Z2 + Z0| with Z2 = Z1; an infinite zero-sequence impedance gives 0
            zk0 = complex(row["rk0_ohm"], row["xk0_ohm"])
            ik1 = 0.0 if math.isinf(abs(zk0)) else math.sqrt(3.0) * c * un / abs(2.0 * zk + zk0)
        else:
            ik1 = c * un / ((2.0 if two else math.sqrt(3.0)) * abs(zk))
        if not cur_src:
            if not _rel(row["ikss_ka"], ik1, 1e-9, 1e-12):
                res.fail("ikss/same-row/%s" % opt["fault"], bus=b, ikss=row["ikss_ka"], expected=ik1, c=c, row=row)
        elif row["ikss_ka"] < ik1 * (1 - 1e-9):
            res.fail("ikss/below-voltage-source-share", bus=b, ikss=row["ikss_ka"], ikss1=ik1)
        elif not two and not one:
            ik2_ref = ref.ikss2(b, zf)
            if not _rel(row["ikss_ka"], ik1 + ik2_ref, 1e-8):
                res.fail("zk/multi-kg-gen-node" if multi_kg else ("zk/async-sgen-overwrites-bus-admittance" if async_clash else
                                                                  "ikss/current-source-share"), bus=b, ikss=row["ikss_ka"], ikss1=ik1, ikss2_ref=ik2_ref)
        ik2 = max(0.0, row["ikss_ka"] - ik1) if cur_src else 0.0
        # (iii) skss
        if not two and not one and not _rel(row["skss_mw"], math.sqrt(3.0) * un * row["ikss_ka"], 1e-9):
            res.fail("skss/3ph", bus=b, skss=row["skss_mw"], expected=math.sqrt(3.0) * un * row["ikss_ka"])
        # (v) peak current
        if opt["ip"] and not one:
            kappa = (row["ip_ka"] / math.sqrt(2.0) - ik2) / ik1
            if not (1.02 - 1e-9 <= kappa <= 2.0 + 1e-9):
                res.fail("kappa/out-of-range/%s-%s" % (opt["kappa_method"], opt["topology"]), bus=b, kappa=kappa, row=row)
            rx = zk.real / zk.imag
            k0 = 1.02 + 0.98 * math.exp(-3.0 * rx)
            kexp = None
            if opt["topology"] == "radial":
                kexp = k0
            elif opt["kappa_method"] == "B" and opt["topology"] == "meshed":
                kexp = min(max(1.15 * k0, 1.0), 1.8 if un < 1.0 else 2.0)
            elif zc_ref is not None and opt["x_fault_ohm"] == 0:
                # method (c): R/X = Rc/Xc * fc/f of the network at the equivalent frequency fc (fault resistance in series)
                kc = refc.kappa_c(zc_ref[int(b)] + complex(zf.real, 0.0))
                if kappa_c_clean or STRICT_KAPPA_C:
                    kexp = kc
                elif not _rel(kappa, kc, 1e-7):
                    res.label("kappa-C-deviates-from-IEC(unchecked-shape)")
            if kexp is not None and not _rel(kappa, kexp, 1e-7):
                sig = "zk/multi-kg-gen-node" if multi_kg and zc_ref is not None else \
                    "zk/async-sgen-overwrites-bus-admittance" if async_clash and zc_ref is not None else "kappa/formula/%s-%s/%s" % (opt["kappa_method"], opt["topology"], kinds_sig)
                res.fail(sig, bus=b, kappa=kappa, expected=kexp, ikss1=ik1, ikss2=ik2, row=row)
    if finite:
        res.label("finite-results")

    # ---- (vi) invariances, (iv) 2ph vs 3ph
    try:
        other = run_sc(net, buses, opt, inverse_y=not opt["inverse_y"])
        compare_rows(res, "inverse_y", base, other, faulted, opt)
        if buses is not None:
            other = run_sc(net, None, opt)
            compare_rows(res, "bus-subset", base, other, faulted, opt, subset=faulted)
        elif len(faulted) > 1:
            b0 = faulted[len(faulted) // 2]
            other = run_sc(net, [b0], opt)
            compare_rows(res, "bus-subset", base, other, [b0], opt, subset=[b0])
        other = base if one else run_sc(net, buses, opt, fault="2ph" if not two else "3ph")
        if not cur_src and not one:
            for b in faulted:
                a3, a2 = (other, base) if two else (base, other)
                i3, i2 = a3[int(b)]["ikss_ka"], a2[int(b)]["ikss_ka"]
                if not _rel(i2, math.sqrt(3.0) / 2.0 * i3, 1e-9):
                    res.fail("ikss/2ph-vs-3ph", bus=b, ikss_2ph=i2, ikss_3ph=i3)
        net.sn_mva = case["sn2"]
        other = run_sc(net, buses, opt)
        compare_rows(res, "sn_mva", base, other, faulted, opt, sn_mva=[recipe["sn_mva"], case["sn2"]])
    except Exception as e:
        res.fail("variant-crash/" + exc_sig(e), error=repr(e)[:300], opt=opt)
    if one:
        # root causes that are facts about the input: an unearthed zero-sequence island makes every 1ph figure arbitrary;
        # the zero-sequence admittance of a Yzn transformer is multiplied by net.sn_mva
        for k, (sig, detail) in enumerate(res.failures):
            if sig.startswith("zk/"):
                continue
            if floating:
                res.failures[k] = ("1ph/floating-zero-seq-island", dict(detail, was=sig))
            elif yzn and sig.startswith("invariance/sn_mva/"):
                res.failures[k] = ("1ph/sn_mva/yzn-trafo", dict(detail, was=sig))
    res.nontrivial = finite > 0 and bool(ref.has & {"trafo", "gen"})
    res.label("levels:%d" % net.bus.vn_kv.nunique())
    return res
