"""C16 - OPF results are feasible operating points (DESIGN.md sec. 2, C16)."""
import copy
import math

import numpy as np

from pbt import netgen, oracles
from pbt import c16_gen as gen
from pbt.core import Result, pf_tol, silence, pf_outcome

ID = "C16"
LEVEL = "exploration"
EXAMPLES = {"quick": 192, "thorough": 9000}
SHRINK_S = {"quick": 4, "thorough": 30}     # hand-reduced witnesses of the known shapes are in replays/
DEADLINE_S = {"quick": 600, "thorough": 3000}
RULE = ("Hypothesis draws an OPF problem: network recipe (1-3 voltage levels, <=9 buses, lines/trafos/trafo3w/impedances/switches, "
        "loads, sgens, gens, storages, shunts, wards, dclines, 1-2 slacks, out-of-service parts, custom indices, sn_mva 0.5-1000) plus "
        "controllable flags (explicit True/False or absent), p/q limits, ext_grid limits and controllable flag, dcline limits and "
        "losses, bus voltage bands, branch max_loading_percent, scaling factors, convex poly/pwl costs; AC (init flat/pf, angles on/off) "
        "or DC OPF. Oracle on reported convergence: declared bus voltage bands (setpoint at nodes with a non-controllable ext_grid/gen), "
        "p/q limits of every controllable element and of ext_grids, exact setpoints of non-controllable sgen/load/storage/gen, "
        "res loading_percent <= max_loading_percent, dcline 0<=p<=max_p, q limits and the documented loss relation, all within the "
        "interior-point feasibility tolerance; then runpp/rundcpp on a copy carrying the OPF dispatch as setpoints must reproduce bus "
        "voltages, branch flows and slack powers. Non-trivial = converged and >=1 declared constraint is binding (voltage band, "
        "branch loading, p/q limit of a controllable element, dcline max_p); distinct by case hash.")
ASSUMPTIONS = ["tolerance model: pips stops at feascond = max|g,h| / (1+max|x|) < 5e-6 p.u. -> T = 4 * 5e-6 * (1 + max|P,Q|/sn_mva [+ pwl cost "
               "values]); voltages T_v = max(1e-5, 2T), reproduced voltages max(1e-5, 2T * sum of branch impedances in p.u. of sn_mva), powers max(1e-3 MW, 20 T sn_mva), current limits sqrt(Imax^2 + T) (squared p.u. "
               "constraint), DC flow limits T*sn_mva",
               "undeclared (NaN) limits are not checked; voltage limits are not checked in DC OPF (documented)",
               "xward, motors, asymmetric elements and ZIP loads are not generated (OPF documents no support for voltage dependent "
               "loads; the xward's internal voltage is not held by the OPF)",
               "reproduction clause: the OPF dispatch includes the voltage angle at further ext_grids (only the first one is the angle "
               "reference of the OPF) and further slack gens are PV generators; Q (and slack P) is compared per electrical node over "
               "ext_grid+gen+dcline terminals (the split is not unique); skipped (labelled) for low-voltage solutions (min vm < 0.5 p.u., "
               "possible when no voltage band is declared: ill-conditioned), when every live bus is a slack bus, and for >1 ext_grid "
               "with calculate_voltage_angles=False (the power flow cannot take the angle as a setpoint)",
               "a reproduction deviation counts only if it persists with 1000x tighter solver tolerances (PDIPM_*, OPF_VIOLATION): the "
               "stopping rule of the interior-point solver is relative to max(|x|,|z|) and z contains squared p.u. branch ratings",
               "non-convergence and documented rejections are legal and counted"]

FEASTOL = 5e-6


def strategy(tier):
    return gen.opf_case()


def _fin(x):
    try:
        x = float(x)
    except (TypeError, ValueError):
        return False
    return not (math.isnan(x) or math.isinf(x))


def _col(tab, idx, col, default=float("nan")):
    if col not in tab.columns:
        return default
    v = tab.at[idx, col]
    try:
        return float(v)
    except (TypeError, ValueError):
        return default


def _flag(tab, idx, default):
    """controllable flag with the documented default for a missing value"""
    if "controllable" not in tab.columns:
        return default
    v = tab.at[idx, "controllable"]
    if v is None or (isinstance(v, float) and math.isnan(v)):
        return default
    return bool(v)


def tolerances(net, sn, costs_scale=0.0):
    """absolute tolerances derived from the solver's relative feasibility criterion"""
    big = 0.0
    for t in ("gen", "sgen", "load", "storage", "ext_grid"):
        r = net["res_" + t]
        if len(r):
            for c in ("p_mw", "q_mvar"):
                v = np.abs(r[c].values.astype(float))
                v = v[np.isfinite(v)]
                if len(v):
                    big = max(big, float(v.max()))
    xnorm = max(1.0, big / sn, costs_scale)
    T = 4 * FEASTOL * (1 + xnorm)            # p.u.
    # a power mismatch of T p.u. moves voltages by up to (impedance in p.u. of the system base) * T: weak low-voltage
    # branches on a large sn_mva have hundreds of p.u.
    z = 0.0
    for i in net.line.index[net.line.in_service]:
        r = net.line.loc[i]
        z += math.hypot(r.r_ohm_per_km, r.x_ohm_per_km) * r.length_km / r.parallel / (net.bus.at[r.from_bus, "vn_kv"] ** 2 / sn)
    for i in net.trafo.index[net.trafo.in_service]:
        z += net.trafo.at[i, "vk_percent"] / 100.0 * sn / net.trafo.at[i, "sn_mva"] / net.trafo.at[i, "parallel"]
    for i in net.trafo3w.index[net.trafo3w.in_service]:
        r = net.trafo3w.loc[i]
        z += (r.vk_hv_percent + r.vk_mv_percent + r.vk_lv_percent) / 100.0 * sn / min(r.sn_hv_mva, r.sn_mv_mva, r.sn_lv_mva)
    for i in net.impedance.index[net.impedance.in_service]:
        r = net.impedance.loc[i]
        z += max(math.hypot(r.rft_pu, r.xft_pu), math.hypot(r.rtf_pu, r.xtf_pu)) * sn / r.sn_mva
    vrep = max(1e-5, 2 * T * max(1.0, z))
    return {"T": T, "v": max(1e-5, 2 * T), "vrep": vrep, "p": max(1e-3, 20 * T * sn), "plim": max(1e-6, 2 * T * sn)}


def alive_fn(net, ac):
    col = net.res_bus.vm_pu if ac else net.res_bus.va_degree
    col = col.where(net.res_bus.va_degree.notna())
    return lambda b: b in col.index and not math.isnan(col.at[b])


def element_active(net, tab, idx, alive):
    return bool(net[tab].at[idx, "in_service"]) and alive(net[tab].at[idx, "bus"])


def fixed_voltage_nodes(net, node, alive):
    """node -> setpoint for nodes that carry an in-service non-controllable ext_grid or gen"""
    out = {}
    for idx in net.ext_grid.index:
        if element_active(net, "ext_grid", idx, alive) and not _flag(net.ext_grid, idx, False):
            out.setdefault(node[net.ext_grid.at[idx, "bus"]], float(net.ext_grid.at[idx, "vm_pu"]))
    for idx in net.gen.index:
        if element_active(net, "gen", idx, alive) and not _flag(net.gen, idx, True):
            out.setdefault(node[net.gen.at[idx, "bus"]], float(net.gen.at[idx, "vm_pu"]))
    return out


def check_limits(net, res, opt, sn, tol, costs):
    """declared constraints; returns set of binding-constraint kinds"""
    ac = opt["mode"] == "ac"
    alive = alive_fn(net, ac)
    node = oracles.fused_nodes(net)
    binding = set()
    rel = 1e-4

    def near(a, b, scale):
        return abs(a - b) <= rel * max(abs(scale), 1e-9) + tol["plim"]

    # --- bus voltages
    if ac:
        fixed = fixed_voltage_nodes(net, node, alive)
        for b in net.bus.index:
            if not alive(b):
                continue
            vm = float(net.res_bus.at[b, "vm_pu"])
            if node[b] in fixed:
                if abs(vm - fixed[node[b]]) > tol["v"]:
                    res.fail("voltage/fixed-setpoint-not-held", bus=int(b), vm=vm, setpoint=fixed[node[b]], tol=tol["v"])
                continue
            lo, hi = _col(net.bus, b, "min_vm_pu"), _col(net.bus, b, "max_vm_pu")
            if _fin(lo) and vm < lo - tol["v"]:
                res.fail("voltage/below-min", bus=int(b), vm=vm, min_vm_pu=lo, tol=tol["v"])
            if _fin(hi) and vm > hi + tol["v"]:
                res.fail("voltage/above-max", bus=int(b), vm=vm, max_vm_pu=hi, tol=tol["v"])
            if (_fin(lo) and abs(vm - lo) < 1e-4) or (_fin(hi) and abs(vm - hi) < 1e-4):
                binding.add("voltage")
    # --- controllable / non-controllable bus elements
    for tab, default in (("sgen", False), ("load", False), ("storage", False), ("gen", True), ("ext_grid", True)):
        t = net[tab]
        r = net["res_" + tab]
        for idx in t.index:
            if not element_active(net, tab, idx, alive):
                continue
            p = float(r.at[idx, "p_mw"])
            qv = float(r.at[idx, "q_mvar"]) if ac else None
            scaling = _col(t, idx, "scaling", 1.0)
            ctrl = True if tab == "ext_grid" else _flag(t, idx, default)
            if ctrl:
                for val, what, lo, hi in ((p, "p", _col(t, idx, "min_p_mw"), _col(t, idx, "max_p_mw")),
                                          (qv, "q", _col(t, idx, "min_q_mvar"), _col(t, idx, "max_q_mvar"))):
                    if val is None:
                        continue
                    if tab == "gen" and bool(t.at[idx, "slack"]) and what == "q":
                        pass
                    if _fin(lo) and val < lo - tol["plim"] - 1e-9 * abs(lo):
                        res.fail("limit/%s/%s-below-min" % (tab, what), element=int(idx), value=val, limit=lo, tol=tol["plim"])
                    if _fin(hi) and val > hi + tol["plim"] + 1e-9 * abs(hi):
                        res.fail("limit/%s/%s-above-max" % (tab, what), element=int(idx), value=val, limit=hi, tol=tol["plim"])
                    if tab != "ext_grid" and _fin(lo) and _fin(hi) and hi > lo and (near(val, lo, hi - lo) or near(val, hi, hi - lo)):
                        binding.add(what + "-limit")
            else:
                exp_p = float(t.at[idx, "p_mw"]) * scaling
                cls = "scaled" if scaling != 1.0 else "plain"
                ptol = tol["plim"] if tab == "gen" else 1e-9
                if abs(p - exp_p) > ptol + 1e-9 * abs(exp_p):
                    res.fail("setpoint/%s/p/%s" % (tab, cls), element=int(idx), value=p, setpoint=exp_p, scaling=scaling)
                if ac and tab != "gen":
                    exp_q = float(t.at[idx, "q_mvar"]) * scaling
                    if abs(qv - exp_q) > 1e-9 + 1e-9 * abs(exp_q):
                        res.fail("setpoint/%s/q/%s" % (tab, cls), element=int(idx), value=qv, setpoint=exp_q, scaling=scaling)
    # --- branch loading
    for tab in ("line", "trafo", "trafo3w"):
        t = net[tab]
        if "max_loading_percent" not in t.columns:
            continue
        r = net["res_" + tab]
        for idx in t.index:
            lim = _col(t, idx, "max_loading_percent")
            ld = _col(r, idx, "loading_percent")
            if not _fin(lim) or lim == 0 or not _fin(ld) or not bool(t.at[idx, "in_service"]):
                continue
            # rating in p.u. of the system base (smallest winding for trafo3w): tolerance of the squared / linear constraint
            if tab == "line":
                rate = lim / 100 * t.at[idx, "max_i_ka"] * t.at[idx, "df"] * t.at[idx, "parallel"] * math.sqrt(3) * \
                    net.bus.at[t.at[idx, "from_bus"], "vn_kv"]
            elif tab == "trafo":
                rate = lim / 100 * t.at[idx, "sn_mva"] * t.at[idx, "df"] * t.at[idx, "parallel"]
            else:
                rate = lim / 100 * min(t.at[idx, "sn_hv_mva"], t.at[idx, "sn_mv_mva"], t.at[idx, "sn_lv_mva"])
            rpu = rate / sn
            if ac:
                ltol = lim * (math.sqrt(1 + tol["T"] / rpu ** 2) - 1) + 1e-3 + 1e-6 * lim
            else:
                ltol = lim * tol["T"] / rpu + 1e-3 + 1e-6 * lim
            if ltol > 0.05 * lim:
                res.label("loading-limit-below-solver-resolution")
            if ld > lim + ltol:
                cls = tab
                if tab in ("trafo", "trafo3w"):
                    # known: the OPF limits the current in terms of the bus voltages (RATE_A = max_loading * sn_mva), loading_percent
                    # is defined with the rated voltages of the transformer -> an excess up to the off-nominal ratio is the recorded
                    # finding; anything beyond it is not
                    sides = ("hv", "lv") if tab == "trafo" else ("hv", "mv", "lv")
                    ratio = max(float(t.at[idx, "vn_%s_kv" % sd]) / float(net.bus.at[t.at[idx, sd + "_bus"], "vn_kv"]) for sd in sides)
                    if ratio > 1 + 1e-9 and ld <= lim * ratio + ltol * ratio:
                        cls += "/off-nominal-vn"
                res.fail("loading/%s/%s" % (opt["mode"], cls), element=int(idx), loading_percent=ld, max_loading_percent=lim, tol=ltol)
            if abs(ld - lim) <= max(ltol, 1e-3 * lim):
                binding.add("loading")
    # --- dclines
    for idx in net.dcline.index:
        d = net.dcline.loc[idx]
        if not d.in_service or not alive(d.from_bus) or not alive(d.to_bus):
            continue
        r = net.res_dcline.loc[idx]
        pf, pt = float(r.p_from_mw), float(r.p_to_mw)
        if _fin(d.max_p_mw) and pf > d.max_p_mw + tol["plim"]:
            res.fail("dcline/p-above-max", element=int(idx), p_from_mw=pf, max_p_mw=float(d.max_p_mw))
        if pf < -tol["plim"]:
            res.fail("dcline/p-negative", element=int(idx), p_from_mw=pf)
        if _fin(d.max_p_mw) and near(pf, d.max_p_mw, d.max_p_mw):
            binding.add("dcline-max-p")
        exp_to = -(pf * (1 - d.loss_percent / 100.0) - d.loss_mw)
        if abs(pt - exp_to) > tol["plim"] + 1e-9 * abs(pf):
            cls = []
            if d.loss_percent != 0:
                cls.append("percent")           # OPF: p_to*(1+l) = p_from ; documented / power flow: p_to = p_from*(1-l)
            if d.loss_mw != 0 and sn != 1.0:
                cls.append("mw-base")           # OPF: loss_mw taken as p.u. of sn_mva
            res.fail("dcline/loss-relation/" + ("+".join(cls) or "other"), element=int(idx), p_from_mw=pf, p_to_mw=pt,
                     documented_p_to=exp_to, loss_percent=float(d.loss_percent), loss_mw=float(d.loss_mw), sn_mva=sn)
        if ac:
            for side in ("from", "to"):
                qv = float(r["q_%s_mvar" % side])
                lo, hi = float(d["min_q_%s_mvar" % side]), float(d["max_q_%s_mvar" % side])
                # symmetric limits are generated, so the sign convention of q does not matter
                if _fin(lo) and _fin(hi) and not (min(lo, -hi) - tol["plim"] <= qv <= max(hi, -lo) + tol["plim"]):
                    res.fail("dcline/q-limit", element=int(idx), side=side, q=qv, limits=[lo, hi])
    return binding


def dispatch_copy(net, opt):
    """copy of the network whose setpoints are the OPF dispatch (voltage setpoints per electrical node)"""
    ac = opt["mode"] == "ac"
    n2 = copy.deepcopy(net)
    alive = alive_fn(net, ac)
    node = oracles.fused_nodes(net)
    vnode = {}
    if ac:
        for b in net.bus.index:
            if alive(b):
                vnode.setdefault(node[b], float(net.res_bus.at[b, "vm_pu"]))
    for tab, default in (("sgen", False), ("load", False), ("storage", False)):
        for idx in n2[tab].index:
            if element_active(net, tab, idx, alive) and _flag(net[tab], idx, default):
                n2[tab].at[idx, "p_mw"] = net["res_" + tab].at[idx, "p_mw"]
                if ac:
                    n2[tab].at[idx, "q_mvar"] = net["res_" + tab].at[idx, "q_mvar"]
                n2[tab].at[idx, "scaling"] = 1.0
    for idx in n2.gen.index:
        if element_active(net, "gen", idx, alive):
            n2.gen.at[idx, "p_mw"] = net.res_gen.at[idx, "p_mw"]
            n2.gen.at[idx, "scaling"] = 1.0
        n = node[net.gen.at[idx, "bus"]]
        if n in vnode:
            n2.gen.at[idx, "vm_pu"] = vnode[n]
    # one angle reference is enough: further slack gens carry their OPF dispatch as ordinary PV generators
    island = gen.energized_buses(net, components=True)
    have_ref = {island.get(net.ext_grid.at[i, "bus"]) for i in net.ext_grid.index if element_active(net, "ext_grid", i, alive)}
    for idx in n2.gen.index:
        if bool(n2.gen.at[idx, "slack"]) and element_active(net, "gen", idx, alive):
            isl = island.get(net.gen.at[idx, "bus"])
            if isl in have_ref:
                n2.gen.at[idx, "slack"] = False
            have_ref.add(isl)
    angles = (not ac) or opt.get("calculate_voltage_angles", True)
    for idx in n2.ext_grid.index:
        b = net.ext_grid.at[idx, "bus"]
        if node[b] in vnode:
            n2.ext_grid.at[idx, "vm_pu"] = vnode[node[b]]
        # only the first ext_grid is the angle reference of the OPF, the angle at further ext_grids is part of the dispatch
        if angles and element_active(net, "ext_grid", idx, alive):
            n2.ext_grid.at[idx, "va_degree"] = float(net.res_bus.at[b, "va_degree"])
    for idx in n2.dcline.index:
        d = net.dcline.loc[idx]
        if d.in_service and alive(d.from_bus) and alive(d.to_bus):
            n2.dcline.at[idx, "p_mw"] = net.res_dcline.at[idx, "p_from_mw"]
        if node[d.from_bus] in vnode:
            n2.dcline.at[idx, "vm_from_pu"] = vnode[node[d.from_bus]]
        if node[d.to_bus] in vnode:
            n2.dcline.at[idx, "vm_to_pu"] = vnode[node[d.to_bus]]
    return n2


def source_injection(net, node, ac):
    """node -> complex injection of the voltage controlling elements (ext_grid, gen, dcline terminals): their split of
    reactive (and slack active) power within one node is not unique, the sum is"""
    out = {}
    for tab in ("ext_grid", "gen"):
        r = net["res_" + tab]
        for idx in net[tab].index:
            if idx in r.index:
                p, qv = float(r.at[idx, "p_mw"]), float(r.at[idx, "q_mvar"]) if ac else 0.0
                n = node[net[tab].at[idx, "bus"]]
                out[n] = out.get(n, 0j) + complex(0.0 if math.isnan(p) else p, 0.0 if math.isnan(qv) else qv)
    r = net.res_dcline
    for idx in net.dcline.index:
        if idx in r.index:
            for side in ("from", "to"):
                p = float(r.at[idx, "p_%s_mw" % side])
                qv = float(r.at[idx, "q_%s_mvar" % side]) if ac else 0.0
                n = node[net.dcline.at[idx, side + "_bus"]]
                out[n] = out.get(n, 0j) - complex(0.0 if math.isnan(p) else p, 0.0 if math.isnan(qv) else qv)
    return out


FLOW_COLS = {"line": ("p_from_mw", "q_from_mvar", "p_to_mw", "q_to_mvar"),
             "trafo": ("p_hv_mw", "q_hv_mvar", "p_lv_mw", "q_lv_mvar"),
             "trafo3w": ("p_hv_mw", "q_hv_mvar", "p_mv_mw", "q_mv_mvar", "p_lv_mw", "q_lv_mvar"),
             "impedance": ("p_from_mw", "q_from_mvar", "p_to_mw", "q_to_mvar")}


def check_reproduction(net, res, opt, sn, tol):
    import pandapower as pp
    ac = opt["mode"] == "ac"
    n2 = dispatch_copy(net, opt)
    try:
        with silence():
            if ac:
                pp.runpp(n2, calculate_voltage_angles=opt.get("calculate_voltage_angles", True), trafo_model="t", switch_rx_ratio=2,
                         init="results", tolerance_mva=pf_tol(sn), max_iteration=30, enforce_q_lims=False, voltage_depend_loads=False,
                         check_connectivity=True, trafo3w_losses="hv")
            else:
                pp.rundcpp(n2, trafo_model="t", switch_rx_ratio=0.5, check_connectivity=True, trafo3w_losses="hv")
    except Exception as e:
        kind, what = pf_outcome(e)
        if what == "not-converged":
            res.fail("reproduce/%s/pf-not-converged" % opt["mode"], error=repr(e)[:200])
        elif kind == "skip":
            res.label("reproduce-pf-" + what)
        else:
            res.fail("reproduce/%s/%s" % (opt["mode"], what), error=repr(e)[:300])
        return
    worst = {}

    def cmp(kind, what, a, b, t):
        if math.isnan(a) and math.isnan(b):
            return
        d = abs(a - b) if not (math.isnan(a) or math.isnan(b)) else float("inf")
        if d > t and d / t > worst.get(kind, (0, None))[0]:
            worst[kind] = (d / t, dict(what=what, opf=a, pf=b, tol=t))

    for b in net.bus.index:
        if ac:
            cmp("vm", "bus %s" % b, float(net.res_bus.at[b, "vm_pu"]), float(n2.res_bus.at[b, "vm_pu"]), tol["vrep"])
        a1, a2 = float(net.res_bus.at[b, "va_degree"]), float(n2.res_bus.at[b, "va_degree"])
        if not (math.isnan(a1) or math.isnan(a2)):
            a2 = a1 + ((a2 - a1 + 180.0) % 360.0 - 180.0)
        # an angle error corresponds to a voltage error of vm * d(angle): without declared voltage bands the OPF may return a
        # low-voltage solution (seen: vm = 2.5e-7 p.u. at a bus whose angle had wound up to 8004 degrees)
        vmb = float(net.res_bus.at[b, "vm_pu"]) if ac else 1.0
        cmp("va", "bus %s" % b, a1, a2, math.degrees(tol["vrep"]) * 5 / max(min(vmb, 1.0), 1e-12))
    for tab, cols in FLOW_COLS.items():
        for idx in net[tab].index:
            for c in cols:
                if not ac and c.startswith("q_"):
                    continue
                cmp("flow/" + tab, "%s %s %s" % (tab, idx, c), float(net["res_" + tab].at[idx, c]), float(n2["res_" + tab].at[idx, c]),
                    tol["p"])
    node = oracles.fused_nodes(net)
    s1, s2 = source_injection(net, node, ac), source_injection(n2, node, ac)
    for n in sorted(set(s1) | set(s2)):
        a, b = s1.get(n, 0j), s2.get(n, 0j)
        cmp("source-p", "node %s" % n, a.real, b.real, tol["p"])
        if ac:
            cmp("source-q", "node %s" % n, a.imag, b.imag, tol["p"])
    for kind, (ratio, detail) in sorted(worst.items()):
        res.fail("reproduce/%s/%s" % (opt["mode"], kind), excess_ratio=ratio, **detail)


def pwl_scale(case, sn):
    """pwl cost values are optimisation variables of the solver and enter its relative stopping criterion"""
    s = 0.0
    for c in case["costs"]:
        if c["kind"] == "pwl":
            for lo, hi, slope in c["points"]:
                s = max(s, abs(lo * slope), abs(hi * slope))
    return s


def check(case):
    res = Result()
    opt = case["opt"]
    recipe = case["recipe"]
    sn = recipe.get("sn_mva", 1.0)
    ac = opt["mode"] == "ac"
    res.label("mode:" + opt["mode"])
    net, maps = gen.build(case)
    dead_dc = gen.dcline_dead_terminal(net)
    if dead_dc:
        res.label("dcline-dead-terminal")
    try:
        with silence():
            gen.run_opf(net, opt)
    except Exception as e:
        kind, what = gen.opf_outcome(e)
        if kind == "skip":
            res.skipped = what
        elif dead_dc:
            res.fail("dcline-dead-terminal/crash", error=repr(e)[:300], where=what, opt=opt)
        else:
            if what.endswith("totcost.py:totcost") and gen.is_costs_only_on_undispatched(case, net, maps):
                what = "crash/costs-only-on-undispatched-elements"
            res.fail(what, error=repr(e)[:300], opt=opt)
        return res
    if not net.get("OPF_converged", False):
        res.skipped = "not-converged"
        return res
    tol = tolerances(net, sn, pwl_scale(case, sn))
    binding = check_limits(net, res, opt, sn, tol, case["costs"])
    for b in sorted(binding):
        res.label("binding:" + b)
    alive = alive_fn(net, ac)
    n_eg = sum(1 for i in net.ext_grid.index if element_active(net, "ext_grid", i, alive))
    node = oracles.fused_nodes(net)
    slack_nodes = {node[net.ext_grid.at[i, "bus"]] for i in net.ext_grid.index if element_active(net, "ext_grid", i, alive)}
    live_nodes = {node[b] for b in net.bus.index if alive(b)}
    vmin = min([float(net.res_bus.at[b, "vm_pu"]) for b in net.bus.index if alive(b)] or [1.0]) if ac else 1.0
    if vmin < 0.5:
        # without declared voltage bands the OPF may settle on a low-voltage solution (seen: 0.05 p.u.); the power flow
        # equations are ill-conditioned there and the tolerance model of the reproduction clause does not hold
        res.label("low-voltage-solution")
    elif n_eg > 1 and live_nodes <= slack_nodes:
        # the power flow ignores ext_grid.va_degree when no bus is left to solve (observed; a setpoint matter of C04, not of C16)
        res.label("reproduction-not-representable")
    elif ac and not opt.get("calculate_voltage_angles", True) and n_eg > 1:
        # the OPF leaves the angle at further ext_grids free; a power flow without voltage angles cannot take it as a setpoint
        res.label("reproduction-not-representable")
    elif not res.failures:
        first = Result()
        check_reproduction(net, first, opt, sn, tol)
        if first.failures:
            # the solver's stopping rule is relative to max(|x|, |z|), and the slack z of a current limit is the squared p.u. rating
            # (5800 for a 76 MVA line on sn_mva = 1): the power balance may then be off by 1e-2 p.u. at "convergence" (seen).
            # A deviation is therefore re-evaluated with 1000x tighter documented solver tolerances before it counts.
            net_t, _ = gen.build(case)
            ok = False
            try:
                with silence():
                    gen.run_opf(net_t, opt, tight=True)
                ok = bool(net_t.get("OPF_converged", False))
            except Exception:
                ok = False
            if ok:
                res.label("reproduce:retried-with-tight-tolerances")
                check_reproduction(net_t, res, opt, sn, tolerances(net_t, sn, pwl_scale(case, sn)))
            else:
                res.label("reproduce:deviation-not-reevaluated")
    else:
        res.label("reproduction-skipped-after-limit-failure")
    live = gen.energized_buses(net)
    zombies = [int(b) for b in net.bus.index if b not in live and not math.isnan(float(net.res_bus.at[b, "va_degree"]))]
    if zombies:
        # buses whose only connection to a slack leads through an out-of-service bus are optimised as an island without angle
        # reference (the power flow reports them as not supplied): one root cause, one signature
        detail = [[sg, d] for sg, d in res.failures][:3]
        del res.failures[:]
        res.label("dead-island-kept-alive")
        res.fail("dead-island-kept-alive", buses=zombies[:6], other_failures=detail)
    if dead_dc and res.failures:
        # one root cause (the auxiliary generator of the dead terminal is missing, its lookup entry is -1): one signature
        detail = [[sg, d] for sg, d in res.failures][:4]
        del res.failures[:]
        res.fail("dcline-dead-terminal/wrong-result", failures=detail)
    res.nontrivial = bool(binding)
    # shape labels
    for t in ("dcline", "trafo", "trafo3w", "storage", "ward", "shunt"):
        if len(net[t]):
            res.label("has-" + t)
    if len(net.ext_grid) and "controllable" in net.ext_grid.columns:
        res.label("ext_grid-controllable-column")
    if "controllable" in net.gen.columns and (net.gen.controllable == False).any():   # noqa: E712
        res.label("gen-noncontrollable")
    if any(("controllable" in net[t].columns and net[t].controllable.fillna(False).astype(bool).any()) for t in ("load", "storage")):
        res.label("controllable-consumer")
    if any(c["kind"] == "pwl" for c in case["costs"]):
        res.label("cost:pwl")
    if any(c.get("cp2_eur_per_mw2") for c in case["costs"]):
        res.label("cost:quadratic")
    if ac:
        res.label("init:" + opt.get("init", "flat"))
        res.label("angles:%s" % opt.get("calculate_voltage_angles", True))
    res.label("sn:%g" % sn)
    return res
