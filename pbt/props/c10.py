"""C10 - Distributed slack shares the balancing power in proportion to weights (DESIGN.md sec. 2, C10)."""
import cmath
import math

from hypothesis import strategies as st

from pbt import netgen, oracles, refmodel
from pbt.core import Result, pf_tol, silence, pf_outcome
from pbt.props import c01

ID = "C10"
LEVEL = "exploration"
EXAMPLES = {"quick": 800, "thorough": 20000}
RULE = ("Hypothesis draws a single-island network recipe with one ext_grid (or slack gen), 1-5 gens and xwards, random "
        "slack weights from {0, 0.5, 1, 2, 3} (sum > 0), participants sharing buses, loads/sgens/shunts around; runpp("
        "distributed_slack=True) with options numba / angles / voltage_depend_loads. Oracle: deviation of each participant from "
        "its setpoint (gen: p_mw*scaling, ext_grid: 0, xward: reported power minus constant-power, constant-impedance and "
        "internal-branch share computed by the harness) divided by its weight is one value for the whole island, weight-0 "
        "elements keep their setpoints, and the C01 nodal balance holds. Non-trivial = converged, >=2 participants with "
        "positive weight and |total slack power| > 1e-3 MW; distinct by case hash.")
ASSUMPTIONS = ["xward at a node with a voltage-controlling element is documented as unsupported and not generated",
               "tolerance on the common ratio: 2e-5 MW*max(1,sn/100) / weight + 1e-6 relative"]

PROFILE = netgen.profile(oos=0.0, switches=False, dcline=False, second_slack=False, noslack_island=False, slack_gen=True,
                         branch_kinds={"line": 8, "impedance": 1, "bb": 1}, switch_z=False, gen_qlims=False,
                         bus_kinds={"load": 5, "sgen": 2, "gen": 5, "storage": 1, "shunt": 1, "ward": 1, "xward": 2, "motor": 0,
                                    "asymmetric_load": 0, "asymmetric_sgen": 0})


@st.composite
def _case(draw, tier):
    recipe = draw(netgen.grid(PROFILE))
    ws = []
    for e in recipe["el"]:
        if e["t"] in ("ext_grid", "gen", "xward"):
            w = draw(st.sampled_from([0.0, 0.5, 1.0, 1.0, 2.0, 3.0]))
            e["slack_weight"] = w
            ws.append(w)
    if sum(ws) == 0:
        for e in recipe["el"]:
            if e["t"] in ("ext_grid", "gen") and (e["t"] == "ext_grid" or e.get("slack")):
                e["slack_weight"] = 1.0
    opt = {"numba": draw(st.sampled_from([True, True, False])),
           "calculate_voltage_angles": draw(st.booleans()),
           "voltage_depend_loads": draw(st.booleans())}
    return {"recipe": recipe, "opt": opt}


def strategy(tier):
    return _case(tier)


def check(case):
    import pandapower as pp
    res = Result()
    recipe, opt = case["recipe"], case["opt"]
    net, maps = netgen.build(recipe)
    sn = recipe.get("sn_mva", 1.0)
    try:
        with silence():
            pp.runpp(net, distributed_slack=True, tolerance_mva=pf_tol(sn), max_iteration=40, **opt)
    except Exception as e:
        kind, what = pf_outcome(e)
        if kind == "skip":
            res.skipped = what
        else:
            res.fail(what, error=repr(e)[:300])
        return res
    ptol = 2e-5 * max(1.0, sn / 100.0)
    parts = []   # (name, delta, weight)
    for idx, r in net.ext_grid.iterrows():
        if r.in_service:
            parts.append(("ext_grid%d" % idx, net.res_ext_grid.at[idx, "p_mw"], r.slack_weight))
    for idx, r in net.gen.iterrows():
        if r.in_service:
            parts.append(("gen%d" % idx, net.res_gen.at[idx, "p_mw"] - r.p_mw * r.scaling, r.slack_weight))
    for idx, r in net.xward.iterrows():
        if r.in_service:
            V = refmodel.bus_voltage(net, r.bus)
            vmi, vai = net.res_xward.at[idx, "vm_internal_pu"], net.res_xward.at[idx, "va_internal_degree"]
            Vint = cmath.rect(vmi * net.bus.at[r.bus, "vn_kv"], math.radians(vai))
            expected = refmodel.xward_model(net, idx, V, Vint)["p_mw"]
            # load convention -> generation deviation
            parts.append(("xward%d" % idx, -(net.res_xward.at[idx, "p_mw"] - expected), r.slack_weight))
    pos = [(n, d, w) for n, d, w in parts if w > 0]
    total = sum(d for _, d, _ in parts)
    for n, d, w in parts:
        if w == 0 and abs(d) > ptol:
            res.fail("weight0-participant-deviates/" + n.rstrip("0123456789"), element=n, deviation=d)
    if pos:
        ratios = [(n, d / w, w) for n, d, w in pos]
        ref = ratios[0][1]
        for n, rho, w in ratios[1:]:
            if abs(rho - ref) > ptol / min(w, ratios[0][2]) + 1e-6 * max(abs(rho), abs(ref)):
                kinds = "+".join(sorted({x[0].rstrip("0123456789") for x in ratios}))
                res.fail("slack-share-not-proportional/" + kinds, ratios=[(a, b) for a, b, _ in ratios], weights=[(a, c) for a, _, c in ratios])
                break
    # nodal balance as in C01
    node, S, pr = oracles.nodal_balance(net)
    for n, mis in S.items():
        if math.isnan(net.res_bus.at[n, "vm_pu"]):
            continue
        scale = max([abs(p) + abs(q) for _, p, q in pr.get(n, [])] + [0.0])
        if abs(mis) > 1e-5 * max(1.0, sn / 100.0) + 1e-7 * scale:
            res.fail("balance/dist-slack", node=int(n), mismatch=[mis.real, mis.imag], parts=pr.get(n, [])[:10])
    res.nontrivial = len(pos) >= 2 and abs(total) > 1e-3
    kinds = {n.rstrip("0123456789") for n, _, w in pos}
    for k in kinds:
        res.label("participant:" + k)
    if any(w == 0 for _, _, w in parts):
        res.label("weight-0-element")
    bypos = {}
    for e in recipe["el"]:
        if e["t"] in ("ext_grid", "gen") and e.get("slack_weight", 0) > 0:
            bypos[e["bus"]] = bypos.get(e["bus"], 0) + 1
    if any(v > 1 for v in bypos.values()):
        res.label("participants-share-bus")
    return res
