"""C12 - Time-series results equal a fresh power flow at every time step (DESIGN.md sec. 2, C12)."""
import copy
import math
import os

from hypothesis import strategies as st

from pbt import netgen
from pbt.core import Result, pf_tol, silence, exc_sig, pf_outcome

ID = "C12"
LEVEL = "exploration"
EXAMPLES = {"quick": 400, "thorough": 8000}
DEADLINE_S = {"quick": 600, "thorough": 3000}   # cap only; chosen for a heavily loaded machine (import alone took > 120 s)
SHRINK_S = {"quick": 25, "thorough": 90}
TECHNIQUE = ("property-based testing: generated network + ConstControl/DFData profiles + OutputWriter selections, "
             "differential oracle (own per-step loop: plain pandas writes + fresh runpp/rundcpp on a deep copy)")
RULE = ("Hypothesis draws a small network recipe (netgen.grid, own unbiased out-of-service / open-switch flags), 1-4 "
        "ConstControls on distinct (element, variable) pairs of the documented writable set (load/sgen/storage p_mw, q_mvar, "
        "scaling; gen p_mw, vm_pu; ext_grid vm_pu, va_degree; trafo/trafo3w tap_pos; line length_km, r_ohm_per_km, "
        "in_service; half of the cases drive one recycle class only: PQ elements | gen/ext_grid | transformers | lines) with "
        "DFData profiles of 2-6 rows (one shared or one frame per controller, scalar or list element_index, scale_factor, "
        "controller recycle flag), a time-step sequence (all rows, a sub-range or a permutation; list or range), an "
        "OutputWriter selection (default, constructor list or log_variable calls; whole columns, index subsets, the same "
        "column twice with different subsets; batch-readable selections, arbitrary bus/branch columns, arbitrary columns "
        "of res_bus/line/trafo/trafo3w/load/sgen/storage/gen/ext_grid, rarely of empty tables), recycle default/False, "
        "run=runpp/rundcpp and a few power-flow options (calculate_voltage_angles, trafo_model, trafo_loading). "
        "Oracle: for every time step the profile row (times scale_factor) is written with plain pandas .loc into a deep "
        "copy of the pristine network, a fresh power flow (no recycle, no stored _ppc) is run and the same cells are read; "
        "OutputWriter set-up and run_timeseries must not raise, ow.output must hold every requested '<table>.<column>' "
        "frame with the time steps as index and the element indices as columns, and all values must agree (powers 1e-5 MVA "
        "+1e-7 rel, vm 1e-8, va 1e-6, currents: power floor as current at the lowest voltage level + 1e-6 rel, loading "
        "1e-4 % + 1e-6 rel; NaN == NaN). "
        "Non-trivial = reference converged at every step, >= 2 steps with different profile values that change at least "
        "one logged value, and the recycle path (dict recycle options; batch reading is labelled separately) was taken; "
        "distinct by case hash.")
ASSUMPTIONS = ["tolerances of DESIGN.md sec. 1.6; solver tolerance_mva scaled with net.sn_mva and passed to both sides",
               "a reference step that does not converge / is rejected makes the case trivial (skipped)",
               "voltage / angle setpoints are only driven for gens/ext_grids that are the only voltage-controlling element "
               "of their electrical node (conflicting setpoints are a documented rejection)",
               "controllers write disjoint cells (distinct (element, variable) pairs), so no write-order dependence",
               "bool (in_service) profiles always get their own DFData frame (DFData: 'take care that the data is numeric'; "
               "a mixed frame yields object rows and scale_factor is silently not applied)",
               "P/Q of gens / ext_grids that share an electrical node with another voltage-controlling element are not "
               "compared individually, nor is res_bus.p_mw/q_mvar of the buses fused into such a node (the split is not "
               "unique, DESIGN sec. 5 rule 4)",
               "both sides are pandapower power flows (differential property by definition)"]

PROFILE = netgen.profile(nb_max=9, nb_level=(1, 4), oos=0, open_prob=0.0, dcline=False, extra_branches=(0, 2),
                         bus_kinds={"load": 5, "sgen": 3, "gen": 3, "storage": 2, "shunt": 1, "ward": 1, "xward": 0,
                                    "motor": 0, "asymmetric_load": 0, "asymmetric_sgen": 0},
                         sn_choices=(1.0, 1.0, 10.0, 100.0))

# development aid: C12_AVOID_KNOWN=1 never generates the shapes of the reported defects
AVOID_ALL = os.environ.get("C12_AVOID_KNOWN", "") == "1"

RES_COLUMNS = {
    "res_bus": ["vm_pu", "va_degree", "p_mw", "q_mvar"],
    "res_line": ["p_from_mw", "q_from_mvar", "p_to_mw", "q_to_mvar", "pl_mw", "ql_mvar", "i_from_ka", "i_to_ka", "i_ka",
                 "vm_from_pu", "vm_to_pu", "va_from_degree", "va_to_degree", "loading_percent"],
    "res_trafo": ["p_hv_mw", "q_hv_mvar", "p_lv_mw", "q_lv_mvar", "pl_mw", "ql_mvar", "i_hv_ka", "i_lv_ka", "vm_hv_pu",
                  "vm_lv_pu", "va_hv_degree", "va_lv_degree", "loading_percent"],
    "res_trafo3w": ["p_hv_mw", "q_hv_mvar", "p_mv_mw", "q_mv_mvar", "p_lv_mw", "q_lv_mvar", "pl_mw", "ql_mvar", "i_hv_ka",
                    "i_mv_ka", "i_lv_ka", "vm_hv_pu", "vm_mv_pu", "vm_lv_pu", "va_hv_degree", "va_mv_degree",
                    "va_lv_degree", "loading_percent"],
    "res_load": ["p_mw", "q_mvar"], "res_sgen": ["p_mw", "q_mvar"], "res_storage": ["p_mw", "q_mvar"],
    "res_gen": ["p_mw", "q_mvar", "va_degree", "vm_pu"], "res_ext_grid": ["p_mw", "q_mvar"],
}
BATCH_TABLES = ("res_bus", "res_line", "res_trafo", "res_trafo3w")
# what the batch reader of the pinned tree knows (used to build selections that take the batch path without tripping
# over the reported defects, and to name the root cause when it is tripped)
BATCH_KEYS = {"res_bus": ["vm_pu", "va_degree"], "res_line": ["i_ka", "i_from_ka", "i_to_ka", "loading_percent"],
              "res_trafo": ["i_hv_ka", "i_lv_ka", "loading_percent"], "res_trafo3w": ["loading_percent"]}
DEFAULT_LOG = [("res_bus", "vm_pu"), ("res_line", "loading_percent")]

PAIRS = [("load", "p_mw"), ("load", "q_mvar"), ("load", "scaling"), ("sgen", "p_mw"), ("sgen", "q_mvar"),
         ("sgen", "scaling"), ("storage", "p_mw"), ("storage", "q_mvar"), ("storage", "scaling"),
         ("gen", "p_mw"), ("gen", "vm_pu"), ("ext_grid", "vm_pu"), ("ext_grid", "va_degree"),
         ("trafo", "tap_pos"), ("trafo3w", "tap_pos"),
         ("line", "length_km"), ("line", "r_ohm_per_km"), ("line", "in_service")]


RECYCLE_CLASS = {"load": "pq", "sgen": "pq", "storage": "pq", "gen": "gen", "ext_grid": "gen", "trafo": "trafo",
                 "trafo3w": "trafo", "line": "line"}


def _ordinals(recipe, t):
    return [e for e in recipe["el"] if e["t"] == t]


def _vn(recipe, e):
    return recipe["buses"][e["bus"]]["vn_kv"]


def _candidates(recipe, et, var):
    """ordinals (k-th element of type et in the recipe) that may be driven by a profile"""
    els = _ordinals(recipe, et)
    if var == "tap_pos":
        return [k for k, e in enumerate(els) if e.get("tap_changer_type") and e["tap_min"] < e["tap_max"]]
    if var in ("vm_pu", "va_degree"):
        node = netgen.nodes_of(recipe)
        cnt = {}
        for e in recipe["el"]:
            if e["t"] in ("gen", "ext_grid"):
                cnt[node[e["bus"]]] = cnt.get(node[e["bus"]], 0) + 1
        return [k for k, e in enumerate(els) if cnt[node[e["bus"]]] == 1]
    if et == "gen" and var == "p_mw":
        return [k for k, e in enumerate(els) if not e.get("slack")]
    return list(range(len(els)))


def _rare(draw, n):
    """True with probability ~1/n (not the value Hypothesis shrinks to / favours)"""
    return draw(st.integers(0, n - 1)) == n // 2 + (1 if n > 2 else 0)


@st.composite
def _value(draw, recipe, et, var, e):
    q = netgen.q
    if var in ("p_mw", "q_mvar"):
        S = netgen.LEVELS[_vn(recipe, e)]["s"]
        lo, hi = {("load", "p_mw"): (0.0, 0.5), ("load", "q_mvar"): (-0.1, 0.25), ("sgen", "p_mw"): (0.0, 0.4),
                  ("sgen", "q_mvar"): (-0.1, 0.1), ("storage", "p_mw"): (-0.3, 0.3), ("storage", "q_mvar"): (-0.1, 0.1),
                  ("gen", "p_mw"): (0.0, 0.5)}[(et, var)]
        return round(S * draw(q(lo, hi, nd=3)), 6)
    if var == "scaling":
        return draw(q(0.0, 2.0, nd=2))
    if var == "vm_pu":
        return draw(q(0.97, 1.04, nd=3))
    if var == "va_degree":
        return round(e.get("va_degree", 0.0) + draw(q(-3.0, 3.0, nd=1)), 3)
    if var == "tap_pos":
        return draw(st.integers(e["tap_min"], e["tap_max"]))
    L = netgen.LEVELS[recipe["buses"][e["from_bus"]]["vn_kv"]]
    if var == "length_km":
        return draw(q(*L["l"]))
    if var == "r_ohm_per_km":
        return draw(q(*L["r"], nd=4))
    if var == "in_service":
        return draw(st.sampled_from([True, True, False]))
    raise KeyError(var)


@st.composite
def _log_selection(draw, recipe, kind):
    """list of {"t": table, "c": column, "idx": None | [ordinals]}"""
    present = {t: len(_ordinals(recipe, t[4:])) for t in RES_COLUMNS if t != "res_bus"}
    present["res_bus"] = len(recipe["buses"])
    out = []
    if kind == "batch-safe":
        # one batch-readable column per bus/branch table (the shape the batch reader of the pinned tree handles)
        tabs = [t for t in BATCH_TABLES if present[t] or _rare(draw, 12)]
        tabs = draw(st.lists(st.sampled_from(tabs), min_size=1, max_size=len(tabs), unique=True))
        for t in tabs:
            out.append({"t": t, "c": draw(st.sampled_from(BATCH_KEYS[t])), "idx": None})
        return out
    if kind == "branchbus":
        tabs = [t for t in BATCH_TABLES if present[t] or _rare(draw, 10)]
    else:
        tabs = [t for t in RES_COLUMNS if present[t] or _rare(draw, 20)]
    n = draw(st.integers(1, 5))
    seen = set()
    for _ in range(n):
        t = draw(st.sampled_from(tabs))
        c = draw(st.sampled_from(RES_COLUMNS[t]))
        if (t, c) in seen:
            continue
        seen.add((t, c))
        idx = None
        if kind == "mixed" and present[t] and _rare(draw, 6):
            idx = draw(st.lists(st.integers(0, present[t] - 1), min_size=1, max_size=3, unique=True))
        out.append({"t": t, "c": c, "idx": idx})
    if kind == "mixed" and _rare(draw, 8):
        # the same column requested twice with different index subsets (documented: the indices are merged)
        cand = [l for l in out if present[l["t"]] >= 2]
        if cand:
            l = draw(st.sampled_from(cand))
            a = draw(st.integers(0, present[l["t"]] - 1))
            b = draw(st.integers(0, present[l["t"]] - 2))
            b = b + 1 if b >= a else b
            l["idx"] = [a]
            out.append({"t": l["t"], "c": l["c"], "idx": [b]})
    return out


@st.composite
def _flags(draw, recipe):
    """out-of-service elements/buses and open switches (netgen's own float draws are heavily biased towards 'everything
    out of service' under Hypothesis, which leaves only the slack bus energized)"""
    slack = next(i for i, e in enumerate(recipe["el"]) if e["t"] == "ext_grid" or e.get("slack"))
    for i, e in enumerate(recipe["el"]):
        if e["t"] == "switch":
            if e.get("closed", True) and _rare(draw, 8 if e["et"] == "b" else 4):
                e["closed"] = False
        elif i != slack and _rare(draw, 12):
            e["in_service"] = False
    for i, b in enumerate(recipe["buses"]):
        if i != recipe["el"][slack]["bus"] and _rare(draw, 25):
            b["in_service"] = False
    return netgen.normalize(recipe)


@st.composite
def _case(draw, tier):
    recipe = draw(_flags(draw(netgen.grid(PROFILE))))
    run = draw(st.sampled_from(["runpp"] * 3 + ["rundcpp"]))
    recycle = draw(st.sampled_from([None, None, None, None, None, False]))
    # the reported defect shapes are left out in most cases so that the search goes on behind them
    if recycle is False:
        avoid_line = draw(st.booleans())        # without recycling line profiles are expected to work
    else:
        avoid_line = AVOID_ALL or not _rare(draw, 10)
    pairs = [p for p in PAIRS if _candidates(recipe, *p) and not (avoid_line and p[0] == "line")]
    if not pairs:
        pairs = [p for p in PAIRS if _candidates(recipe, *p)]
    if not pairs:      # nothing drivable (e.g. only a slack generator): add a load at the first bus
        recipe["el"].append({"t": "load", "bus": 0, "p_mw": round(netgen.LEVELS[recipe["buses"][0]["vn_kv"]]["s"] * 0.1, 6),
                             "q_mvar": 0.0})
        pairs = [("load", "p_mw")]
    # half of the cases drive one recycle class only (PQ elements | gen/ext_grid | transformers | lines), so that
    # every single recycle flag (bus_pq / gen / trafo) is exercised on its own and not only in combinations
    classes = sorted({RECYCLE_CLASS[p[0]] for p in pairs})
    if len(classes) > 1 and draw(st.sampled_from([0, 1])):
        # the rarer classes get more weight (PQ elements dominate the unfocused half anyway)
        cls = draw(st.sampled_from([c for c in classes for _ in range({"pq": 1, "gen": 2, "trafo": 3, "line": 1}[c])]))
        pairs = [p for p in pairs if RECYCLE_CLASS[p[0]] == cls]
    chosen = draw(st.lists(st.sampled_from(pairs), min_size=1, max_size=min(4, len(pairs)), unique=True))
    rows = draw(st.integers(2, 6))
    ctrls = []
    for et, var in chosen:
        cand = _candidates(recipe, et, var)
        els = _ordinals(recipe, et)
        pick = draw(st.lists(st.sampled_from(cand), min_size=1, max_size=min(3, len(cand)), unique=True))
        vals = [[draw(_value(recipe, et, var, els[k])) for k in pick] for _ in range(rows)]
        c = {"et": et, "var": var, "pick": pick, "vals": vals,
             "single": len(pick) == 1 and _rare(draw, 3),
             "scale": draw(st.sampled_from([1.0, 1.0, 1.0, 0.5])) if var in ("p_mw", "q_mvar") else 1.0}
        if _rare(draw, 20):
            c["ctrl_recycle"] = False
        ctrls.append(c)
    tsk = draw(st.sampled_from(["all", "all", "range", "perm"]))
    if tsk == "all":
        steps = list(range(rows))
    elif tsk == "range":
        a = draw(st.integers(0, rows - 2))
        steps = list(range(a, draw(st.integers(a + 2, rows))))
    else:
        steps = list(draw(st.permutations(range(rows))))[:draw(st.integers(2, rows))]
    kind = draw(st.sampled_from(["default", "batch-safe", "batch-safe", "batch-safe", "branchbus",
                                 "mixed", "mixed", "mixed", "mixed", "mixed"]))
    if AVOID_ALL and kind == "branchbus":
        kind = "mixed"
    if kind == "default":
        log, mode = None, "default"
    else:
        log = draw(_log_selection(recipe, kind))
        mode = draw(st.sampled_from(["ctor", "ctor", "method"]))
    pf = {}
    if run == "runpp":
        if _rare(draw, 3):
            pf["calculate_voltage_angles"] = draw(st.booleans())
    if _rare(draw, 4):
        pf["trafo_loading"] = "power"
    if _rare(draw, 6):
        pf["trafo_model"] = "pi"
    return {"recipe": recipe, "ctrls": ctrls, "rows": rows, "time_steps": steps, "steps_as": draw(st.sampled_from(["list", "range"])),
            "shared_ds": draw(st.booleans()), "log": log, "log_mode": mode, "log_kind": kind, "recycle": recycle, "run": run, "pf": pf}


def strategy(tier):
    return _case(tier)


# ---------------------------------------------------------------------------------------------------------------------

def _tol(col, sn, vn_min):
    """(atol, rtol) by column kind (DESIGN.md sec. 1.6); the absolute floor of currents is the power floor expressed
    as a current at the lowest voltage level of the network"""
    p_floor = 1e-5 * max(1.0, sn / 100.0)
    if col.endswith("_mw") or col.endswith("_mvar"):
        return p_floor, 1e-7
    if col.startswith("vm_") or col == "vm_pu":
        return 1e-8, 0.0
    if col.startswith("va_"):
        return 1e-6, 0.0
    if col.endswith("_ka"):
        return p_floor / (math.sqrt(3) * vn_min), 1e-6
    return 1e-4, 1e-6      # loading_percent


def _requested(case, maps):
    """ordered list of (table, column, index-or-None) the OutputWriter is asked to record, merged per (table, column)"""
    req = []
    if case["log_mode"] in ("default", "method"):
        req += [(t, c, None) for t, c in DEFAULT_LOG]
    for l in case["log"] or []:
        idx = None
        if l["idx"] is not None:
            labels = maps["bus"] if l["t"] == "res_bus" else maps.get(l["t"][4:], [])
            idx = [labels[k] for k in l["idx"]]
        req.append((l["t"], l["c"], idx))
    merged = {}
    order = []
    for t, c, idx in req:
        key = (t, c)
        if key not in merged:
            merged[key] = idx
            order.append(key)
        elif merged[key] is None or idx is None:
            merged[key] = None
        else:
            merged[key] = merged[key] + [i for i in idx if i not in merged[key]]
    return [(t, c, merged[(t, c)]) for t, c in order]


def _controller_cells(case, maps):
    out = []
    for c in case["ctrls"]:
        idx = [maps[c["et"]][k] for k in c["pick"]]
        out.append((c, idx))
    return out


def _apply_row(net, cells, row):
    """the reference semantics of one time step: plain pandas writes of (profile value * scale_factor)"""
    for c, idx in cells:
        vals = c["vals"][row]
        if c["var"] in ("p_mw", "q_mvar", "scaling", "vm_pu", "va_degree", "length_km", "r_ohm_per_km"):
            vals = [v * c["scale"] for v in vals]
        for i, v in zip(idx, vals):
            net[c["et"]].loc[i, c["var"]] = v


def _run_pf(pp, net, case, sn):
    if case["run"] == "rundcpp":
        pp.rundcpp(net, **case["pf"])
    else:
        pp.runpp(net, tolerance_mva=pf_tol(sn), **case["pf"])


def _make_output_writer(OutputWriter, net, case, maps):
    def labels(l):
        lab = maps["bus"] if l["t"] == "res_bus" else maps.get(l["t"][4:], [])
        return [lab[k] for k in l["idx"]]
    if case["log_mode"] == "default":
        return OutputWriter(net, output_path=None)
    if case["log_mode"] == "ctor":
        lv = [(l["t"], l["c"]) if l["idx"] is None else (l["t"], l["c"], labels(l)) for l in case["log"]]
        return OutputWriter(net, output_path=None, log_variables=lv)
    ow = OutputWriter(net, output_path=None)
    for l in case["log"]:
        if l["idx"] is None:
            ow.log_variable(l["t"], l["c"])
        else:
            ow.log_variable(l["t"], l["c"], index=labels(l))
    return ow


def _batch_prediction(req):
    """first selection entry the batch reader of the pinned tree cannot serve -> root-cause tag (None: all fine)"""
    seen = set()
    for t, c, idx in req:
        if t in seen and t != "res_trafo3w":
            return "second-column-of-table"
        seen.add(t)
        if c not in BATCH_KEYS.get(t, []):
            if t == "res_trafo3w" and c in ("i_hv_ka", "i_mv_ka", "i_lv_ka"):
                return "trafo3w-current-key"
            return "unsupported-column"
    return None


def check(case):
    import numpy as np
    import pandas as pd
    import pandapower as pp
    from pandapower.control import ConstControl
    from pandapower.timeseries import DFData, OutputWriter, run_timeseries
    from pandapower.timeseries.run_time_series import _check_controller_recyclability

    res = Result()
    recipe = case["recipe"]
    sn = recipe.get("sn_mva", 1.0)
    with silence():
        base, maps = netgen.build(recipe)
    cells = _controller_cells(case, maps)
    steps = list(case["time_steps"])
    req = _requested(case, maps)
    res.label("run:" + case["run"], "log:" + case["log_kind"], "logmode:" + case["log_mode"])
    for c in case["ctrls"]:
        res.label("ctrl:%s.%s" % (c["et"], c["var"]))

    # ---- reference loop: fresh power flow per step on a deep copy of the pristine network
    ref = {}      # (table, column) -> list of rows (np arrays)
    ref_vm = []
    for ts in steps:
        net_r = copy.deepcopy(base)
        _apply_row(net_r, cells, ts)
        try:
            with silence():
                _run_pf(pp, net_r, case, sn)
        except Exception as e:
            kind, what = pf_outcome(e)
            res.skipped = "ref:" + (what if kind == "skip" else "crash/" + exc_sig(e))
            return res
        ref_vm.append(net_r.res_bus.va_degree.values)
        for t, c, idx in req:
            tab = net_r[t]
            col = tab[c] if c in tab.columns else pd.Series(np.nan, index=tab.index)
            vals = col.values.astype(float) if idx is None else col.loc[idx].values.astype(float)
            ref.setdefault((t, c), []).append(vals)

    # ---- code under test
    net = copy.deepcopy(base)
    frames = []
    if case["shared_ds"]:
        data, col = {}, 0
        for c, idx in cells:
            names = list(range(col, col + len(idx)))
            col += len(idx)
            if c["var"] != "in_service":     # DFData: "take care that the data is numeric" -> bool profiles get their own frame
                for j, n in enumerate(names):
                    data[n] = [r[j] for r in c["vals"]]
            frames.append(names)
        ds_all = DFData(pd.DataFrame(data, index=range(case["rows"])))
    with silence():
        for k, (c, idx) in enumerate(cells):
            if case["shared_ds"] and c["var"] != "in_service":
                names, ds = frames[k], ds_all
            else:
                names = list(range(len(idx)))
                ds = DFData(pd.DataFrame({n: [r[j] for r in c["vals"]] for j, n in enumerate(names)}, index=range(case["rows"])))
            kw = {}
            if c.get("ctrl_recycle") is False:
                kw["recycle"] = False
            if c["single"]:
                ConstControl(net, c["et"], c["var"], element_index=idx[0], profile_name=names[0], data_source=ds,
                             scale_factor=c["scale"], **kw)
            else:
                ConstControl(net, c["et"], c["var"], element_index=idx, profile_name=names, data_source=ds,
                             scale_factor=c["scale"], **kw)
    try:
        with silence():
            ow = _make_output_writer(OutputWriter, net, case, maps)
    except Exception as e:
        res.fail("exc/output-writer-setup/%s" % exc_sig(e), error=repr(e)[:300], log=case["log"], log_mode=case["log_mode"])
        return res
    rec = _check_controller_recyclability(net) if case["recycle"] is None else False
    recycled = isinstance(rec, dict)
    # batch eligibility as run_timeseries decides it: only 2-tuples of bus/branch tables, no transformer profile, AC
    batch_expected = (recycled and case["run"] == "runpp" and not rec["trafo"]
                      and all(len(o) == 2 and o[0] in BATCH_TABLES for o in ow.log_variables))
    line_ctrl = any(c["et"] == "line" for c in case["ctrls"])
    mode = "batch" if batch_expected else ("recycle" if recycled else "plain")
    res.label("mode:" + mode)
    if line_ctrl:
        res.label("line-ctrl")
    kw = dict(case["pf"])
    if case["run"] == "rundcpp":
        kw["run"] = pp.rundcpp
    else:
        kw["tolerance_mva"] = pf_tol(sn)
    if case["recycle"] is False:
        kw["recycle"] = False
    tsteps = steps
    if case["steps_as"] == "range" and steps == list(range(steps[0], steps[-1] + 1)):
        tsteps = range(steps[0], steps[-1] + 1)
    try:
        with silence():
            run_timeseries(net, time_steps=tsteps, verbose=False, **kw)
    except Exception as e:
        kind, what = pf_outcome(e)
        if kind == "skip" and what == "not-converged":
            # every reference step converged: the time series loop lost a solvable step
            cause = _recycle_cause(base, case, mode)
            res.fail("recycle/" + cause if cause else "ts-not-converged/%s" % mode, error=repr(e)[:200])
        elif kind == "skip":
            res.fail("ts-rejected/%s/%s" % (mode, what), error=repr(e)[:300])
        elif mode == "recycle" and _recycle_cause(base, case, mode):
            res.fail("recycle/" + _recycle_cause(base, case, mode), error=repr(e)[:300], where=exc_sig(e))
        else:
            sig = exc_sig(e)
            empty = [t for t, _, _ in req if t in BATCH_TABLES and not len(base["bus" if t == "res_bus" else t[4:]])]
            if mode == "batch" and empty and sig in ("KeyError@timeseries/read_batch_results.py:get_batch_line_results",
                                                     "TypeError@timeseries/output_writer.py:get_batch_outputs"):
                # the batch reader has no branch range for a table without elements (lines: KeyError, trafos: None)
                res.fail("exc/batch/empty-table", error=repr(e)[:300], where=sig, empty=empty)
                return res
            tag = _batch_prediction(req) if mode == "batch" and sig.endswith(":get_batch_outputs") else None
            if (tag, type(e).__name__) not in (("unsupported-column", "KeyError"), ("trafo3w-current-key", "KeyError"),
                                                ("second-column-of-table", "ValueError")):
                tag = None
            res.fail("exc/%s/%s%s" % (mode, sig, "/" + tag if tag else ""), error=repr(e)[:300],
                     requested=[(t, c) for t, c, _ in req])
        return res

    # ---- compare
    out = ow.output
    from pbt import oracles
    node = oracles.fused_nodes(base)
    vc = [(et, i, node[base[et].at[i, "bus"]]) for et in ("gen", "ext_grid") for i in base[et].index]
    shared_vc = {(et, i) for et, i, n in vc if sum(1 for _, _, m in vc if m == n) > 1}
    shared_nodes = {n for et, i, n in vc if (et, i) in shared_vc and sum(1 for m in node.values() if m == n) > 1}
    changed = False
    for t, c, idx in req:
        name = "%s.%s" % (t, c)
        exp = np.array(ref[(t, c)], dtype=float).reshape(len(steps), -1)
        if exp.shape[0] >= 2 and exp.shape[1] and not all(
                np.array_equal(exp[0], r, equal_nan=True) for r in exp[1:]):
            changed = True
        etab = "bus" if t == "res_bus" else t[4:]
        labels = list(base[etab].index) if idx is None else list(idx)
        if name not in out:
            res.fail("missing/%s/%s" % (mode, "batch-table" if t in BATCH_TABLES else "element-table"), variable=name,
                     have=sorted(k for k in out if k != "Parameters"))
            continue
        df = out[name]
        if list(df.index) != steps:
            res.fail("index/%s" % mode, variable=name, have=list(df.index), want=steps)
            continue
        got = df.values.astype(float)
        if got.shape != exp.shape:
            res.fail("shape/%s/%s" % (mode, t), variable=name, have=list(got.shape), want=list(exp.shape))
            continue
        atol, rtol = _tol(c, sn, float(base.bus.vn_kv.min()))
        bad = ~((np.abs(got - exp) <= atol + rtol * np.maximum(np.abs(got), np.abs(exp))) | (np.isnan(got) & np.isnan(exp)))
        if t in ("res_gen", "res_ext_grid") and c in ("p_mw", "q_mvar"):
            # the split of P/Q between several voltage-controlling elements of one node is not unique (DESIGN sec. 5.4)
            for k, lab in enumerate(labels):
                if (t[4:], lab) in shared_vc:
                    bad[:, k] = False
        if t == "res_bus" and c in ("p_mw", "q_mvar"):
            # ... and so is the bus power of the buses that are fused into such a node
            for k, lab in enumerate(labels):
                if node[lab] in shared_nodes:
                    bad[:, k] = False
        if bad.any():
            r, k = [int(x) for x in np.argwhere(bad)[0]]
            el = labels[k] if k < len(labels) else None
            cause = _recycle_cause(base, case, mode)
            if cause:
                sig = "recycle/" + cause
            elif mode == "batch" and math.isnan(got[r, k]) and exp[r, k] == 0.0 and t in BATCH_TABLES[1:] and \
                    set(_features(base, t, el).split("+")) & {"oos-element", "at-oos-bus"}:
                sig = "batch/nan-instead-of-0/disabled-branch"
            else:
                nan_kind = "nan" if (math.isnan(got[r, k]) != math.isnan(exp[r, k])) else "value"
                sig = "%s/%s/%s/%s" % (nan_kind, mode, t, _features(base, t, el))
            res.fail(sig, variable=name, step=steps[r], step_pos=r, column=k, element=el, got=got[r, k], want=exp[r, k],
                     n_bad=int(bad.sum()), first_bad_steps=sorted({int(x[0]) for x in np.argwhere(bad)})[:6])
            continue
        if list(df.columns) != labels:
            res.fail("columns/%s" % mode, variable=name, have=[_j(x) for x in df.columns][:12], want=labels[:12])
    n_live = int(np.isfinite(np.array(ref_vm[0], dtype=float)).sum()) if ref_vm else 0
    res.label("live-buses:%s" % ("1" if n_live <= 1 else "2-3" if n_live <= 3 else ">=4"))
    rows_differ = len({repr([c["vals"][s] for c in case["ctrls"]]) for s in steps}) >= 2
    res.nontrivial = bool(recycled and rows_differ and changed)
    if rows_differ and changed:
        res.label("effective-profile")
    if len(steps) != case["rows"] or steps != sorted(steps):
        res.label("steps:subset-or-permuted")
    if any(idx is not None for _, _, idx in req):
        res.label("log:index-subset")
    return res


def _j(x):
    try:
        return int(x)
    except Exception:
        return repr(x)


def _recycle_cause(net, case, mode):
    """input shapes for which the recycled power flow is known to work on stale / rewired branch data"""
    if mode == "plain":
        return None
    if any(c["et"] == "line" for c in case["ctrls"]):
        return "line-ctrl"
    if any(c["et"] in ("trafo", "trafo3w") for c in case["ctrls"]):
        sw = net.switch
        if len(sw) and (sw.et.isin(["t", "t3"]) & ~sw.closed).any():
            return "tap-ctrl+open-trafo-switch"
    return None


def _features(net, table, element):
    """facts about the element whose recorded value is wrong (names the root cause class of a value mismatch)"""
    f = []
    et = "bus" if table == "res_bus" else table[4:]
    if element is None or element not in net[et].index:
        return "?"
    row = net[et].loc[element]
    if not bool(row["in_service"]):
        f.append("oos-element")
    buses = [int(row[k]) for k in netgen.BUS_KEYS if k in row.index] if et != "bus" else [element]
    if et != "bus" and (~net.bus.in_service.loc[buses]).any():
        f.append("at-oos-bus")
    code = {"line": "l", "trafo": "t", "trafo3w": "t3"}.get(et)
    sw = net.switch
    if code and len(sw) and ((sw.et == code) & (sw.element == element) & ~sw.closed).any():
        f.append("open-switch")
    if et == "bus" and len(sw) and ((sw.et == "b") & ((sw.bus == element) | (sw.element == element)) & sw.closed).any():
        f.append("bus-bus-switch")
    return "+".join(f) or "in-service"
