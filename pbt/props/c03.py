"""C03 - Energy conservation and non-negative losses of passive branches (DESIGN.md sec. 2, C03)."""
import math

from hypothesis import strategies as st

from pbt import netgen, oracles, refmodel
from pbt.core import Result, silence, pf_outcome
from pbt.props import c01

ID = "C03"
LEVEL = "exploration"
EXAMPLES = {"quick": 960, "thorough": 40000}
RULE = ("Same generator family as C01 (all element kinds, phase shifters, several slacks/islands, dclines; r, g, pfe >= 0 by "
        "construction), AC (option matrix) or DC. Oracle: every branch result row has pl_mw = sum of its terminal p (and ql), "
        "pl_mw >= -tol for every passive branch (lines, 2W/3W transformers, symmetric impedances, impedance switches), total "
        "generation - total consumption = sum of all reported branch losses (+ impedance-switch and dcline losses); DC: all "
        "pl_mw = 0 and generation = consumption. Non-trivial = converged with >= 2 lines/transformers reporting pl_mw > 1e-9 MW.")
ASSUMPTIONS = ["pl >= 0 of a 3W transformer is only demanded if all three star-equivalent winding resistances are >= 0",
               "pl >= 0 is only demanded for impedance elements with equal ft/tf parameters (an asymmetric two-port is not reciprocal)",
               "tolerance 1e-5 MVA + 1e-7 relative; pl >= -1e-7 MW - 1e-9 relative"]

TERMINALS = {"line": ("p_from_mw", "p_to_mw"), "trafo": ("p_hv_mw", "p_lv_mw"), "trafo3w": ("p_hv_mw", "p_mv_mw", "p_lv_mw"),
             "impedance": ("p_from_mw", "p_to_mw"), "dcline": ("p_from_mw", "p_to_mw")}


def strategy(tier):
    return c01.strategy(tier)


def check(case):
    res = Result()
    recipe, opt = case["recipe"], case["opt"]
    net, maps = netgen.build(recipe)
    dc = opt["mode"] == "dc"
    res.label("mode:" + opt["mode"])
    try:
        c01.run_pf(net, opt, recipe)
    except Exception as e:
        kind, what = pf_outcome(e)
        if kind == "skip":
            res.skipped = what
        else:
            res.fail(what, error=repr(e)[:300])
        return res
    sn = recipe.get("sn_mva", 1.0)
    floor = 1e-5 * max(1.0, sn / 100.0)
    total_loss = 0.0
    loaded = 0
    for tab, pcols in TERMINALS.items():
        if not len(net[tab]):
            continue
        rt = net["res_" + tab]
        for idx in net[tab].index:
            ps = [rt.at[idx, c] for c in pcols]
            pl = rt.at[idx, "pl_mw"]
            if any(math.isnan(x) for x in ps) or math.isnan(pl):
                continue
            s = sum(ps)
            tol = floor + 1e-7 * max(abs(x) for x in ps)
            if abs(pl - s) > tol:
                res.fail("pl-not-sum-of-terminals/%s/%s" % (tab, opt["mode"]), element=int(idx), pl=pl, terminals=ps)
            total_loss += pl
            passive = True
            if tab == "impedance":
                r = net.impedance.loc[idx]
                passive = (r.rft_pu == r.rtf_pu and r.xft_pu == r.xtf_pu and
                           all(r.get(a, 0) == r.get(b, 0) for a, b in (("gf_pu", "gt_pu"), ("bf_pu", "bt_pu"))))
            if tab == "dcline":
                passive = False
            if tab == "trafo3w":
                # the documented star equivalent can contain a negative winding resistance (delta-star conversion of
                # the vkr values); such a branch is outside "series resistance non-negative"
                _, vkr_s, _ = refmodel.trafo3w_star_parameters(net.trafo3w.loc[idx])
                passive = min(vkr_s) >= 0
            if dc and tab != "dcline":
                if abs(pl) > 1e-9 * max(1.0, max(abs(x) for x in ps)):
                    res.fail("dc-loss-nonzero/%s" % tab, element=int(idx), pl=pl)
            elif passive and pl < -(1e-7 * max(1.0, sn / 100.0) + 1e-9 * max(abs(x) for x in ps)):
                res.fail("negative-loss/%s/%s" % (tab, opt["mode"]), element=int(idx), pl=pl, terminals=ps)
            if tab in ("line", "trafo", "trafo3w") and pl > 1e-9:
                loaded += 1
    # impedance switches
    if len(net.switch) and "p_from_mw" in net.res_switch:
        rs = net.res_switch
        for idx in net.switch.index:
            if net.switch.at[idx, "et"] == "b" and idx in rs.index and not math.isnan(float(rs.at[idx, "p_from_mw"])):
                s = float(rs.at[idx, "p_from_mw"]) + float(rs.at[idx, "p_to_mw"])
                total_loss += s
                if dc and abs(s) > 1e-9:
                    res.fail("dc-loss-nonzero/switch", element=int(idx), pl=s)
                if not dc and s < -1e-7 * max(1.0, sn / 100.0):
                    res.fail("negative-loss/switch/ac", element=int(idx), pl=s)
    # global conservation: -(sum of bus element consumption) = generation - consumption
    esum = oracles.bus_element_sum(net, dc=dc, include_dcline=False)
    gen_minus_cons = -sum(v.real for v in esum.values())
    scale = sum(abs(v.real) for v in esum.values())
    if abs(gen_minus_cons - total_loss) > floor * 3 + 1e-7 * scale:
        res.fail("conservation/%s" % opt["mode"], generation_minus_consumption=gen_minus_cons, total_losses=total_loss)
    res.nontrivial = loaded >= 2
    if any(e["t"] == "trafo" and e.get("tap_changer_type") == "Ideal" or (e["t"] == "trafo" and e.get("tap_step_degree")) for e in recipe["el"]):
        res.label("phase-shifter")
    if any(e["t"] == "trafo3w" for e in recipe["el"]):
        res.label("trafo3w")
    if any(e["t"] == "impedance" for e in recipe["el"]):
        res.label("impedance")
    if any(e["t"] == "dcline" for e in recipe["el"]):
        res.label("dcline")
    return res
