"""C07 - Unsupplied parts are reported as unsupplied, everything else is solved (DESIGN.md sec. 2, C07)."""
import math

from hypothesis import strategies as st

from pbt import netgen
from pbt.core import Result, pf_tol, silence, exc_sig, pf_outcome

ID = "C07"
LEVEL = "exploration"
EXAMPLES = {"quick": 960, "thorough": 40000}
RULE = ("Hypothesis draws a network recipe with random in_service flags on buses/branches/slacks and open/closed switches "
        "of all four kinds (b, l, t, t3), slack gens, several slacks, slack-less islands; AC or DC power flow. Oracle: own "
        "breadth-first search over the recipe (in-service branches between in-service buses with closed end switches, closed "
        "bus-bus switches, 3W windings via the star point) from the in-service slacks: isnan(res_bus.vm_pu) <=> not reachable; "
        "the NaN set equals topology.unsupplied_buses; elements at unsupplied/out-of-service buses and out-of-service elements "
        "report no power (0 or NaN); reachable buses have finite vm/va. Non-trivial = converged with >=1 unsupplied in-service "
        "bus and >=1 supplied bus; distinct by case hash.")
ASSUMPTIONS = ["dclines are not generated (an edge for the topology module but not an energizing AC connection)",
               "a result of NaN counts as 'no power reported' like 0",
               "'No reference bus' / non-convergence are legal outcomes (counted as skipped)"]

PROFILE = netgen.profile(oos=0.15, open_prob=0.4, dcline=False, second_slack=2,
                         level_sets=netgen.LEVEL_SETS + [[110.0, 20.0, 0.4], [380.0, 110.0, 20.0], [220.0, 110.0, 10.0]] * 3, noslack_island=True,
                         bus_kinds={"load": 5, "sgen": 3, "gen": 2, "storage": 1, "shunt": 1, "ward": 1, "xward": 1, "motor": 1,
                                    "asymmetric_load": 0, "asymmetric_sgen": 0},
                         zip=False, max_per_bus=2)


@st.composite
def _case(draw, tier):
    recipe = draw(netgen.grid(PROFILE))
    mode = draw(st.sampled_from(["ac", "ac", "ac", "dc"]))
    return {"recipe": recipe, "mode": mode,
            "numba": draw(st.sampled_from([True, True, False])),
            "lightsim2grid": draw(st.sampled_from([False, "auto"]))}


def strategy(tier):
    return _case(tier)


def reachable_buses(recipe):
    """own BFS over the recipe -> set of bus positions energized from an in-service slack"""
    nb = len(recipe["buses"])
    bus_is = [b.get("in_service", True) for b in recipe["buses"]]
    adj = {i: set() for i in range(nb)}
    extra = 0
    # open switches per (et, ordinal, bus)
    open_sw = set()
    for e in recipe["el"]:
        if e["t"] == "switch" and e["et"] != "b" and not e.get("closed", True):
            open_sw.add((e["et"], e["element"], e["bus"]))
    cnt = {"line": 0, "trafo": 0, "trafo3w": 0}

    def link(a, b):
        adj.setdefault(a, set()).add(b)
        adj.setdefault(b, set()).add(a)

    for e in recipe["el"]:
        t = e["t"]
        if t in cnt:
            k = cnt[t]
            cnt[t] += 1
        if t == "line":
            a, b = e["from_bus"], e["to_bus"]
            if e.get("in_service", True) and bus_is[a] and bus_is[b] and ("l", k, a) not in open_sw and ("l", k, b) not in open_sw:
                link(a, b)
        elif t == "trafo":
            a, b = e["hv_bus"], e["lv_bus"]
            if e.get("in_service", True) and bus_is[a] and bus_is[b] and ("t", k, a) not in open_sw and ("t", k, b) not in open_sw:
                link(a, b)
        elif t == "trafo3w":
            if e.get("in_service", True):
                star = ("star", k)
                for key in ("hv_bus", "mv_bus", "lv_bus"):
                    b = e[key]
                    if bus_is[b] and ("t3", k, b) not in open_sw:
                        link(star, b)
        elif t == "impedance":
            a, b = e["from_bus"], e["to_bus"]
            if e.get("in_service", True) and bus_is[a] and bus_is[b]:
                link(a, b)
        elif t == "switch" and e["et"] == "b":
            a, b = e["bus"], e["element"]
            if e.get("closed", True) and bus_is[a] and bus_is[b]:
                link(a, b)
    slacks = set()
    for e in recipe["el"]:
        if e.get("in_service", True) and (e["t"] == "ext_grid" or (e["t"] == "gen" and e.get("slack"))) and bus_is[e["bus"]]:
            slacks.add(e["bus"])
    seen = set(slacks)
    todo = list(slacks)
    while todo:
        a = todo.pop()
        for b in adj.get(a, ()):
            if b not in seen:
                seen.add(b)
                todo.append(b)
    return {b for b in seen if isinstance(b, int)}, slacks


POWER_COLS = {"load": ["p_mw", "q_mvar"], "sgen": ["p_mw", "q_mvar"], "gen": ["p_mw", "q_mvar"], "ext_grid": ["p_mw", "q_mvar"],
              "storage": ["p_mw", "q_mvar"], "shunt": ["p_mw", "q_mvar"], "ward": ["p_mw", "q_mvar"], "xward": ["p_mw", "q_mvar"],
              "motor": ["p_mw", "q_mvar"]}


def check(case):
    import pandapower as pp
    import pandapower.topology as top
    res = Result()
    recipe = case["recipe"]
    net, maps = netgen.build(recipe)
    dc = case["mode"] == "dc"
    res.label("mode:" + case["mode"])
    try:
        with silence():
            if dc:
                pp.rundcpp(net)
            else:
                pp.runpp(net, tolerance_mva=pf_tol(recipe.get("sn_mva", 1.0)), max_iteration=30, numba=case["numba"],
                         lightsim2grid=case["lightsim2grid"], calculate_voltage_angles=True)
    except Exception as e:
        kind, what = pf_outcome(e)
        if kind == "skip":
            res.skipped = what
        else:   # a valid network must be solved or rejected with a documented error, not crash
            res.fail(what, error=repr(e)[:300])
        return res
    reach, slacks = reachable_buses(recipe)
    blab = maps["bus"]
    vm = net.res_bus.vm_pu
    va = net.res_bus.va_degree
    n_unsup = n_sup = 0
    for pos, lab in enumerate(blab):
        ins = recipe["buses"][pos].get("in_service", True)
        isnan = math.isnan(vm.at[lab])
        if not ins:
            if not isnan:
                res.fail("oos-bus-has-voltage", bus=pos, vm=vm.at[lab])
            continue
        if pos in reach:
            n_sup += 1
            if isnan or math.isnan(va.at[lab]):
                res.fail("supplied-bus-is-nan/" + case["mode"], bus=pos, vm=vm.at[lab], va=va.at[lab])
        else:
            n_unsup += 1
            if not isnan:
                res.fail("unsupplied-bus-has-voltage/" + case["mode"], bus=pos, vm=vm.at[lab], va=va.at[lab])
    # agreement with the topology module (in-service buses)
    try:
        tu = set(top.unsupplied_buses(net))
    except Exception as e:   # the topology module must handle every generated net
        res.fail("unsupplied_buses-raises/" + exc_sig(e))
        tu = None
    if tu is not None:
        nanset = {lab for pos, lab in enumerate(blab) if recipe["buses"][pos].get("in_service", True) and math.isnan(vm.at[lab])}
        tu_is = {b for b in tu if net.bus.at[b, "in_service"]}
        if nanset != tu_is:
            res.fail("nan-set-differs-from-topology.unsupplied_buses/" + case["mode"], only_nan=sorted(nanset - tu_is)[:5],
                     only_topology=sorted(tu_is - nanset)[:5])
    # no power at unsupplied / out-of-service buses and for out-of-service elements
    dead = {lab for pos, lab in enumerate(blab) if pos not in reach or not recipe["buses"][pos].get("in_service", True)}
    for tab, cols in POWER_COLS.items():
        if not len(net[tab]) or not len(net["res_" + tab]):
            continue
        rt = net["res_" + tab]
        for idx in net[tab].index:
            if net[tab].at[idx, "bus"] in dead or not net[tab].at[idx, "in_service"]:
                for c in cols:
                    v = rt.at[idx, c]
                    if not (math.isnan(v) or abs(v) < 1e-12):
                        why = "oos-element" if not net[tab].at[idx, "in_service"] else "dead-bus"
                        res.fail("power-at-%s/%s/%s" % (why, tab, case["mode"]), element=int(idx), col=c, value=v)
    for tab, ends in (("line", ("from_bus", "to_bus")), ("trafo", ("hv_bus", "lv_bus")), ("impedance", ("from_bus", "to_bus"))):
        if not len(net[tab]):
            continue
        rt = net["res_" + tab]
        pcols = [c for c in rt.columns if c.startswith("p_") or c.startswith("q_")]
        for idx in net[tab].index:
            alldead = all(net[tab].at[idx, e] in dead for e in ends)
            if alldead or not net[tab].at[idx, "in_service"]:
                for c in pcols:
                    v = rt.at[idx, c]
                    if not (math.isnan(v) or abs(v) < 1e-12):
                        res.fail("power-on-dead-branch/%s/%s" % (tab, case["mode"]), element=int(idx), col=c, value=v)
    res.nontrivial = n_unsup >= 1 and n_sup >= 1
    if n_unsup:
        res.label("unsupplied-in-service-bus")
    if any(e["t"] == "trafo3w" for e in recipe["el"]):
        res.label("trafo3w")
    if any(e["t"] == "switch" and e["et"] == "t3" and not e["closed"] for e in recipe["el"]):
        res.label("open-t3-switch")
    if any(e["t"] == "switch" and e["et"] == "b" and not e["closed"] for e in recipe["el"]):
        res.label("open-bb-switch")
    if any(e["t"] == "switch" and e["et"] in ("l", "t") and not e["closed"] for e in recipe["el"]):
        res.label("open-branch-switch")
    if any(not b.get("in_service", True) for b in recipe["buses"]):
        res.label("oos-bus")
    if len(slacks) > 1:
        res.label("multi-slack")
    return res
