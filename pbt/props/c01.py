"""C01 - Kirchhoff power balance at every bus (DESIGN.md sec. 2, C01)."""
import math

from hypothesis import strategies as st

from pbt import netgen, oracles, qcal
from pbt.core import Result, pf_tol, silence, exc_sig, pf_outcome

ID = "C01"
LEVEL = "exploration"
EXAMPLES = {"quick": 960, "thorough": 40000}
RULE = ("Hypothesis draws a network recipe (1-3 voltage levels, <=14 buses, all supported bus/branch element kinds, "
        "ZIP loads, fused buses, impedance switches, open switches, out-of-service parts, dclines) and a power-flow "
        "option set (AC: voltage_depend_loads, trafo_model, angles, numba, enforce_q_lims, lightsim2grid; or DC). "
        "Oracle: per electrical node (own union-find over closed z=0 bus-bus switches) sum of element results + sum of "
        "branch terminal results = 0, and res_bus.p_mw/q_mvar = net element consumption per bus. "
        "Non-trivial = converged and some node carries >=2 bus elements of different kind or ZIP share; distinct by recipe hash.")
ASSUMPTIONS = ["balance tolerance 1e-5 MVA + 1e-7 relative (measured floor of pypower's Q split)",
               "solver tolerance_mva scaled with net.sn_mva", "non-convergence / documented rejections are legal and counted"]

PROFILE = netgen.profile(dcline=True, oos=0.06, open_prob=0.25, slack_any_level=True,
                         bus_kinds={"load": 6, "sgen": 3, "gen": 2, "storage": 1, "shunt": 1, "ward": 1, "xward": 1,
                                    "motor": 1, "asymmetric_load": 1, "asymmetric_sgen": 1})


QLIM_PROFILE = netgen.profile(dcline=False, oos=0.03, open_prob=0.15, second_slack=3, noslack_island=False,
                              gen_qlim_range=(0.002, 0.08), level_sets=[[110.0], [20.0], [110.0, 20.0], [20.0, 0.4]], nb_level=(3, 5),
                              bus_kinds={"load": 5, "sgen": 2, "gen": 6, "storage": 1, "shunt": 2, "ward": 1, "xward": 0, "motor": 0,
                                         "asymmetric_load": 0, "asymmetric_sgen": 0})


# networks that take the "single slack" fast result path: one ext_grid, no gens/xwards/dclines, no line charging,
# shunts and wards purely resistive (or none)
SINGLE_SLACK_PROFILE = netgen.profile(dcline=False, oos=0.03, open_prob=0.15, second_slack=False, slack_gen=False, noslack_island=False,
                                      zip=False, resistive_shunts=True, trafo3w=False,
                                      bus_kinds={"load": 6, "sgen": 3, "gen": 0, "storage": 1, "shunt": 2, "ward": 2, "xward": 0,
                                                 "motor": 1, "asymmetric_load": 0, "asymmetric_sgen": 0})


@st.composite
def _case(draw, tier):
    if draw(st.integers(0, 7)) == 0:
        recipe = draw(netgen.grid(SINGLE_SLACK_PROFILE))
        for e in recipe["el"]:
            if e["t"] == "line":
                e["c_nf_per_km"] = 0.0
                e.pop("g_us_per_km", None)
            if e["t"] == "trafo":
                e["i0_percent"], e["pfe_kw"] = 0.0, 0.0
            if e["t"] == "impedance":
                for k in ("gf_pu", "bf_pu", "gt_pu", "bt_pu"):
                    e.pop(k, None)
        return {"recipe": recipe, "opt": {"mode": "ac", "voltage_depend_loads": False, "trafo_model": draw(st.sampled_from(["t", "pi"])),
                                          "calculate_voltage_angles": draw(st.booleans()), "numba": True, "enforce_q_lims": False,
                                          "lightsim2grid": draw(st.sampled_from([False, "auto"]))}}
    qlim = draw(st.integers(0, 4)) == 0
    if qlim:
        # many generators with narrow reactive limits: limits that become binding one after the other
        recipe = draw(netgen.grid(QLIM_PROFILE))
        return {"recipe": recipe, "opt": {"mode": "ac", "voltage_depend_loads": draw(st.booleans()), "trafo_model": "t",
                                          "calculate_voltage_angles": True, "numba": draw(st.booleans()), "enforce_q_lims": True,
                                          "lightsim2grid": False},
                "qcal": draw(qcal.factors()) if draw(st.integers(0, 2)) else None}
    recipe = draw(netgen.grid(PROFILE))
    if draw(st.integers(0, 4)) == 0:
        opt = {"mode": "dc"}
    else:
        opt = {"mode": "ac",
               "voltage_depend_loads": draw(st.sampled_from([True, True, False])),
               "trafo_model": draw(st.sampled_from(["t", "pi"])),
               "calculate_voltage_angles": draw(st.sampled_from([True, True, False])),
               "numba": draw(st.sampled_from([True, True, False])),
               "enforce_q_lims": draw(st.sampled_from([False, False, True])),
               "lightsim2grid": draw(st.sampled_from([False, "auto"]))}
    return {"recipe": recipe, "opt": opt}


def strategy(tier):
    return _case(tier)


def run_pf(net, opt, recipe):
    import pandapower as pp
    o = dict(opt)
    mode = o.pop("mode")
    with silence():
        if mode == "dc":
            pp.rundcpp(net)
        else:
            pp.runpp(net, tolerance_mva=pf_tol(recipe.get("sn_mva", 1.0)), max_iteration=30, **o)


def node_features(net, buses, opt):
    """facts about the input at an electrical node, used to classify a balance failure by root cause"""
    f = set()
    bs = set(buses)
    shares = set()
    n_other = 0
    for idx in net.load.index[net.load.bus.isin(bs) & net.load.in_service]:
        r = net.load.loc[idx]
        shares.add((r.const_z_p_percent, r.const_i_p_percent, r.const_z_q_percent, r.const_i_q_percent))
    for tab in ("sgen", "storage", "motor", "ward", "xward", "asymmetric_load", "asymmetric_sgen"):
        if len(net[tab]) and (net[tab].bus.isin(bs) & net[tab].in_service).any():
            n_other += 1
    zipp = any(any(v != 0 for v in s) for s in shares)
    if zipp and opt.get("voltage_depend_loads", True) and opt["mode"] == "ac" and (len(shares) > 1 or n_other):
        f.add("zip-mixed")
    if len(net.dcline) and (net.dcline.from_bus.isin(bs) | net.dcline.to_bus.isin(bs)).any():
        f.add("dcline")
    if opt["mode"] == "dc":
        vset = False
        for tab in ("gen", "ext_grid"):
            t = net[tab]
            if len(t) and (t.bus.isin(bs) & t.in_service & (t.vm_pu != 1.0)).any():
                vset = True
        if len(net.dcline) and ((net.dcline.from_bus.isin(bs) & (net.dcline.vm_from_pu != 1)) |
                                (net.dcline.to_bus.isin(bs) & (net.dcline.vm_to_pu != 1))).any():
            vset = True
        shuntlike = any(len(net[t]) and (net[t].bus.isin(bs) & net[t].in_service).any() for t in ("shunt", "ward", "xward"))
        if vset and shuntlike:
            f.add("dc-vm-setpoint-shuntlike")
    return f


def check(case):
    import pandapower as pp
    res = Result()
    recipe, opt = case["recipe"], case["opt"]
    net, maps = netgen.build(recipe)
    dc = opt["mode"] == "dc"
    res.label("mode:" + opt["mode"])
    cal = None
    if case.get("qcal"):
        cal = qcal.apply(net, case["qcal"], lambda n: run_pf(n, dict(opt, enforce_q_lims=False), recipe),
                         lambda n: run_pf(n, opt, recipe))
    try:
        run_pf(net, opt, recipe)
    except Exception as e:
        kind, what = pf_outcome(e)
        if kind == "skip":
            res.skipped = what
        else:   # a valid network must be solved or rejected with a documented error, not crash
            res.fail(what, error=repr(e)[:300])
        return res
    if not net.converged:
        res.skipped = "not-converged"
        return res
    sn = recipe.get("sn_mva", 1.0)
    if cal:
        res.label("calibrated-q-limits")
        if qcal.limited_later(net, cal, 1e-4 * max(1.0, sn / 100.0)):
            res.label("gen-limited-in-a-later-enforcement-round")
    node, S, parts = oracles.nodal_balance(net, dc=dc)
    groups = {}
    for b, n in node.items():
        groups.setdefault(n, []).append(b)
    # energized = solved: finite magnitude and angle (a DC run reports vm=1 / va=NaN at buses it did not solve)
    vm = net.res_bus.vm_pu.where(net.res_bus.va_degree.notna())
    nontrivial = False
    for n, buses in groups.items():
        if all(math.isnan(vm.get(b, float("nan"))) for b in buses):
            continue
        mis = S.get(n, 0j)
        scale = max([abs(p) + abs(q) for _, p, q in parts.get(n, [])] + [0.0])
        tol = 1e-5 * max(1.0, sn / 100.0) + 1e-7 * scale
        kinds = {w.split(".")[0] for w, _, _ in parts.get(n, []) if w.split(".")[0] in oracles.BUS_ELEMENTS}
        feats = node_features(net, buses, opt)
        if len(kinds) >= 2 or "zip-mixed" in feats:
            nontrivial = True
        for f in feats:
            res.label(f)
        if len(buses) > 1:
            res.label("fused-node")
        if abs(mis) > tol:
            cls = "+".join(sorted(feats & {"zip-mixed", "dc-vm-setpoint-shuntlike"})) or "other"
            res.fail("balance/%s/%s" % (opt["mode"], cls), node=buses, mismatch_mva=[mis.real, mis.imag], tol=tol,
                     parts=parts.get(n, [])[:12], opt=opt)
    # res_bus p/q equals net element consumption per bus
    esum = oracles.bus_element_sum(net, dc=dc)
    for b in net.bus.index:
        if math.isnan(vm.get(b, float("nan"))):
            continue
        rp = net.res_bus.at[b, "p_mw"]
        rq = 0.0 if dc else net.res_bus.at[b, "q_mvar"]
        exp = esum[b]
        tol = 1e-5 * max(1.0, sn / 100.0) + 1e-7 * abs(exp)
        if abs(complex(rp, rq) - exp) > tol:
            hasdc = len(net.dcline) and ((net.dcline.from_bus == b) | (net.dcline.to_bus == b)).any()
            feats = node_features(net, [b], opt)
            cls = "dcline" if hasdc else ("dc-vm-setpoint-shuntlike" if "dc-vm-setpoint-shuntlike" in feats else "other")
            res.fail("res_bus/%s/%s" % (opt["mode"], cls), bus=b, res_bus=[rp, rq], element_sum=[exp.real, exp.imag], opt=opt)
    if dc and not res.failures:
        pass
    res.nontrivial = nontrivial
    if len(net.switch) and (net.switch.z_ohm > 0).any():
        res.label("impedance-switch")
    if (~net.switch.closed).any():
        res.label("open-switch")
    if vm.isna().any():
        res.label("unsupplied-bus")
    res.label("levels:%d" % net.bus.vn_kv.nunique())
    if len(net.gen) == 0 and len(net.ext_grid) == 1 and not len(net.xward) and not len(net.dcline):
        res.label("single-slack-no-gen")
    if opt.get("enforce_q_lims") and len(net.gen) >= 2:
        res.label("enforce_q_lims+>=2gens")
    return res
