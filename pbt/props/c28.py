"""C28 - Grid equivalents reproduce the internal operating point (DESIGN.md sec. 2, C28).

A case is {"recipe": <netgen recipe>, "mode": <feature family, see MODES>, "seed": int, "radius": 0..2,
           "variant": "inner"|"outer", "give": "one"|"all", "close": bool, "prune": bool,
           "eq_type": "ward"|"xward"|"rei", "kw": {get_equivalent keyword arguments}}.

The region is resolved against the solved network inside `check` (regions()):
  graph      = buses joined by in-service lines / impedances / transformers (no open switch at a side) and closed
               bus-bus switches (own code, not pandapower.topology)
  ball       = BFS ball of `radius` around the `seed`-th bus (radius reduced / other variant / next bus until a boundary
               and an external area exist)
  "inner"    : boundary = buses of the ball with a neighbour outside, internal = rest of the ball
  "outer"    : boundary = neighbours of the ball outside, internal = the ball
  "prune"    : boundary buses without a neighbour in the external area are left to the internal area (a frontier bus has
               neighbours on both sides); False only in mode detached-boundary
  "close"    : the boundary handed over is closed under closed bus-bus switches WITHOUT impedance (one busbar; what the log
               message of get_equivalent suggests); the expected bus groups are computed with this closure in both cases. A
               bus behind a closed switch with z_ohm > 0 is an ordinary neighbour (branch c28-fixes-b)
  "give"     : all internal buses or only the seed are handed over ("Just one of them is enough"); expected internal
               area = components of graph - boundary that contain a given bus
  external slack buses become boundary buses when neither the internal area nor the boundary holds a slack (as in
  _determine_bus_groups).

Failure signatures: raised/<eq>/<exception site>/<cause>, voltage-differs/<scope>/<fact>, eq-pf-failed/..., original-changed/<eq>,
bus-missing-in-equivalent/<eq>, returned-None/<eq>; <fact> is the first root-cause fact of facts() or "other".
"""
import hashlib
import math

from hypothesis import strategies as st

from pbt import netgen, oracles
from pbt.core import Result, pf_tol, silence, exc_sig, pf_outcome

ID = "C28"
LEVEL = "exploration"
EXAMPLES = {"quick": 320, "thorough": 6000}
NO_SHRINK = {"quick": True, "thorough": False}
SHRINK_S = {"quick": 20, "thorough": 120}
DEADLINE_S = {"quick": 1800, "thorough": 6000}
TOL_VM = 1e-6
TOL_VA = 1e-6
RULE = ("Hypothesis draws a meshed netgen.grid network (1-3 voltage levels, 4-16 buses, lines with c/g/parallel/df, impedances, "
        "transformers with ratio taps and NO phase shift, loads, sgens, gens, shunts, 1-2 ext_grids, custom bus labels, sn_mva "
        "0.5..1000), an equivalent type (ward/xward/rei, rei with drawn sgen/load/gen_separate) and a region: BFS ball (radius "
        "0-2) around a drawn supplied bus, boundary = frontier of the ball inside ('inner') or outside ('outer'), all internal "
        "buses or only the seed bus handed over, boundary handed over with/without the buses fused to it by bus-bus switches. "
        "Mode 'clean' (about half of the cases) stays inside the shapes get_equivalent handles, including everything repaired by the "
        "fix commits 68f66ef10..14c4134fa: slack generators, several gens per bus, gen_separate=False, asymmetric impedances, "
        "out-of-service branches / bus elements, motors, scaling, external ext_grids, and (for ward/xward) ward, xward and storage "
        "elements anywhere. Every other mode adds exactly ONE feature family with a known finding (C28-K01..K15): bus-bus "
        "switches, impedance switches, open line/trafo switches, ZIP loads, rei + storage, rei + ward/xward elements, rei with "
        "several element kinds at one bus, phase-shifting transformers (ward/xward only), boundary buses without external "
        "neighbour, three-winding transformers. "
        "Oracle: the expected internal/boundary/external bus groups are computed by own graph code (incl. the move of external "
        "slack buses to the boundary when no slack is retained); get_equivalent(return_internal=True) must not raise (other than "
        "LoadflowNotConverged), must keep every internal and boundary bus, and runpp(calculate_voltage_angles=True, dc init, tight "
        "tolerance) on the returned net must give vm_pu / va_degree at these buses equal to the original within 1e-6 p.u. / 1e-6 "
        "degree (a deviation within 100x the tolerance is re-evaluated with a tight-tolerance runpp_fct before it counts); input "
        "tables (oracles.snapshot) and result tables of the original net are unchanged, also when get_equivalent raises. "
        "A failure signature names the first matching KNOWN root-cause fact of the input (facts()) or 'other'; repaired shapes have "
        "no fact, so a regression of a fix is a VIOLATION. "
        "Non-trivial = an equivalent was built and compared and the external area holds >= 1 in-service generation element "
        "(sgen/gen/ext_grid) and >= 1 in-service consumption element (load/motor/storage/ward/xward/shunt); distinct by case hash.")
ASSUMPTIONS = ["tolerance 1e-6 p.u. / 1e-6 degree (doc/gridequivalent/gridequivalent_example.rst: 'smaller than 1e-6 pu or degree'); "
               "clean cases measured <= 1e-8",
               "no phase shift (shift_degree, tap_step_degree) for rei: documented 'Known REI equivalents problems'; ward/xward "
               "with phase shift only in mode phase-shift",
               "all buses supplied: cases with unsupplied buses are skipped (log message of _check_network: 'suggested to remove "
               "them ... before starting the grid equivalent calculation'); bus in_service flags are never False",
               "plausible operating points only: voltage setpoints of gens/ext_grids in 0.9925..1.01, cases with a branch loading "
               "> 300 % or a bus voltage outside 0.9..1.1 p.u. are skipped (otherwise the sub-problems with fixed boundary voltages "
               "have several solutions and the power flows inside get_equivalent, started from the default initialisation and not "
               "from the given results, may find another one; seen with 560 % loading and 24 Mvar circulating on a 10-kV line)",
               "at most one ext_grid / slack gen per bus ('assert ... only one slack at individual bus' in ward_generation.py)",
               "no dclines, no unsupplied islands, no asymmetric_load/sgen, no controllers, no cost functions, return_internal=True, "
               "ward_type='ward_injection', adapt_va_degree=False (defaults)",
               "LoadflowNotConverged inside get_equivalent is a legal outcome (skipped) only for cases with a known shape (facts()) or with "
               "sn_mva > 10 x MVA scale of the lowest voltage level (ill-conditioned p.u. system); "
               "otherwise it is a failure, like non-convergence (dc and flat start) of the power flow on the returned equivalent",
               "the power flow on the equivalent starts from the DC initialisation (runpp default with calculate_voltage_angles), "
               "not from the results stored in the returned net; if that solution differs, a flat start that reproduces the "
               "original operating point is accepted (label other-solution-from-dc-init): the property does not fix the start",
               "a deviation within 100x tolerance x max(1, sn_mva / MVA scale of the lowest voltage level) that disappears when "
               "get_equivalent runs its power flows at tight tolerance (runpp_fct) is attributed to the solver tolerance"]
TECHNIQUE = "property-based testing: generated networks + generated internal/boundary split, metamorphic oracle (equivalent vs. original power flow) + snapshot invariant"

LEVEL_SETS_1 = [[110.0], [110.0], [20.0], [10.0], [220.0]]
LEVEL_SETS_2 = [[110.0, 20.0], [220.0, 110.0], [380.0, 110.0], [110.0, 10.0], [110.0, 20.0, 0.4], [220.0, 110.0, 10.0]]
LEVEL_SETS_3 = [[110.0, 20.0, 0.4], [380.0, 110.0, 20.0], [220.0, 110.0, 10.0]]

KINDS = {"load": 6, "sgen": 3, "gen": 3, "storage": 0, "shunt": 1, "ward": 0, "xward": 0, "motor": 1,
         "asymmetric_load": 0, "asymmetric_sgen": 0}
# ward / xward equivalents also handle ward, xward and storage elements anywhere (rei: known findings, own modes)
KINDS_W = dict(KINDS, storage=1, ward=1, xward=1)
BASE = dict(level_sets=LEVEL_SETS_1 + LEVEL_SETS_2, nb_level=(4, 9), nb_max=16, extra_branches=(1, 3), oos=0.08,
            switches=False, switch_z=False, noslack_island=False, dcline=False, zip=False, trafo3w=False, scaling=True,
            second_slack=True, slack_gen=True, shifts=(0.0,), tap_types=(None, "Ratio", "Symmetrical"), custom_index=True,
            branch_kinds={"line": 8, "impedance": 2, "bb": 0}, bus_kinds=KINDS)


def _prof(**kw):
    d = dict(BASE)
    d.update(kw)
    return netgen.profile(**d)


# "clean" = the shapes get_equivalent handles (incl. everything repaired by the fix commits 68f66ef10..14c4134fa: slack gens,
# several gens per bus, gen_separate=False, asymmetric impedances, out-of-service elements, motors, (x)ward elements for
# ward/xward); every other mode adds ONE family of features with a known finding to it
MODES = {
    "clean": _prof(),
    "bus-bus-switch": _prof(switches=True, open_prob=0.0, branch_kinds={"line": 8, "impedance": 1, "bb": 3}),
    "impedance-switch": _prof(switches=True, switch_z=True, open_prob=0.0, branch_kinds={"line": 8, "impedance": 1, "bb": 3}),
    "open-switch": _prof(switches=True, open_prob=0.3),
    "zip": _prof(zip=True),
    "rei-storage": _prof(bus_kinds=dict(KINDS, storage=3)),
    "rei-ward+xward-elements": _prof(bus_kinds=dict(KINDS, ward=3, xward=3)),
    "rei-mixed-bus": _prof(),
    "phase-shift": _prof(level_sets=LEVEL_SETS_2, shifts=(30.0, 150.0, 0.0, -30.0)),
    "detached-boundary": _prof(),
    "trafo3w": _prof(level_sets=LEVEL_SETS_3, trafo3w=True, nb_level=(2, 6)),
}
CLEAN_W = _prof(bus_kinds=KINDS_W)
REI_MODES = ("rei-storage", "rei-ward+xward-elements", "rei-mixed-bus")
MODE_WEIGHTS = {m: (10 if m == "clean" else 1) for m in MODES}
REI_KIND = {"gen": "gen", "ext_grid": "gen", "sgen": "sgen", "load": "load"}


def _is_bridge(recipe, branch):
    """does the recipe graph (all branches but `branch`, closed bus-bus switches) fall apart without this branch?"""
    n = len(recipe["buses"])
    adj = {i: set() for i in range(n)}
    for e in recipe["el"]:
        if e is branch:
            continue
        ends = [e[k] for k in ("from_bus", "to_bus", "hv_bus", "mv_bus", "lv_bus") if k in e]
        if e["t"] == "switch" and e["et"] == "b" and e.get("closed", True):
            ends = [e["bus"], e["element"]]
        for a in ends[1:]:
            adj[ends[0]].add(a), adj[a].add(ends[0])
    return len(_closure([0], adj)) < n


def _tame(recipe, mode, eq_type):
    """keep the recipe inside the domain get_equivalent is written for (see ASSUMPTIONS)"""
    slack_buses = set()
    kind_at = {}
    oos_branch = False
    out = []
    for b in recipe["buses"]:
        b.pop("in_service", None)               # inactive buses: "suggested to remove them" before get_equivalent
    for e in recipe["el"]:
        e.pop("tap_step_degree", None)          # tap phase shifters: same limitation as shift_degree
        if e["t"] in ("line", "impedance", "trafo", "trafo3w") and e.get("in_service") is False:
            # netgen draws the flag far more often than profile["oos"] (floats(0, 1) < p); every out-of-service bridge leaves
            # unsupplied buses (skipped, see ASSUMPTIONS): at most one out-of-service branch per network, and no bridge
            if oos_branch or _is_bridge(recipe, e):
                e.pop("in_service")
            else:
                oos_branch = True
        if e["t"] in ("gen", "ext_grid"):
            # setpoints 0.97..1.04 at neighbouring buses of a short line drive circulating reactive power of 10-100x the line
            # rating; the sub-problems get_equivalent solves (boundary voltages fixed) then have several solutions and its
            # power flows (default start) may find another one than the given operating point -> narrow band of setpoints
            e["vm_pu"] = round(1.0 + (e["vm_pu"] - 1.0) * 0.25, 4)
        if e["t"] == "ext_grid" or (e["t"] == "gen" and e.get("slack")):
            if e["bus"] in slack_buses:         # "only one slack at individual bus" (assert in ward_generation.py)
                continue
            slack_buses.add(e["bus"])
            e.pop("in_service", None)
        if mode == "impedance-switch" and e["t"] == "switch" and e["et"] == "b" and "z_ohm" not in e:
            e["z_ohm"] = round(0.02 * recipe["buses"][e["bus"]]["vn_kv"] ** 2 / netgen.LEVELS[recipe["buses"][e["bus"]]["vn_kv"]]["s"], 6)
        if eq_type == "rei" and mode != "rei-mixed-bus" and e["t"] in REI_KIND:
            # one kind of REI power element per bus (several kinds at one external bus: known finding C28-K09)
            if kind_at.setdefault(e["bus"], REI_KIND[e["t"]]) != REI_KIND[e["t"]]:
                continue
        out.append(e)
    recipe["el"] = out
    return recipe


@st.composite
def _case(draw, tier, mode=None):
    region = {"seed": draw(st.integers(0, 40)), "radius": draw(st.integers(0, 2)),
              "variant": draw(st.sampled_from(["inner", "outer"])), "give": draw(st.sampled_from(["one", "all"])),
              "close": draw(st.sampled_from([True, True, False]))}
    if mode is None:
        # sampled_from / integers follow Hypothesis' bias towards few "simple" values (late list entries were drawn ~10x too
        # rarely, a third of the modes not at all in 150 draws): the mode is picked by the hash of 64 bits of a
        # Hypothesis-seeded Random instead (deterministic for a given VERIF_SEED, replayable like any other draw)
        names = sorted(MODE_WEIGHTS, key=lambda m: (m != "clean", m))
        pool = [m for m in names for _ in range(MODE_WEIGHTS[m])]
        bits = draw(st.randoms(use_true_random=False)).getrandbits(64)
        mode = pool[int(hashlib.sha1(str(bits).encode()).hexdigest(), 16) % len(pool)]
    if mode in REI_MODES:
        eq_type = "rei"
    elif mode in ("phase-shift", "detached-boundary"):
        eq_type = draw(st.sampled_from(["ward", "xward"]))
    else:
        eq_type = draw(st.sampled_from(["ward", "xward", "rei"]))
    profile = CLEAN_W if mode == "clean" and eq_type != "rei" else MODES[mode]
    recipe = _tame(draw(netgen.grid(profile)), mode, eq_type)
    kw = {}
    if eq_type == "rei":
        for k in ("sgen_separate", "load_separate", "gen_separate"):
            if draw(st.integers(0, 2)):
                kw[k] = draw(st.booleans())
    case = {"recipe": recipe, "mode": mode}
    case.update(region)
    case.update({"prune": mode != "detached-boundary", "eq_type": eq_type, "kw": kw})
    return case


def strategy(tier):
    return _case(tier)


# ---------------------------------------------------------------------------------------------------------
# own topology

def graph_of(net):
    """adjacency over in-service buses: in-service branches without an open switch at a side, closed bus-bus switches"""
    live = set(net.bus.index[net.bus.in_service.values])
    adj = {b: set() for b in live}
    bb = {b: set() for b in live}       # closed bus-bus switches (get_equivalent extends the boundary along them)
    bb0 = {b: set() for b in live}      # ... without impedance: one electrical node
    opened = set()
    sw = net.switch
    zs = sw["z_ohm"].fillna(0.0).values if "z_ohm" in sw else [0.0] * len(sw)
    for b, e, et, cl, z in zip(sw.bus.values, sw.element.values, sw.et.values, sw.closed.values, zs):
        if et == "b":
            if cl and b in live and e in live:
                adj[b].add(e), adj[e].add(b)
                bb[b].add(e), bb[e].add(b)
                if z == 0:
                    bb0[b].add(e), bb0[e].add(b)
        elif not cl:
            opened.add((et, e, b))

    def join(buses):
        buses = [b for b in buses if b in live]
        for x in buses:
            for y in buses:
                if x != y:
                    adj[x].add(y)
    for i, r in net.line.iterrows():
        if r.in_service and ("l", i, r.from_bus) not in opened and ("l", i, r.to_bus) not in opened:
            if r.from_bus in live and r.to_bus in live:
                join([r.from_bus, r.to_bus])
    for i, r in net.impedance.iterrows():
        if r.in_service and r.from_bus in live and r.to_bus in live:
            join([r.from_bus, r.to_bus])
    for i, r in net.trafo.iterrows():
        if r.in_service and ("t", i, r.hv_bus) not in opened and ("t", i, r.lv_bus) not in opened:
            if r.hv_bus in live and r.lv_bus in live:
                join([r.hv_bus, r.lv_bus])
    for i, r in net.trafo3w.iterrows():
        if r.in_service:
            join([b for b in (r.hv_bus, r.mv_bus, r.lv_bus) if ("t3", i, b) not in opened])
    return adj, bb, bb0


def _closure(start, adj, allowed=None):
    seen = set(start)
    todo = list(start)
    while todo:
        x = todo.pop()
        for y in adj.get(x, ()):
            if y not in seen and (allowed is None or y in allowed):
                seen.add(y)
                todo.append(y)
    return seen


def regions(net, case):
    """-> dict(boundary_given, internal_given, boundary, internal, external) or None if the network has no valid split"""
    adj, bb, bb0 = graph_of(net)
    vm = net.res_bus.vm_pu
    supplied = sorted(int(b) for b in net.bus.index if b in adj and not math.isnan(vm.at[b]))
    if len(supplied) < 3:
        return None
    sup = set(supplied)
    adj = {b: adj[b] & sup for b in supplied}
    bb0 = {b: bb0[b] & sup for b in supplied}   # closure of the boundary: switches without impedance only (one busbar); a bus
    # behind a closed switch with z_ohm > 0 is an ordinary neighbour (fix commits of branch c28-fixes-b)
    slack = set(net.ext_grid.bus[net.ext_grid.in_service].values) | set(net.gen.bus[net.gen.in_service & net.gen.slack].values)
    slack &= sup
    for k in range(len(supplied)):          # the drawn seed bus first, then the following ones
        reg = _split(case, supplied[(case["seed"] + k) % len(supplied)], sup, adj, bb0, slack)
        if reg is not None:
            reg["fused"] = {int(b): int(min(_closure([b], bb0))) for b in reg["boundary"]}
            return reg
    return None


def _split(case, seed, sup, adj, bb, slack):
    comp = _closure([seed], adj)
    other = "outer" if case["variant"] == "inner" else "inner"
    for variant, radius in [(case["variant"], r) for r in range(case["radius"], -1, -1)] + [(other, r) for r in (1, 0)]:
        ball = {seed}
        for _ in range(radius):
            ball |= set().union(*[adj[b] for b in ball])
        if variant == "inner":
            boundary = {b for b in ball if adj[b] - ball}
        else:
            boundary = set().union(*[adj[b] for b in ball]) - ball
        if not boundary:
            continue
        if case.get("prune", True):
            # a frontier bus has a neighbour on the far side; other buses next to the ball simply belong to the internal area
            inside = ball | boundary
            boundary = {b for b in boundary if adj[b] - inside}
            if not boundary:
                continue
        boundary_closed = _closure(boundary, bb)
        if seed in boundary_closed:
            continue
        internal_all = (ball - boundary_closed) or {seed}
        given = sorted(internal_all) if case["give"] == "all" else [seed]
        rest = sup - boundary_closed
        internal = set()
        for g in given:
            if g not in internal:
                internal |= _closure([g], adj, allowed=rest)
        external = sup - internal - boundary_closed
        # get_equivalent keeps a reference: without a slack in the internal area or at the boundary the external slack
        # buses (with the buses fused to them by bus-bus switches) are treated as boundary buses
        moved = set()
        if not (slack & (internal | boundary_closed)):
            moved = _closure(slack & external, bb)
            external = external - moved
        if not external:
            continue
        ints = lambda x: sorted(int(v) for v in x)   # noqa: E731
        touching = {b for b in boundary_closed | moved if adj[b] & external}
        return {"seed": seed, "radius": radius, "variant": variant,
                "boundary_given": ints(boundary_closed if case["close"] else boundary), "internal_given": ints(given),
                "boundary": ints(boundary_closed | moved), "internal": ints(internal), "external": ints(external),
                "component": comp, "moved": ints(moved), "detached_boundary": ints((boundary_closed | moved) - touching)}
    return None


GEN_TABLES = ("sgen", "gen", "ext_grid")
LOAD_TABLES = ("load", "motor", "storage", "ward", "xward", "shunt")


def _at(net, table, buses, extra=None):
    """in-service rows of a bus element table at the given buses"""
    tab = net[table]
    if not len(tab):
        return tab
    m = tab.bus.isin(set(buses)) & tab.in_service
    if extra is not None:
        m &= extra(tab)
    return tab[m]


def _has(net, tables, buses):
    return any(len(_at(net, t, buses)) for t in tables)


def _angle_diff(a, b):
    return abs((a - b + 180.0) % 360.0 - 180.0)


# root causes that do not depend on the equivalent type get one signature for all types they apply to
SCOPE = {"phase-shift-trafo-at-external-bus": "ward+xward", "fused-boundary-buses-given": "ward+xward",
         "open-ended-branch-between-internal-and-external-bus": "any"}


def _sig(kind, eq_type, f):
    fact = f[0] if f else "other"
    return "%s/%s/%s" % (kind, SCOPE.get(fact, eq_type), fact)


def facts(net, reg, case, net_eq=None):
    """facts about the input (and the returned equivalent) that name the KNOWN, unrepaired root causes (known_findings.json
    C28-K01..K15), in priority order. Shapes repaired by the fix commits 68f66ef10..14c4134fa (slack gen at the boundary,
    (x)ward element at a boundary bus for ward/xward, asymmetric impedances, aggregated gens, gen + ext_grid at one bus, ...)
    have no fact: a failure there gets the signature .../other and is a VIOLATION."""
    eq = case["eq_type"]
    I, B, E = set(reg["internal"]), set(reg["boundary"]), set(reg["external"])
    f = []
    # a transformer of the internal area is kept as it is: only phase shifters with a terminal in the external area matter
    tr, t3 = net.trafo, net.trafo3w
    if (tr.in_service & (tr.shift_degree != 0) & (tr.hv_bus.isin(E) | tr.lv_bus.isin(E))).any() or \
            (t3.in_service & ((t3.shift_mv_degree != 0) | (t3.shift_lv_degree != 0)) &
             (t3.hv_bus.isin(E) | t3.mv_bus.isin(E) | t3.lv_bus.isin(E))).any():
        f.append("phase-shift-trafo-at-external-bus")
    if eq == "xward":
        # the xward method grounds the external PV buses (Y = 1e8): parts of the retained network that are coupled to the
        # reference only through external PV buses lose the coupling, their angle is left (nearly) undetermined
        adj = graph_of(net)[0]
        pv = set(net.gen.bus[net.gen.in_service].values) | set(net.ext_grid.bus[net.ext_grid.in_service].values)
        allowed = (I | B | E) - (pv & E)
        slack = (set(net.ext_grid.bus[net.ext_grid.in_service].values) | set(net.gen.bus[net.gen.in_service & net.gen.slack].values)) & (I | B)
        if (I | B) - _closure(slack, adj, allowed=allowed):
            f.append("xward-boundary-buses-coupled-only-through-external-pv-buses")
    if eq != "rei" and len(reg["boundary_given"]) > len({reg["fused"][b] for b in reg["boundary_given"]}):
        f.append("fused-boundary-buses-given")
    if eq == "rei" and len(_at(net, "xward", E)):
        f.append("xward-element-in-external-area")
    if eq == "rei" and (len(_at(net, "ward", B)) or len(_at(net, "xward", B))):
        f.append("ward-or-xward-element-at-boundary-bus")
    if eq == "rei":
        if len(_at(net, "load", E, lambda t: (t.const_z_p_percent != 0) | (t.const_i_p_percent != 0) |
                   (t.const_z_q_percent != 0) | (t.const_i_q_percent != 0))):
            f.append("zip-load-in-external-area")
        if len(_at(net, "storage", E, lambda t: ((t.p_mw != 0) | (t.q_mvar != 0)) & (t.scaling != 0))):
            f.append("storage-in-external-area")
        if net_eq is not None and len(net_eq.switch) and (net_eq.switch.name.astype(str) == "eq_switch").any():
            f.append("rei-buses-of-one-external-bus-fused/shunts-dropped")
    # branch with an open switch between an internal and an external bus (no topological connection, but the branch
    # hangs on one of the two areas)
    sw = net.switch
    for et, tab, cols in (("l", "line", ("from_bus", "to_bus")), ("t", "trafo", ("hv_bus", "lv_bus")),
                          ("t3", "trafo3w", ("hv_bus", "mv_bus", "lv_bus"))):
        for idx in set(sw.element[(sw.et == et) & ~sw.closed].values):
            if idx in net[tab].index and net[tab].at[idx, "in_service"]:
                ends = {int(net[tab].at[idx, c]) for c in cols}
                if ends & I and ends & E:
                    f.append("open-ended-branch-between-internal-and-external-bus")
                    break
        else:
            continue
        break
    return f


def _cause(net, reg, case, e):
    """root-cause class of an exception of get_equivalent: a known (unrepaired) shape of facts() that explains an exception at
    this site, else 'other' (repaired shapes - IndexError in _create_net_zpbn, ValueError in add_ext_grids_to_boundaries /
    _replace_external_area_by_(x)wards - are deliberately not classified any more)"""
    where = exc_sig(e)
    f = facts(net, reg, case)
    want = {"ValueError@grid_equivalents/ward_generation.py:_calculate_ward_and_impedance_parameters": ("fused-boundary-buses-given",),
            "ValueError@build_bus.py:_calc_pq_elements_and_add_on_ppc": ("zip-load-in-external-area",)}
    for k in want.get(where, ()):
        if k in f:
            return k
    return "other"


def check(case):
    import pandapower as pp
    from pandapower.grid_equivalents import get_equivalent
    res = Result()
    if not isinstance(case, dict) or "recipe" not in case:      # replays/C28/KNOWN.json (index of the witnesses) is not a case
        res.skipped = "not-a-case"
        return res
    recipe = case["recipe"]
    eq_type = case["eq_type"]
    net, maps = netgen.build(recipe)
    sn = recipe.get("sn_mva", 1.0)
    res.label("eq:" + eq_type, "mode:" + case.get("mode", "?"))
    try:
        with silence():
            pp.runpp(net, calculate_voltage_angles=True, tolerance_mva=pf_tol(sn), max_iteration=40)
    except Exception as e:
        kind, what = pf_outcome(e)
        res.skipped = what if kind == "skip" else "original-pf-" + what
        return res
    if net.res_bus.vm_pu.isnull().any():
        # "There are some inactive buses. It is suggested to remove them ... before starting the grid equivalent calculation."
        res.skipped = "unsupplied-buses"
        return res
    loading = max([net.res_line.loading_percent.max() if len(net.line) else 0.0,
                   net.res_trafo.loading_percent.max() if len(net.trafo) else 0.0,
                   net.res_trafo3w.loading_percent.max() if len(net.trafo3w) else 0.0])
    if not loading <= 300.0 or net.res_bus.vm_pu.min() < 0.9 or net.res_bus.vm_pu.max() > 1.1:
        # implausible operating point (see _tame): several solutions of the sub-problems get_equivalent solves
        res.skipped = "implausible-operating-point"
        return res
    reg = regions(net, case)
    if reg is None:
        res.skipped = "no-valid-split"
        return res
    res.label("variant:" + reg["variant"], "give:" + case["give"], "radius:%d" % reg["radius"])
    if reg["moved"]:
        res.label("ext-slack-moved-to-boundary")
    snap = oracles.snapshot(net)
    res_before = {t: net[t].copy(deep=True) for t in oracles.res_tables(net)}
    raised = None
    net_eq = None
    try:
        with silence():
            net_eq = get_equivalent(net, eq_type, list(reg["boundary_given"]), list(reg["internal_given"]),
                                    return_internal=True, **case["kw"])
    except Exception as e:
        raised = e
    # --- the original network is left unchanged (also when get_equivalent raises)
    diffs = oracles.compare_snapshot(snap, net, allow_new_columns=False)
    for t, old in res_before.items():
        if t not in net or not old.equals(net[t]):
            diffs.append("result table %s changed" % t)
    if diffs:
        res.fail("original-changed/%s%s" % (eq_type, "/raised" if raised is not None else ""), diffs=diffs[:6])
    ext = reg["external"]
    has_load, has_gen = _has(net, LOAD_TABLES, ext), _has(net, GEN_TABLES, ext)
    if raised is not None:
        kind, what = pf_outcome(raised)
        if kind == "skip" and what == "not-converged":
            # documented outcome - but a converged, plausible network without any known shape must be reducible: a regression
            # of the aggregated-gen fix (vm_pu summed) shows up as exactly this non-convergence
            # (seen legitimately with sn_mva = 100 and 3-kW gens at 0.4 kV: REI impedances of 3e4 p.u., passes with sn_mva = 1)
            if facts(net, reg, case) or sn > 10.0 * min(netgen.LEVELS[v]["s"] for v in set(net.bus.vn_kv.values)):
                res.skipped = "equivalent-not-converged"
            else:
                res.fail("inner-pf-not-converged/%s/other" % eq_type, error=repr(raised)[:300], regions=_short(reg), kw=case["kw"])
        else:
            cause = _cause(net, reg, case, raised)
            res.fail("raised/%s/%s/%s" % (eq_type, exc_sig(raised), cause),
                     error=repr(raised)[:300], regions=_short(reg), kw=case["kw"])
        return res
    if net_eq is None:
        res.fail("returned-None/" + eq_type, regions=_short(reg))
        return res
    # --- power flow on the equivalent
    f = facts(net, reg, case, net_eq)
    try:
        with silence():
            pp.runpp(net_eq, calculate_voltage_angles=True, tolerance_mva=pf_tol(sn), max_iteration=40)
    except Exception as e:
        kind, what = pf_outcome(e)
        try:        # "a power flow": the flat start counts as well (see other-solution-from-dc-init below)
            if what != "not-converged":
                raise
            with silence():
                pp.runpp(net_eq, calculate_voltage_angles=True, tolerance_mva=pf_tol(sn), max_iteration=40, init="flat")
            res.label("dc-init-not-converged")
        except Exception:
            res.fail(_sig("eq-pf-failed/" + what, eq_type, f), error=repr(e)[:300], regions=_short(reg))
            return res
    missing, worst = _compare(net, net_eq, reg)
    if missing:
        res.fail("bus-missing-in-equivalent/" + eq_type, missing=missing, regions=_short(reg))
        return res
    # the power flows inside get_equivalent stop at a p.u. mismatch of 1e-8 (1e-6 for xward/rei steps), i.e. at sn_mva * 1e-6
    # MVA: the voltage error this leaves grows with sn_mva / (MVA scale of the network)
    window = 100.0 * max(1.0, sn / min(netgen.LEVELS[v]["s"] for v in set(net.bus.vn_kv.values)))
    if 1.0 < worst[0] <= window:
        # within 100x of the (scaled) tolerance: repeat with the same power flow function at a tight tolerance before it counts
        # (DESIGN.md sec. 5 rule 5); a deviation that survives is a failure
        def tight(n, **kwargs):
            kwargs["tolerance_mva"] = pf_tol(sn)
            kwargs["max_iteration"] = 100
            pp.runpp(n, **kwargs)
            return n
        try:
            with silence():
                net_eq2 = get_equivalent(net, eq_type, list(reg["boundary_given"]), list(reg["internal_given"]),
                                         return_internal=True, runpp_fct=tight, **case["kw"])
                pp.runpp(net_eq2, calculate_voltage_angles=True, tolerance_mva=pf_tol(sn), max_iteration=40)
            missing2, worst2 = _compare(net, net_eq2, reg)
            if not missing2 and worst2[0] <= 1.0:
                res.label("tolerance-limited")
                worst = worst2
        except Exception:
            pass
    if worst[0] > 1.0:
        # the equivalent may have several power flow solutions (large compensating shunts and injections of the equivalent
        # elements): the property asks for "a power flow", so a flat start may show the original operating point as well
        try:
            with silence():
                pp.runpp(net_eq, calculate_voltage_angles=True, tolerance_mva=pf_tol(sn), max_iteration=40, init="flat")
            missing3, worst3 = _compare(net, net_eq, reg)
            if not missing3 and worst3[0] <= 1.0:
                res.label("other-solution-from-dc-init")
                worst = worst3
        except Exception:
            pass
    if worst[0] > 1.0:
        b, dvm, dva = worst[1]
        res.fail(_sig("voltage-differs", eq_type, f), bus=b,
                 where="boundary" if b in reg["boundary"] else "internal", dvm=dvm, dva=dva, facts=f,
                 regions=_short(reg), kw=case["kw"])
    res.nontrivial = bool(has_load and has_gen)
    res.label("ext-buses:%s" % (len(ext) if len(ext) < 4 else "4+"), "boundary:%s" % min(len(reg["boundary"]), 3))
    res.label("dev<1e-%d" % min(12, max(0, int(-math.log10(max(worst[0] * 1e-6, 1e-12))))) if math.isfinite(worst[0]) else "dev:nan")
    if res.nontrivial:
        res.label("ext-load+gen")
    if _has(net, ("ext_grid",), ext):
        res.label("ext-ext_grid")
    if net.bus.vn_kv.loc[ext + reg["boundary"]].nunique() > 1:
        res.label("ext-trafo")
    for x in f:
        res.label("fact:" + x)
    for k, v in sorted(case["kw"].items()):
        res.label("%s=%s" % (k, v))
    return res


def _compare(net, net_eq, reg):
    keep = reg["internal"] + reg["boundary"]
    missing = [b for b in keep if b not in net_eq.bus.index]
    worst = (0.0, None)
    if missing:
        return missing, worst
    for b in keep:
        dvm = abs(net_eq.res_bus.at[b, "vm_pu"] - net.res_bus.at[b, "vm_pu"])
        dva = _angle_diff(net_eq.res_bus.at[b, "va_degree"], net.res_bus.at[b, "va_degree"])
        if math.isnan(dvm) or math.isnan(dva):
            dvm = dva = float("inf")
        m = max(dvm / TOL_VM, dva / TOL_VA)
        if m >= worst[0]:
            worst = (m, (int(b), dvm, dva))
    return missing, worst


def _short(reg):
    return {k: reg[k] for k in ("boundary_given", "internal_given", "boundary", "internal", "external")}
