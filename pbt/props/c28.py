"""C28 - Grid equivalents reproduce the internal operating point (DESIGN.md sec. 2, C28).

A case is {"recipe": <netgen recipe>, "seed": int, "radius": 0..2, "variant": "inner"|"outer", "give": "one"|"all",
           "close": bool, "eq_type": "ward"|"xward"|"rei", "kw": {get_equivalent keyword arguments}}.

The region is resolved against the solved network inside `check`:
  graph      = buses joined by in-service lines / impedances / transformers (no open switch at a side) and closed
               bus-bus switches, restricted to supplied buses (own code, not pandapower.topology)
  ball       = BFS ball of `radius` around the `seed`-th supplied bus (radius reduced until a boundary and an external
               area exist)
  "inner"    : boundary = buses of the ball with a neighbour outside, internal = rest of the ball
  "outer"    : boundary = neighbours of the ball outside, internal = the ball
  "close"    : the boundary handed over is closed under closed bus-bus switches (what the docstring suggests); the
               expected bus groups are computed with the closure in both cases (get_equivalent does the same)
  "give"     : all internal buses or only the seed are handed over ("Just one of them is enough"); expected internal
               area = components of graph - boundary that contain a given bus
"""
import math

from hypothesis import strategies as st

from pbt import netgen, oracles
from pbt.core import Result, pf_tol, silence, exc_sig, pf_outcome

ID = "C28"
LEVEL = "exploration"
EXAMPLES = {"quick": 320, "thorough": 6000}
NO_SHRINK = {"quick": True, "thorough": False}
SHRINK_S = {"quick": 20, "thorough": 120}
DEADLINE_S = {"quick": 600, "thorough": 3000}
TOL_VM = 1e-6
TOL_VA = 1e-6
RULE = ("TODO")
ASSUMPTIONS = ["TODO"]

LEVEL_SETS_1 = [[110.0], [110.0], [20.0], [10.0], [220.0]]
LEVEL_SETS_2 = [[110.0, 20.0], [220.0, 110.0], [380.0, 110.0], [110.0, 10.0], [110.0, 20.0, 0.4], [220.0, 110.0, 10.0]]

BASE = dict(nb_level=(4, 9), nb_max=16, extra_branches=(1, 3), oos=0.0, switches=False, switch_z=False,
            noslack_island=False, dcline=False, zip=False, trafo3w=False, scaling=False, second_slack=True,
            shifts=(0.0,), tap_types=(None, "Ratio", "Symmetrical"), custom_index=True,
            branch_kinds={"line": 9, "impedance": 1, "bb": 0},
            bus_kinds={"load": 6, "sgen": 3, "gen": 2, "storage": 0, "shunt": 1, "ward": 0, "xward": 0, "motor": 0,
                       "asymmetric_load": 0, "asymmetric_sgen": 0})
PROFILES = {
    "plain1": netgen.profile(level_sets=LEVEL_SETS_1, **BASE),
    "plain2": netgen.profile(level_sets=LEVEL_SETS_2, **BASE),
}


def _tame(recipe, keep_slack_gen):
    """keep the recipe inside the domain get_equivalent is written for (see ASSUMPTIONS)"""
    slack_buses = set()
    out = []
    for e in recipe["el"]:
        e.pop("tap_step_degree", None)      # tap phase shifters: same limitation as shift_degree
        if e["t"] == "gen" and e.get("slack") and not keep_slack_gen:
            e = {"t": "ext_grid", "bus": e["bus"], "vm_pu": e["vm_pu"], "va_degree": 0.0}
        if e["t"] == "ext_grid" or (e["t"] == "gen" and e.get("slack")):
            if e["bus"] in slack_buses:     # "only one slack at individual bus" (assert in ward_generation.py)
                continue
            slack_buses.add(e["bus"])
        out.append(e)
    recipe["el"] = out
    return recipe


@st.composite
def _case(draw, tier, profile=None):
    pname = profile or draw(st.sampled_from(sorted(PROFILES)))
    recipe = draw(netgen.grid(PROFILES[pname]))
    _tame(recipe, keep_slack_gen=draw(st.integers(0, 5)) == 0)
    eq_type = draw(st.sampled_from(["ward", "xward", "rei"]))
    kw = {}
    if eq_type == "rei":
        for k in ("sgen_separate", "load_separate", "gen_separate"):
            if draw(st.integers(0, 2)):
                kw[k] = draw(st.booleans())
    return {"recipe": recipe, "profile": pname, "seed": draw(st.integers(0, 40)), "radius": draw(st.integers(0, 2)),
            "variant": draw(st.sampled_from(["inner", "outer"])), "give": draw(st.sampled_from(["one", "all"])),
            "close": draw(st.sampled_from([True, True, False])), "prune": draw(st.integers(0, 6)) != 0,
            "eq_type": eq_type, "kw": kw}


def strategy(tier):
    return _case(tier)


# ---------------------------------------------------------------------------------------------------------
# own topology

def graph_of(net):
    """adjacency over in-service buses: in-service branches without an open switch at a side, closed bus-bus switches"""
    live = set(net.bus.index[net.bus.in_service.values])
    adj = {b: set() for b in live}
    bb = {b: set() for b in live}
    opened = set()
    sw = net.switch
    for b, e, et, cl in zip(sw.bus.values, sw.element.values, sw.et.values, sw.closed.values):
        if et == "b":
            if cl and b in live and e in live:
                adj[b].add(e), adj[e].add(b)
                bb[b].add(e), bb[e].add(b)
        elif not cl:
            opened.add((et, e, b))

    def join(buses):
        buses = [b for b in buses if b in live]
        for x in buses:
            for y in buses:
                if x != y:
                    adj[x].add(y)
    for i, r in net.line.iterrows():
        if r.in_service and ("l", i, r.from_bus) not in opened and ("l", i, r.to_bus) not in opened:
            if r.from_bus in live and r.to_bus in live:
                join([r.from_bus, r.to_bus])
    for i, r in net.impedance.iterrows():
        if r.in_service and r.from_bus in live and r.to_bus in live:
            join([r.from_bus, r.to_bus])
    for i, r in net.trafo.iterrows():
        if r.in_service and ("t", i, r.hv_bus) not in opened and ("t", i, r.lv_bus) not in opened:
            if r.hv_bus in live and r.lv_bus in live:
                join([r.hv_bus, r.lv_bus])
    for i, r in net.trafo3w.iterrows():
        if r.in_service:
            join([b for b in (r.hv_bus, r.mv_bus, r.lv_bus) if ("t3", i, b) not in opened])
    return adj, bb


def _closure(start, adj, allowed=None):
    seen = set(start)
    todo = list(start)
    while todo:
        x = todo.pop()
        for y in adj.get(x, ()):
            if y not in seen and (allowed is None or y in allowed):
                seen.add(y)
                todo.append(y)
    return seen


def regions(net, case):
    """-> dict(boundary_given, internal_given, boundary, internal, external) or None if the network has no valid split"""
    adj, bb = graph_of(net)
    vm = net.res_bus.vm_pu
    supplied = sorted(int(b) for b in net.bus.index if b in adj and not math.isnan(vm.at[b]))
    if len(supplied) < 3:
        return None
    sup = set(supplied)
    adj = {b: adj[b] & sup for b in supplied}
    bb = {b: bb[b] & sup for b in supplied}
    slack = set(net.ext_grid.bus[net.ext_grid.in_service].values) | set(net.gen.bus[net.gen.in_service & net.gen.slack].values)
    slack &= sup
    for k in range(len(supplied)):          # the drawn seed bus first, then the following ones
        reg = _split(case, supplied[(case["seed"] + k) % len(supplied)], sup, adj, bb, slack)
        if reg is not None:
            return reg
    return None


def _split(case, seed, sup, adj, bb, slack):
    comp = _closure([seed], adj)
    other = "outer" if case["variant"] == "inner" else "inner"
    for variant, radius in [(case["variant"], r) for r in range(case["radius"], -1, -1)] + [(other, r) for r in (1, 0)]:
        ball = {seed}
        for _ in range(radius):
            ball |= set().union(*[adj[b] for b in ball])
        if variant == "inner":
            boundary = {b for b in ball if adj[b] - ball}
        else:
            boundary = set().union(*[adj[b] for b in ball]) - ball
        if not boundary:
            continue
        if case.get("prune", True):
            # a frontier bus has a neighbour on the far side; other buses next to the ball simply belong to the internal area
            inside = ball | boundary
            boundary = {b for b in boundary if adj[b] - inside}
            if not boundary:
                continue
        boundary_closed = _closure(boundary, bb)
        if seed in boundary_closed:
            continue
        internal_all = (ball - boundary_closed) or {seed}
        given = sorted(internal_all) if case["give"] == "all" else [seed]
        rest = sup - boundary_closed
        internal = set()
        for g in given:
            if g not in internal:
                internal |= _closure([g], adj, allowed=rest)
        external = sup - internal - boundary_closed
        # get_equivalent keeps a reference: without a slack in the internal area or at the boundary the external slack
        # buses (with the buses fused to them by bus-bus switches) are treated as boundary buses
        moved = set()
        if not (slack & (internal | boundary_closed)):
            moved = _closure(slack & external, bb)
            external = external - moved
        if not external:
            continue
        ints = lambda x: sorted(int(v) for v in x)   # noqa: E731
        touching = {b for b in boundary_closed | moved if adj[b] & external}
        return {"seed": seed, "radius": radius, "variant": variant,
                "boundary_given": ints(boundary_closed if case["close"] else boundary), "internal_given": ints(given),
                "boundary": ints(boundary_closed | moved), "internal": ints(internal), "external": ints(external),
                "component": comp, "moved": ints(moved), "detached_boundary": ints((boundary_closed | moved) - touching)}
    return None


GEN_TABLES = ("sgen", "gen", "ext_grid")
LOAD_TABLES = ("load", "motor", "storage", "ward", "xward", "shunt", "asymmetric_load")


def _has(net, tables, buses):
    bs = set(buses)
    for t in tables:
        tab = net[t]
        if len(tab) and (tab.bus.isin(bs) & tab.in_service).any():
            return True
    return False


def _angle_diff(a, b):
    return abs((a - b + 180.0) % 360.0 - 180.0)


def check(case):
    import pandapower as pp
    from pandapower.grid_equivalents import get_equivalent
    res = Result()
    recipe = case["recipe"]
    eq_type = case["eq_type"]
    net, maps = netgen.build(recipe)
    sn = recipe.get("sn_mva", 1.0)
    res.label("eq:" + eq_type, "profile:" + case.get("profile", "?"))
    try:
        with silence():
            pp.runpp(net, calculate_voltage_angles=True, tolerance_mva=pf_tol(sn), max_iteration=40)
    except Exception as e:
        kind, what = pf_outcome(e)
        if kind == "skip":
            res.skipped = what
        else:
            res.skipped = "original-pf-" + what
        return res
    reg = regions(net, case)
    if reg is None:
        res.skipped = "no-valid-split"
        return res
    res.label("variant:" + reg["variant"], "give:" + case["give"], "radius:%d" % reg["radius"])
    if reg["moved"]:
        res.label("ext-slack-moved-to-boundary")
    snap = oracles.snapshot(net)
    res_before = {t: net[t].copy(deep=True) for t in oracles.res_tables(net)}
    raised = None
    net_eq = None
    try:
        with silence():
            net_eq = get_equivalent(net, eq_type, list(reg["boundary_given"]), list(reg["internal_given"]),
                                    return_internal=True, **case["kw"])
    except Exception as e:
        raised = e
    # --- the original network is left unchanged (also when get_equivalent raises)
    diffs = oracles.compare_snapshot(snap, net, allow_new_columns=False)
    for t, old in res_before.items():
        if t not in net or not old.equals(net[t]):
            diffs.append("result table %s changed" % t)
    if diffs:
        res.fail("original-changed/%s%s" % (eq_type, "/raised" if raised is not None else ""), diffs=diffs[:6])
    if raised is not None:
        kind, what = pf_outcome(raised)
        if kind == "skip" and what == "not-converged":
            res.skipped = "equivalent-not-converged"
        else:
            res.fail("raised/%s/%s/%s" % (eq_type, exc_sig(raised), _cause(net, reg, eq_type, raised)),
                     error=repr(raised)[:300], regions=_short(reg), kw=case["kw"])
        return res
    if net_eq is None:
        res.fail("returned-None/" + eq_type, regions=_short(reg))
        return res
    # --- power flow on the equivalent
    try:
        with silence():
            pp.runpp(net_eq, calculate_voltage_angles=True, tolerance_mva=pf_tol(sn), max_iteration=40)
    except Exception as e:
        kind, what = pf_outcome(e)
        res.fail("eq-pf-failed/%s/%s" % (eq_type, what), error=repr(e)[:300], regions=_short(reg))
        return res
    keep = reg["internal"] + reg["boundary"]
    missing = [b for b in keep if b not in net_eq.bus.index]
    if missing:
        res.fail("bus-missing-in-equivalent/" + eq_type, missing=missing, regions=_short(reg))
        return res
    worst = (0.0, None)
    for b in keep:
        dvm = abs(net_eq.res_bus.at[b, "vm_pu"] - net.res_bus.at[b, "vm_pu"])
        dva = _angle_diff(net_eq.res_bus.at[b, "va_degree"], net.res_bus.at[b, "va_degree"])
        if math.isnan(dvm) or math.isnan(dva):
            dvm = dva = float("inf")
        m = max(dvm / TOL_VM, dva / TOL_VA)
        if m > worst[0]:
            worst = (m, (int(b), dvm, dva))
    if worst[0] > 1.0:
        b, dvm, dva = worst[1]
        res.fail("voltage-differs/%s" % eq_type, bus=b, where="boundary" if b in reg["boundary"] else "internal",
                 dvm=dvm, dva=dva, regions=_short(reg), kw=case["kw"])
    ext = reg["external"]
    has_load, has_gen = _has(net, LOAD_TABLES, ext), _has(net, GEN_TABLES, ext)
    res.nontrivial = has_load and has_gen
    res.label("ext-buses:%s" % (len(ext) if len(ext) < 4 else "4+"), "boundary:%s" % min(len(reg["boundary"]), 3))
    if has_load and has_gen:
        res.label("ext-load+gen")
    if _has(net, ("ext_grid",), ext) or (len(net.gen) and (net.gen.bus.isin(ext) & net.gen.slack & net.gen.in_service).any()):
        res.label("ext-slack")
    if net.bus.vn_kv.loc[ext].nunique() > 1 or set(net.bus.vn_kv.loc[ext]) != set(net.bus.vn_kv.loc[reg["boundary"]]):
        res.label("ext-trafo")
    if len(reg["component"]) < len(net.bus):
        res.label("unsupplied-or-second-island")
    for k, v in sorted(case["kw"].items()):
        res.label("%s=%s" % (k, v))
    return res


def _cause(net, reg, eq_type, e):
    """root-cause class of an exception of get_equivalent from facts about the input (known shapes), else 'other'"""
    where = exc_sig(e)
    bnd, ext = set(reg["boundary"]), set(reg["external"])
    slack_gen_bnd = len(net.gen) and (net.gen.slack & net.gen.in_service & net.gen.bus.isin(bnd)).any()
    if where.startswith("ValueError@grid_equivalents/ward_generation.py:_replace_external_area_by_") and slack_gen_bnd \
            and "duplicate labels" in str(e):
        return "slack-gen-at-boundary"
    if where == "IndexError@grid_equivalents/rei_generation.py:_create_net_zpbn":
        eg_ext = (net.ext_grid.in_service & net.ext_grid.bus.isin(ext)).any()
        gen_ext = len(net.gen) and net.gen.bus.isin(ext).any()
        if eg_ext and len(net.gen) and not gen_ext:
            return "external-ext_grid-but-no-external-gen"
    if where.startswith("FloatingPointError@") and eq_type == "xward" and reg["detached_boundary"]:
        return "boundary-bus-without-external-neighbour"
    return "other"


def _short(reg):
    return {k: reg[k] for k in ("boundary_given", "internal_given", "boundary", "internal", "external")}
