"""C04 - Power flow honours setpoints and element response laws (DESIGN.md sec. 2, C04)."""
import math

from hypothesis import strategies as st

from pbt import netgen, oracles, qcal
from pbt.core import Result, pf_tol, silence, pf_outcome

ID = "C04"
LEVEL = "exploration"
EXAMPLES = {"quick": 960, "thorough": 40000}
RULE = ("Hypothesis draws a network recipe with several voltage-controlling elements (ext_grids, slack gens, PV gens incl. gens "
        "sharing a node), narrow q-limits, scaling factors incl. 0, ZIP loads, shunts with step 0-3 and foreign vn_kv, storages, "
        "out-of-service elements; options enforce_q_lims / voltage_depend_loads / angles / numba; AC or DC. Oracle (own formulas): "
        "ext_grid bus vm (and va) = setpoint; gen bus vm = setpoint unless enforce_q_lims and the gens of the node sit on their "
        "summed q limit; with enforce_q_lims no gen outside [min_q, max_q]; gen/sgen/storage p,q = setpoint*scaling; each load = "
        "p*scaling*(cp+ci*v+cz*v^2) at its own bus voltage; shunt = step*p*(v*vn_bus/vn_shunt)^2; out-of-service => 0. "
        "Non-trivial = converged and (a q-limit binds or a ZIP load / foreign-vn shunt / scaled element exists).")
ASSUMPTIONS = ["q-limit side consistency (at max => v <= setpoint) is not demanded: not stated by the property, false for one-way PV->PQ switching",
               "q limits of gens at slack nodes are not enforced by design of the power flow and are not checked",
               "tolerances: vm 1e-8, p/q 1e-5 MVA + 1e-7 relative, q limits 1e-4 Mvar * max(1, sn_mva/100)"]

PROFILE = netgen.profile(oos=0.06, open_prob=0.2, dcline=False, second_slack=3,
                         bus_kinds={"load": 5, "sgen": 2, "gen": 5, "storage": 2, "shunt": 3, "ward": 0, "xward": 0, "motor": 0,
                                    "asymmetric_load": 0, "asymmetric_sgen": 0},
                         noslack_island=False, gen_qlim_range=(0.002, 0.08))


@st.composite
def _case(draw, tier):
    recipe = draw(netgen.grid(PROFILE))
    if draw(st.integers(0, 5)) == 0:
        opt = {"mode": "dc"}
    else:
        opt = {"mode": "ac", "enforce_q_lims": draw(st.booleans()),
               "voltage_depend_loads": draw(st.sampled_from([True, True, False])),
               "calculate_voltage_angles": draw(st.sampled_from([True, True, False])),
               "numba": draw(st.sampled_from([True, True, False])),
               "lightsim2grid": draw(st.sampled_from([False, "auto"]))}
    case = {"recipe": recipe, "opt": opt}
    if opt.get("enforce_q_lims") and draw(st.integers(0, 1)):
        case["qcal"] = draw(qcal.factors())
    return case


def strategy(tier):
    return _case(tier)


def _ok(a, b, atol, rtol=1e-7):
    return abs(a - b) <= atol + rtol * max(abs(a), abs(b))


def check(case):
    import pandapower as pp
    res = Result()
    recipe, opt = case["recipe"], case["opt"]
    net, maps = netgen.build(recipe)
    dc = opt["mode"] == "dc"
    sn = recipe.get("sn_mva", 1.0)
    res.label("mode:" + opt["mode"])
    cal = None
    if case.get("qcal") and not dc:
        def run_free(n):
            with silence():
                pp.runpp(n, tolerance_mva=pf_tol(sn), max_iteration=40, **dict({k: v for k, v in opt.items() if k != "mode"}, enforce_q_lims=False))
        def run_enf(n):
            with silence():
                pp.runpp(n, tolerance_mva=pf_tol(sn), max_iteration=40, **{k: v for k, v in opt.items() if k != "mode"})
        cal = qcal.apply(net, case["qcal"], run_free, run_enf)
    try:
        with silence():
            if dc:
                pp.rundcpp(net)
            else:
                o = {k: v for k, v in opt.items() if k != "mode"}
                pp.runpp(net, tolerance_mva=pf_tol(sn), max_iteration=40, **o)
    except Exception as e:
        kind, what = pf_outcome(e)
        if kind == "skip":
            res.skipped = what
        else:
            res.fail(what, error=repr(e)[:300])
        return res
    ptol = 1e-5 * max(1.0, sn / 100.0)
    if cal:
        res.label("calibrated-q-limits")
        if qcal.limited_later(net, cal, 1e-4 * max(1.0, sn / 100.0)):
            res.label("gen-limited-in-a-later-enforcement-round")
    vm = net.res_bus.vm_pu
    va = net.res_bus.va_degree
    node = oracles.fused_nodes(net)
    alive = lambda b: not math.isnan(vm.at[b])   # noqa: E731
    m = opt["mode"]
    vdl = (not dc) and opt.get("voltage_depend_loads", True)
    angles = dc or opt.get("calculate_voltage_angles", True)
    nontrivial = False

    # slack nodes
    slack_nodes = set()
    for idx, r in net.ext_grid.iterrows():
        if r.in_service and net.bus.at[r.bus, "in_service"]:
            slack_nodes.add(node[r.bus])
    for idx, r in net.gen.iterrows():
        if r.in_service and r.slack and net.bus.at[r.bus, "in_service"]:
            slack_nodes.add(node[r.bus])

    # 1. ext_grids
    for idx, r in net.ext_grid.iterrows():
        if not (r.in_service and net.bus.at[r.bus, "in_service"]):
            for c in ("p_mw", "q_mvar"):
                v = net.res_ext_grid.at[idx, c]
                if not (math.isnan(v) or v == 0):
                    res.fail("oos-element-has-power/ext_grid/" + m, element=int(idx), value=v)
            continue
        if not dc and not _ok(vm.at[r.bus], r.vm_pu, 1e-8, 0):
            res.fail("ext_grid-vm/" + m, element=int(idx), vm=vm.at[r.bus], setpoint=r.vm_pu)
        if dc and not _ok(vm.at[r.bus], 1.0, 1e-12, 0):
            res.fail("dc-vm-not-1", bus=int(r.bus), vm=vm.at[r.bus])
        if angles:
            d = (va.at[r.bus] - r.va_degree + 180.0) % 360.0 - 180.0
            if abs(d) > 1e-6:
                res.fail("ext_grid-va/" + m, element=int(idx), va=va.at[r.bus], setpoint=r.va_degree)

    # 2. gens
    qtol = 1e-4 * max(1.0, sn / 100.0)
    by_node = {}
    for idx, r in net.gen.iterrows():
        if r.in_service and net.bus.at[r.bus, "in_service"] and alive(r.bus):
            by_node.setdefault(node[r.bus], []).append(idx)
        else:
            for c in ("p_mw", "q_mvar"):
                v = net.res_gen.at[idx, c]
                if not (math.isnan(v) or v == 0):
                    res.fail("oos-element-has-power/gen/" + m, element=int(idx), value=v)
    for n, gens in by_node.items():
        at_slack = n in slack_nodes
        for idx in gens:
            r = net.gen.loc[idx]
            if not r.slack and not at_slack:
                if not _ok(net.res_gen.at[idx, "p_mw"], r.p_mw * r.scaling, ptol):
                    res.fail("gen-p/" + m, element=int(idx), p=net.res_gen.at[idx, "p_mw"], expected=r.p_mw * r.scaling)
        if dc:
            continue
        enforce = opt.get("enforce_q_lims", False) and not at_slack
        qs = [net.res_gen.at[i, "q_mvar"] for i in gens]
        qmin = [net.gen.at[i, "min_q_mvar"] if "min_q_mvar" in net.gen and not math.isnan(net.gen.at[i, "min_q_mvar"]) else -1e9 for i in gens]
        qmax = [net.gen.at[i, "max_q_mvar"] if "max_q_mvar" in net.gen and not math.isnan(net.gen.at[i, "max_q_mvar"]) else 1e9 for i in gens]
        bus0 = net.gen.at[gens[0], "bus"]
        setp = net.gen.at[gens[0], "vm_pu"]
        holds = _ok(vm.at[bus0], setp, 1e-8, 0)
        if enforce:
            for i, qv, lo, hi in zip(gens, qs, qmin, qmax):
                if qv < lo - qtol or qv > hi + qtol:
                    res.fail("gen-q-outside-limits", element=int(i), q=qv, min_q=lo, max_q=hi)
            at_limit = abs(sum(qs) - sum(qmin)) <= qtol * len(gens) or abs(sum(qs) - sum(qmax)) <= qtol * len(gens)
            if at_limit and not holds:
                nontrivial = True
                res.label("q-limit-binding")
            if not holds and not at_limit:
                res.fail("gen-vm-neither-setpoint-nor-limit", node=int(n), vm=vm.at[bus0], setpoint=setp, q=qs, qmin=qmin, qmax=qmax)
        elif not holds:
            res.fail("gen-vm/" + m, node=int(n), vm=vm.at[bus0], setpoint=setp, at_slack=at_slack)

    # 3. sgen / storage / load / shunt laws
    for tab, sign in (("sgen", 1), ("storage", 1)):
        for idx, r in net[tab].iterrows():
            rp, rq = net["res_" + tab].at[idx, "p_mw"], net["res_" + tab].at[idx, "q_mvar"]
            live = r.in_service and net.bus.at[r.bus, "in_service"] and alive(r.bus)
            ep, eq = (r.p_mw * r.scaling, r.q_mvar * r.scaling) if live else (0.0, 0.0)
            if not live and math.isnan(rp):
                continue
            if not _ok(rp, ep, ptol) or (not dc and not _ok(rq, eq, ptol)):
                res.fail("%s-law/%s%s" % (tab, m, "" if live else "/dead"), element=int(idx), res=[rp, rq], expected=[ep, eq])
            if live and r.scaling != 1:
                nontrivial = True
    for idx, r in net.load.iterrows():
        rp, rq = net.res_load.at[idx, "p_mw"], net.res_load.at[idx, "q_mvar"]
        live = r.in_service and net.bus.at[r.bus, "in_service"] and alive(r.bus)
        if not live:
            if not (math.isnan(rp) or rp == 0) or not (dc or math.isnan(rq) or rq == 0):
                res.fail("load-law/%s/dead" % m, element=int(idx), res=[rp, rq])
            continue
        v = vm.at[r.bus]
        if vdl:
            czp, cip, czq, ciq = (r.const_z_p_percent / 100, r.const_i_p_percent / 100, r.const_z_q_percent / 100, r.const_i_q_percent / 100)
            ep = r.p_mw * r.scaling * ((1 - czp - cip) + cip * v + czp * v * v)
            eq = r.q_mvar * r.scaling * ((1 - czq - ciq) + ciq * v + czq * v * v)
            if czp or cip or czq or ciq:
                nontrivial = True
                res.label("zip-load")
        else:
            ep, eq = r.p_mw * r.scaling, r.q_mvar * r.scaling
        if not _ok(rp, ep, ptol) or (not dc and not _ok(rq, eq, ptol)):
            res.fail("load-law/" + m, element=int(idx), res=[rp, rq], expected=[ep, eq], vm=v)
    for idx, r in net.shunt.iterrows():
        rp, rq = net.res_shunt.at[idx, "p_mw"], net.res_shunt.at[idx, "q_mvar"]
        live = r.in_service and net.bus.at[r.bus, "in_service"] and alive(r.bus)
        if not live:
            if not (math.isnan(rp) or rp == 0) or not (dc or math.isnan(rq) or rq == 0):
                res.fail("shunt-law/%s/dead" % m, element=int(idx), res=[rp, rq])
            continue
        v = vm.at[r.bus]
        f = (v * net.bus.at[r.bus, "vn_kv"] / r.vn_kv) ** 2 * r.step
        ep, eq = r.p_mw * f, r.q_mvar * f
        if r.vn_kv != net.bus.at[r.bus, "vn_kv"] or r.step != 1:
            nontrivial = True
            res.label("shunt-step-or-foreign-vn")
        if not _ok(rp, ep, ptol) or (not dc and not _ok(rq, eq, ptol)):
            res.fail("shunt-law/" + m, element=int(idx), res=[rp, rq], expected=[ep, eq], vm=v)
    res.nontrivial = nontrivial
    if any(len(g) > 1 for g in by_node.values()):
        res.label("gens-share-node")
    if opt.get("enforce_q_lims"):
        res.label("enforce_q_lims")
    return res
