"""C30 - Network diagnostics are side-effect free and stateless (DESIGN.md sec. 2, C30; suspected defect F13).

A case is {"nets": [netspec, ...], "ops": [op, ...]} (optionally "ref": "spawn", replay files only).

netspec = {"recipe": <netgen recipe>, "stress": <factor applied to load p/q>, "zones": <bool: bus.zone = z0/z1>}
ops (indices are resolved modulo the number of live instances / nets inside `check`):
  {"op": "new", "defaults": bool}                                   Diagnostic(add_default_functions=defaults)
  {"op": "register", "inst": i, "target": "any"|"own", "fn": kind, "args": None|[names], "name": None|str,
   "share": None|k}    register_function(<new object of class kind>, ...) or, with share=k, the k-th function OBJECT the
                       user created earlier (registered once more on this or on another Diagnostic instance)
  {"op": "diagnose", "inst": i, "net": j, "kwargs": {...}, "report_style": None|"compact"|"detailed",
   "warnings_only": bool, "return_result_dict": bool}               instance.diagnose_network(net, ...)
  {"op": "helper", "net": j, "kwargs": {...}}                       pandapower.diagnostic.diagnostic(net, report_style=None, ...)
  {"op": "report", "inst": i, "compact": bool, "warnings_only": bool}   instance.report(...) of an earlier diagnosed instance

Abstract model: per instance (defaults?, own registrations). Expected function list = pristine defaults (if requested)
+ own registrations; expected keyword arguments of a call = pristine default values (if requested) + the explicit
arguments of THAT call (nothing of earlier calls, nothing of other instances).

Reference (differential, as the property is): what a process that has never used the diagnostic returns for
`d = Diagnostic(defaults); d.register_function(<own registrations>); d.diagnose_network(net, **explicit)`.
Choice: in-process reset instead of a fresh process per call. A fresh `spawn` process costs ~7 s (import + first power
flow) per reference call and daemonic pool workers cannot start children, so `_reference` runs in-process in a state
the history cannot have polluted:
  * ALL module-level mutable containers of pandapower.diagnostic.{diagnostic,diagnostic_functions,diagnostic_helpers}
    (found by enumeration at import; today default_argument_values and default_diagnostic_functions) are reset IN PLACE
    from deep copies taken at import (=> fresh DiagnosticFunction objects) for the duration of the reference run and the
    polluted content is put back afterwards, so that live instances aliasing them behave as if nothing happened;
  * a NEW Diagnostic instance, NEW objects of the registered functions, a FRESH deep copy of a template net that is never
    handed to the code under test, logger filters/level as at import.
  The replay replays/C30/selfcheck-spawn-reference.json ("ref": "spawn") is run first on every check and compares the
  in-process references of its history with references computed in really fresh `spawn` processes (one per call); a
  disagreement is reported as harness/reference-disagreement.
User-created function objects: the reference registers FRESH objects of the same classes; entries of one instance that are
the same object stay one (fresh) object, so a difference can only come from what an object (or the net) carries over from
earlier calls / other instances (signature result-differs/hidden-state/<results|errors>:<function class>). A separate
report() of an instance is not judged when another instance has run one of its (user-shared) function objects in the
meantime: the objects keep what their report needs (design of DiagnosticFunction.report), the outcome is not specified.
Generated shapes (scenario drawn per case): random histories; "reuse" = user-created objects of every DiagnosticFunction
class registered on an instance without defaults (or on two instances), called with explicit options and later without them
(TUNED: option/class/hook/huge-load combinations where the dropped option decides the verdict); "implausible" = an
in-service line / impedance / xward / trafo / trafo3w made implausible by value (or flagged through thresholds) with a
converging or non-converging base power flow (huge load at a supplied bus, max_iteration=1, run hooks).
When the actual outcome differs from the reference, the call is replayed once more with the kwargs / function list the
instance REALLY used (`_effective`): if that reproduces the outcome, the difference is explained by the observed pollution
(signature result-differs/<origin of the pollution>), otherwise result-differs/unexplained|hidden-state/<function>.
"""
import contextlib
import copy
import importlib
import io
import json
import logging
import math

from hypothesis import strategies as st

from pbt import netgen, oracles
from pbt.core import Result, silence, exc_sig

ID = "C30"
LEVEL = "exploration"
EXAMPLES = {"quick": 192, "thorough": 5000}
SHRINK_S = {"quick": 10, "thorough": 60}
DEADLINE_S = {"quick": 900, "thorough": 3000}
RULE = ("Hypothesis draws 1-3 small network recipes (<=6 buses, all element kinds, optional x30/x300 load stress and "
        "bus zones) and a history of 3-10 JSON operations with >=2 calls (new Diagnostic with/without default functions, "
        "register_function of harness-defined echo/count functions or of every DiagnosticFunction class of "
        "diagnostic_functions.py with all/named/no kwargs, as a new object or as an object the user registered before (same or "
        "other instance), diagnose_network with 0-3 drawn options "
        "(diagnostic thresholds, documented docstring names, power-flow kwargs such as max_iteration=1, stateless "
        "`run` hooks that raise LoadflowNotConverged depending on the net state), the helper diagnostic(), report()); "
        "a fifth of the histories ends with 'A diagnoses, B diagnoses with other thresholds, A reports'; "
        "a quarter of the histories is leak-free by construction on the unrepaired tree (options only in the last call, "
        "registrations only on instances without defaults). 3/8 of the cases are 'reuse' histories (1-4 user-created function "
        "objects on an instance without defaults, optionally the same objects on a second instance; first call with explicit "
        "own/power-flow options, later calls without them, on a network that gets a huge load or with run hooks so that the "
        "dropped option decides the verdict), 2/8 'implausible' histories (line/impedance/xward/trafo/trafo3w implausible by "
        "value or by thresholds x base power flow converges / fails by huge load, max_iteration=1, run hook). check interprets the list against real objects and an "
        "abstract model; after every step: module-level containers == pristine copies, a new instance has the pristine "
        "defaults, instances not operated on keep kwargs/functions, result/errors/raised exception/report text of every "
        "diagnose_network == reference for (net, model function list, pristine defaults + explicit kwargs of that call), "
        "input tables unchanged (oracles.snapshot: every non-result DataFrame incl. ward/xward/impedance/switch) also when "
        "inner power flows fail. Labels measure the shapes (implausible-<type>+base-pf-fails|converges, "
        "reused|shared-function-instance/explicit-then-default, explicit-then-default/option-matters, per class). "
        "Non-trivial = (>=2 instances exist (helper counts) or one instance is called twice) and >=1 non-default option or "
        "registration happened before a "
        "later diagnose/helper/report step whose outcome was compared with the reference; distinct by case hash.")
ASSUMPTIONS = ["reference = in-process run on pristine module state + fresh function objects + fresh net copy "
               "(validated against a fresh spawn process by a replay on every run)",
               "floats in results compared with rtol 1e-9 / atol 1e-12, everything else exactly; report text exactly",
               "DiagnosticFunction objects of the default list may keep per-call state; only observable effects "
               "(results, errors, report text) are judged, not their attributes",
               "result tables (res_*), _ppc, converged flags may change: 'network unchanged' = input tables, std_types, "
               "user_pf_options, sn_mva/f_hz/name (oracles.snapshot)",
               "a separate report() of an instance whose user-shared function object was run by another instance since its last "
               "diagnose_network is not judged (objects keep per-call report state by design)",
               "exceptions other than ValueError(missing named argument)/RuntimeError(report before diagnose) escaping "
               "diagnose_network/report are compared with the reference, not forbidden"]
TECHNIQUE = "property-based testing: operation histories (Hypothesis lists) + abstract model / pristine differential reference"

LOGGER_NAME = "pandapower.diagnostic.diagnostic_helpers"
MODULES = ("pandapower.diagnostic.diagnostic_functions", "pandapower.diagnostic.diagnostic",
           "pandapower.diagnostic.diagnostic_helpers")

PROFILE = netgen.profile(nb_level=(1, 3), nb_max=6, max_per_bus=2, extra_branches=(0, 1), oos=0.12,
                         bus_kinds={"load": 5, "sgen": 3, "gen": 3, "storage": 1, "shunt": 1, "ward": 1, "xward": 2,
                                    "motor": 1, "asymmetric_load": 0, "asymmetric_sgen": 0},
                         branch_kinds={"line": 7, "impedance": 2, "bb": 2})

# drawn options: diagnostic thresholds, names documented in the diagnose_network docstring, power flow kwargs, run hooks
KW = {
    "overload_scaling_factor": [0.001, 0.01, 0.1, 0.5, 0.9],
    "capacitance_scaling_factor": [0.1, 0.5, 1.0],
    "min_r_ohm": [0.01, 0.1, 1.0, 5.0],
    "min_x_ohm": [0.01, 0.1, 1.0, 5.0],
    "max_r_ohm": [10.0, 1.0],
    "max_x_ohm": [10.0, 1.0],
    "nominal_voltage_tolerance": [0.1, 0.02],
    "nom_voltage_tolerance": [0.3, 0.1, 0.02],
    "numba_tolerance": [1e-9, 1e-13],
    "lines_min_length_km": [0.0, 0.5],
    "lines_min_z_ohm": [0.0, 0.1],
    "max_iteration": [1, 2, 30],
    "algorithm": ["nr", "iwamoto_nr"],
    "calculate_voltage_angles": [True, False],
    "trafo_model": ["pi"],
    "tolerance_mva": [1e-4],
    "enforce_q_lims": [True],
    "run": ["always_fail", "ok_if_load_scaled", "ok_if_gen_scaled", "ok_if_switches_closed", "ok_if_no_capacitance",
            "ok_if_low_capacitance"],
    "my_option": [1, 2],
}
KW_WEIGHT = {"max_iteration": 5, "run": 4, "min_r_ohm": 3, "min_x_ohm": 3, "overload_scaling_factor": 3,
             "nom_voltage_tolerance": 2, "nominal_voltage_tolerance": 2, "my_option": 2}
# option sets that reach the deep repair paths (implausible elements replaced by switches after a failed power flow)
PRESETS = [{"min_r_ohm": 5.0, "min_x_ohm": 5.0, "max_iteration": 1}, {"min_x_ohm": 1.0, "max_iteration": 2},
           {"min_r_ohm": 1.0, "run": "ok_if_switches_closed"}, {"max_r_ohm": 1.0, "max_x_ohm": 1.0, "max_iteration": 1},
           {"overload_scaling_factor": 0.5, "run": "ok_if_load_scaled"}, {"run": "ok_if_gen_scaled", "min_x_ohm": 5.0}]
# (options of instance A, options of instance B) whose reports print the thresholds / factors that were used
REPORT_PAIRS = [({"min_r_ohm": 1.0}, {"min_r_ohm": 5.0}), ({"min_x_ohm": 5.0}, {"min_x_ohm": 0.1}),
                ({"min_r_ohm": 5.0, "min_x_ohm": 5.0}, {}),
                ({"overload_scaling_factor": 0.5, "max_iteration": 1}, {"overload_scaling_factor": 0.1, "max_iteration": 1}),
                ({"capacitance_scaling_factor": 0.5, "run": "ok_if_no_capacitance"}, {"run": "ok_if_no_capacitance"})]
# every DiagnosticFunction class of pandapower/diagnostic/diagnostic_functions.py (checked against the module in _env:
# a class missing here is labelled "uncovered-class:<name>")
LIB_CLASSES = ["InvalidValues", "NoExtGrid", "MultipleVoltageControllingElementsPerBus", "Overload", "WrongLineCapacitance",
               "SubNetProblemTest", "OptimisticPowerflow", "SlackGenPlacement", "TestContinuousBusIndices",
               "WrongSwitchConfiguration", "MissingBusIndices", "DifferentVoltageLevelsConnected",
               "ImplausibleImpedanceValues", "NominalVoltagesMismatch", "DisconnectedElements", "WrongReferenceSystem",
               "NumbaComparison", "DeviationFromStdType", "ParallelSwitches"]
FN_KINDS = ["echo", "echo", "echo", "echo", "count", "SlackGenPlacement", "Overload", "ImplausibleImpedanceValues"] + LIB_CLASSES
# options a function class reads itself (non-default values whose effect on the verdict is large)
OWN_OPTS = {
    "Overload": [{"overload_scaling_factor": 0.9}, {"overload_scaling_factor": 0.5}],
    "WrongLineCapacitance": [{"capacitance_scaling_factor": 0.5}, {"capacitance_scaling_factor": 1.0}],
    "ImplausibleImpedanceValues": [{"min_x_ohm": 5.0}, {"min_r_ohm": 5.0, "min_x_ohm": 5.0}, {"max_r_ohm": 1.0, "max_x_ohm": 1.0},
                                   {"min_r_ohm": 1.0}],
    "NominalVoltagesMismatch": [{"nom_voltage_tolerance": 0.02}, {"nominal_voltage_tolerance": 0.02}],
    "NumbaComparison": [{"numba_tolerance": 1e-13}],
}
# classes that run power flows: power-flow kwargs / run hooks are options of theirs, too
PF_CLASSES = ["Overload", "WrongLineCapacitance", "SubNetProblemTest", "OptimisticPowerflow", "SlackGenPlacement",
              "TestContinuousBusIndices", "WrongSwitchConfiguration", "ImplausibleImpedanceValues", "NumbaComparison"]
PF_OPTS = [{"max_iteration": 1}, {"run": "always_fail"}, {"run": "ok_if_load_scaled"}, {"algorithm": "iwamoto_nr"},
           {"calculate_voltage_angles": False, "max_iteration": 2}]
# kwargs given to BOTH calls of an explicit-then-default pair: make the base power flow of the second call fail, too
COMMON_OPTS = [{}, {}, {"run": "ok_if_load_scaled"}, {"run": "ok_if_load_scaled"}, {"run": "ok_if_gen_scaled"},
               {"run": "ok_if_no_capacitance"}, {"run": "always_fail"}, {"run": "ok_if_switches_closed"}, {"max_iteration": 1}]
# kwargs of both calls of a "tuned" explicit-then-default pair ({} = the network gets a huge load: real non-convergence):
# the base power flow of the second call fails and the verdict of Overload / WrongLineCapacitance depends on the factor
TUNED_COMMON = [{}, {}, {}, {"run": "ok_if_load_scaled"}, {"run": "ok_if_load_scaled"}, {"run": "ok_if_gen_scaled"},
                {"run": "ok_if_low_capacitance"}, {"run": "ok_if_low_capacitance"}, {"run": "ok_if_no_capacitance"},
                {"max_iteration": 1}, {"run": "always_fail"}, {"run": "ok_if_switches_closed"}]
# thresholds that flag ordinary elements as implausible
THRESHOLDS = [{"max_r_ohm": 1.0, "max_x_ohm": 1.0}, {"min_x_ohm": 5.0}, {"min_r_ohm": 5.0, "min_x_ohm": 5.0}, {"max_x_ohm": 10.0}]
IMPL_TYPES = ["xward", "xward", "line", "impedance", "trafo", "trafo3w"]
PROFILE_1L = netgen.profile(nb_level=(1, 3), nb_max=6, max_per_bus=2, extra_branches=(0, 1), oos=0, open_prob=0.1,
                            bus_kinds={"load": 5, "sgen": 3, "gen": 2, "storage": 1, "shunt": 1, "ward": 1, "xward": 2,
                                       "motor": 1, "asymmetric_load": 0, "asymmetric_sgen": 0},
                            branch_kinds={"line": 7, "impedance": 2, "bb": 1})
PROFILE_2L = netgen.profile(nb_level=(1, 3), nb_max=6, max_per_bus=2, extra_branches=(0, 1), oos=0, open_prob=0.1,
                            level_sets=[ls for ls in netgen.LEVEL_SETS if len(ls) == 2],
                            bus_kinds={"load": 5, "sgen": 3, "gen": 2, "storage": 1, "shunt": 1, "ward": 1, "xward": 2,
                                       "motor": 1, "asymmetric_load": 0, "asymmetric_sgen": 0},
                            branch_kinds={"line": 7, "impedance": 2, "bb": 1})
PROFILE_3L = netgen.profile(nb_level=(1, 2), nb_max=6, max_per_bus=2, extra_branches=(0, 1), oos=0, open_prob=0.1,
                            level_sets=[ls for ls in netgen.LEVEL_SETS if len(ls) == 3],
                            bus_kinds={"load": 5, "sgen": 3, "gen": 2, "storage": 1, "shunt": 1, "ward": 1, "xward": 2,
                                       "motor": 1, "asymmetric_load": 0, "asymmetric_sgen": 0},
                            branch_kinds={"line": 7, "impedance": 2, "bb": 1})
ARG_CHOICES = [None, None, [], ["min_r_ohm"], ["my_option"], ["overload_scaling_factor", "my_option"]]
NAME_CHOICES = [None, None, "custom_a", "custom_b"]
HELPER_DEFAULTS = {"overload_scaling_factor": 0.001, "lines_min_length_km": 0., "nom_voltage_tolerance": 0.3,
                   "lines_min_z_ohm": 0.}


# ---------------------------------------------------------------------------------------------------------
# strategy

def _kwargs_strategy():
    names = [k for k in KW for _ in range(KW_WEIGHT.get(k, 1))]

    @st.composite
    def kw(draw):
        n = draw(st.sampled_from([0, 1, 1, 1, 2, 2, 3]))
        if draw(st.integers(0, 7)) == 7:     # (switches are "on" for the maximal draw: the all-minimal first example stays plain)
            return dict(draw(st.sampled_from(PRESETS)))
        out = {}
        for _ in range(n):
            k = draw(st.sampled_from(names))
            out[k] = draw(st.sampled_from(KW[k]))
        return out
    return kw()


@st.composite
def _op(draw, kinds=("new", "new", "register", "register", "diagnose", "diagnose", "diagnose", "diagnose", "diagnose",
                     "helper", "report", "report")):
    kind = draw(st.sampled_from(kinds))
    if kind == "new":
        return {"op": "new", "defaults": draw(st.sampled_from([True, True, True, False]))}
    if kind == "register":
        return {"op": "register", "inst": draw(st.integers(0, 5)), "target": draw(st.sampled_from(["any", "any", "own"])),
                "fn": draw(st.sampled_from(FN_KINDS)), "args": draw(st.sampled_from(ARG_CHOICES)),
                "name": draw(st.sampled_from(NAME_CHOICES)),
                # None: a new function object; k: the k-th function object the user created earlier (if there is one)
                "share": draw(st.sampled_from([None, None, None, 0, 1, 2]))}
    if kind == "diagnose":
        return {"op": "diagnose", "inst": draw(st.integers(0, 5)), "net": draw(st.integers(0, 2)),
                "kwargs": draw(_kwargs_strategy()),
                "report_style": draw(st.sampled_from([None, None, None, "compact", "detailed"])),
                "warnings_only": draw(st.booleans()),
                "return_result_dict": draw(st.sampled_from([True, True, True, False]))}
    if kind == "helper":
        return {"op": "helper", "net": draw(st.integers(0, 2)), "kwargs": draw(_kwargs_strategy())}
    return {"op": "report", "inst": draw(st.integers(0, 5)), "compact": draw(st.booleans()),
            "warnings_only": draw(st.booleans())}


def _alive(recipe, e):
    if not e.get("in_service", True):
        return False
    return all(recipe["buses"][e[k]].get("in_service", True) for k in netgen.BUS_KEYS if k in e)


def _level_s(recipe, bus):
    return netgen.LEVELS[recipe["buses"][bus]["vn_kv"]]["s"]


def _pick_or_insert(draw, recipe, et):
    """an in-service element of type `et` of the recipe; xward / impedance are inserted when there is none and the
    recipe allows it (no xward at a voltage-controlled node; impedance parallel to a line). -> element or None"""
    el = recipe["el"]
    cand = [e for e in el if e["t"] == et and _alive(recipe, e)]
    if cand:
        return draw(st.sampled_from(cand))
    if et == "xward":
        node = netgen.nodes_of(recipe)
        vc = {node[e["bus"]] for e in el if e["t"] in ("ext_grid", "gen")}
        buses = [i for i, b in enumerate(recipe["buses"]) if b.get("in_service", True) and node[i] not in vc]
        if not buses:
            return None
        b = draw(st.sampled_from(buses))
        S = _level_s(recipe, b)
        zb = recipe["buses"][b]["vn_kv"] ** 2 / S
        e = {"t": "xward", "bus": b, "ps_mw": round(0.1 * S, 6), "qs_mvar": round(0.03 * S, 6), "pz_mw": 0.0,
             "qz_mvar": 0.0, "r_ohm": round(0.01 * zb, 6), "x_ohm": round(0.1 * zb, 6), "vm_pu": 1.0}
        el.append(e)
        return e
    if et == "impedance":
        lines = [e for e in el if e["t"] == "line" and _alive(recipe, e)]
        if not lines:
            return None
        ln = draw(st.sampled_from(lines))
        e = {"t": "impedance", "from_bus": ln["from_bus"], "to_bus": ln["to_bus"], "rft_pu": 0.01, "xft_pu": 0.05,
             "sn_mva": round(2 * _level_s(recipe, ln["from_bus"]), 4)}
        el.append(e)
        return e
    return None


def _make_implausible(draw, recipe, et):
    """make one in-service element of type `et` implausible for the DEFAULT thresholds (r/x <= 0.001 ohm or >= 100 ohm) by
    value. -> description or None (not possible)"""
    e = _pick_or_insert(draw, recipe, et)
    if e is None:
        return None
    if et == "xward":
        how = draw(st.sampled_from(["zero", "zero", "tiny", "huge"]))
        e.update({"zero": dict(r_ohm=0.0, x_ohm=0.0), "tiny": dict(r_ohm=0.0, x_ohm=0.0005),
                  "huge": dict(x_ohm=150.0)}[how])
        return "xward/" + how
    if et == "line":
        how = draw(st.sampled_from(["tiny", "tiny", "zero-r", "huge"]))
        e.update({"tiny": dict(length_km=0.001), "zero-r": dict(r_ohm_per_km=0.0), "huge": dict(length_km=2000.0)}[how])
        return "line/" + how
    if et == "impedance":
        how = draw(st.sampled_from(["tiny", "tiny", "huge"]))
        v = {"tiny": dict(rft_pu=0.0, xft_pu=1e-05), "huge": dict(xft_pu=50.0)}[how]
        e.update(v)
        if "xtf_pu" in e:
            e.update({k.replace("ft_", "tf_"): x for k, x in v.items()})
        return "impedance/" + how
    # transformers: short-circuit reactance referred to the hv side >= 100 ohm when that needs vk <= 40 %
    sn, vk_key = (e["sn_mva"], "vk_percent") if et == "trafo" else (e["sn_hv_mva"], "vk_hv_percent")
    vk = 100.0 * 100.0 * sn / e["vn_hv_kv"] ** 2
    if vk > 40.0:
        return None
    e[vk_key] = max(e[vk_key], round(vk + 0.5, 2))
    return et + "/huge"


@st.composite
def _netspec(draw, prof=PROFILE):
    recipe = draw(netgen.grid(prof))
    # shapes netgen draws rarely: the only reference is a slack generator / a generator out of service
    eg = [e for e in recipe["el"] if e["t"] == "ext_grid"]
    if len(eg) == 1 and draw(st.integers(0, 3)) == 3:
        eg[0].pop("va_degree", None)
        eg[0].update(t="gen", p_mw=0.0, slack=True)
    if draw(st.integers(0, 3)) == 3:
        gens = [e for e in recipe["el"] if e["t"] == "gen" and not e.get("slack")]
        if gens:
            draw(st.sampled_from(gens))["in_service"] = False
    return {"recipe": recipe,
            "stress": draw(st.sampled_from([1, 1, 1, 30, 300])),
            "zones": draw(st.sampled_from([False, False, True]))}


def _supplied_buses(recipe):
    """bus positions connected to an in-service slack through in-service branches / closed switches (sorted)"""
    el = recipe["el"]
    ok = lambda b: recipe["buses"][b].get("in_service", True)      # noqa: E731
    cut = set()         # (table, ordinal) of branches with an open element switch
    for e in el:
        if e["t"] == "switch" and e["et"] != "b" and not e.get("closed", True):
            cut.add((netgen.ET_TABLE[e["et"]], e["element"]))
    adj = {}
    count = {}
    for e in el:
        t = e["t"]
        k = count[t] = count.get(t, -1) + 1
        if t == "switch":
            ends = [e["bus"], e["element"]] if e["et"] == "b" and e.get("closed", True) else []
        elif t in ("line", "impedance", "trafo", "trafo3w"):
            ends = [e[x] for x in netgen.BUS_KEYS if x in e] if e.get("in_service", True) and (t, k) not in cut else []
        else:
            continue
        if all(ok(b) for b in ends):
            for a in ends:
                adj.setdefault(a, set()).update(ends)
    todo = [e["bus"] for e in el if (e["t"] == "ext_grid" or (e["t"] == "gen" and e.get("slack"))) and e.get("in_service", True)
            and ok(e["bus"])]
    seen = set(todo)
    while todo:
        for b in adj.get(todo.pop(), ()):
            if b not in seen:
                seen.add(b)
                todo.append(b)
    return sorted(seen)


def _huge_load(draw, spec):
    """a load far beyond the capability of the network at a supplied bus (if possible not the slack bus): the power flow
    does not converge"""
    recipe = spec["recipe"]
    slack = {e["bus"] for e in recipe["el"] if e["t"] == "ext_grid" or (e["t"] == "gen" and e.get("slack"))}
    sup = _supplied_buses(recipe)
    buses = [b for b in sup if b not in slack] or sup or [i for i, b in enumerate(recipe["buses"]) if b.get("in_service", True)]
    b = draw(st.sampled_from(buses))
    S = _level_s(recipe, b)
    recipe["el"].append({"t": "load", "bus": b, "p_mw": round(300.0 * S, 6), "q_mvar": round(100.0 * S, 6)})
    spec["stress"] = 1


def _diag(inst, net, kwargs, style=None):
    return {"op": "diagnose", "inst": inst, "net": net, "kwargs": dict(kwargs), "report_style": style,
            "warnings_only": False, "return_result_dict": True}


def _merge(*dicts):
    out = {}
    for d in dicts:
        out.update(d)
    return out


@st.composite
def _reuse_prefix(draw, nets):
    """user-created function objects registered on an instance without defaults (or on two instances), called with
    explicit options and later without them"""
    tuned = draw(st.booleans())
    if tuned:
        # all classes that read options of their own at once (+ 0-2 others); every one gets a non-default own option in the
        # first call; both calls share kwargs / a huge load under which the dropped options decide the verdicts
        classes = list(draw(st.permutations(sorted(OWN_OPTS)))) + \
            [draw(st.sampled_from(LIB_CLASSES)) for _ in range(draw(st.integers(0, 2)))]
    else:
        n_fn = draw(st.sampled_from([1, 2, 2, 3, 4]))
        classes = [draw(st.sampled_from(PF_CLASSES + LIB_CLASSES)) for _ in range(n_fn)]
    if draw(st.integers(0, 4)) == 4:
        classes.append("echo")
    two = draw(st.integers(0, 2)) == 2
    ops = [{"op": "new", "defaults": False}]
    for k, c in enumerate(classes):
        ops.append({"op": "register", "inst": 0, "target": "any", "fn": c, "args": None,
                    "name": draw(st.sampled_from([None, None, "custom_a"])), "share": None})
    if two:
        ops.append({"op": "new", "defaults": draw(st.sampled_from([False, False, False, True]))})
        for k, c in enumerate(classes):
            ops.append({"op": "register", "inst": 1, "target": "any", "fn": c,
                        "args": draw(st.sampled_from([None, None, None, []])), "name": None, "share": k})
    # explicit options of the first call: own options of the classes, power flow options, anything
    k1 = {}
    j1 = draw(st.integers(0, len(nets) - 1))
    if tuned:
        for c in classes:
            if c in OWN_OPTS:
                k1.update(draw(st.sampled_from(OWN_OPTS[c])))
        common = dict(draw(st.sampled_from(TUNED_COMMON)))
        j2 = j1
        huge = not common or ("run" not in common and draw(st.integers(0, 2)) == 2)
    else:
        for c in classes:
            pool = list(OWN_OPTS.get(c, [])) * 3 + (PF_OPTS if c in PF_CLASSES else []) + [{"my_option": 1}]
            k1.update(draw(st.sampled_from(pool)))
        common = dict(draw(st.sampled_from(COMMON_OPTS)))
        for k in k1:
            common.pop(k, None)
        # every second history: the later call is on ANOTHER network (what an object keeps of a network must not matter)
        j2 = j1 if draw(st.booleans()) else (j1 + draw(st.integers(1, max(1, len(nets) - 1)))) % len(nets)
        huge = not common or draw(st.integers(0, 2)) == 2
    if huge:
        _huge_load(draw, nets[j2])        # the second call sees a really non-converging network
    second = 1 if two else 0
    ops.append(_diag(0, j1, _merge(common, k1)))
    if draw(st.integers(0, 3)) == 3:
        ops.append(draw(_op(kinds=("diagnose", "helper", "new"))))
    ops.append(_diag(second, j2, common, style=draw(st.sampled_from([None, None, "compact", "detailed"]))))
    if draw(st.integers(0, 2)) == 2:
        ops.append(_diag(0, j1, common))
    if draw(st.integers(0, 3)) == 3:
        ops.append({"op": "report", "inst": second, "compact": draw(st.booleans()), "warnings_only": False})
    return ops


@st.composite
def _implausible_case(draw):
    """an element of every type the replace step touches is flagged (by value or by thresholds); base power flow converges
    or fails (huge load, max_iteration=1, run hook)"""
    et = draw(st.sampled_from(IMPL_TYPES))
    spec = draw(_netspec({"trafo": PROFILE_2L, "trafo3w": PROFILE_3L}.get(et, PROFILE_1L)))
    spec["stress"] = 1
    recipe = spec["recipe"]
    triggers = ["xward", "line", "impedance"]
    by_value = draw(st.integers(0, 2)) > 0
    kwargs = {}
    if by_value:
        done = _make_implausible(draw, recipe, et)
        if et in ("trafo", "trafo3w") or done is None:
            # the replace step needs a flagged line / impedance / xward
            for t in draw(st.permutations(triggers)):
                if _make_implausible(draw, recipe, t):
                    break
    else:
        # thresholds that flag ordinary elements; an element of the wanted type and one that triggers the replace step exist
        if _pick_or_insert(draw, recipe, et) is None or et in ("trafo", "trafo3w"):
            for t in draw(st.permutations(triggers)):
                if _pick_or_insert(draw, recipe, t):
                    break
        kwargs = dict(draw(st.sampled_from(THRESHOLDS)))
    pf = draw(st.sampled_from(["converge", "converge", "huge-load", "huge-load", "max_iteration", "hook"]))
    if pf == "huge-load":
        _huge_load(draw, spec)
    elif pf == "max_iteration":
        kwargs["max_iteration"] = 1
    elif pf == "hook":
        kwargs["run"] = draw(st.sampled_from(["always_fail", "ok_if_switches_closed", "ok_if_load_scaled"]))
    nets = [spec]
    if draw(st.integers(0, 2)) == 2:
        nets.append(draw(_netspec()))
    who = draw(st.sampled_from(["default", "default", "default", "helper", "own", "own"]))
    if who == "helper":
        ops = [{"op": "helper", "net": 0, "kwargs": kwargs}]
    elif who == "default":
        ops = [{"op": "new", "defaults": True}, _diag(0, 0, kwargs, style=draw(st.sampled_from([None, None, "detailed"])))]
    else:
        ops = [{"op": "new", "defaults": False},
               {"op": "register", "inst": 0, "target": "any", "fn": "ImplausibleImpedanceValues", "args": None, "name": None,
                "share": None}]
        if draw(st.booleans()):
            ops.append({"op": "register", "inst": 0, "target": "any", "fn": draw(st.sampled_from(LIB_CLASSES)), "args": None,
                        "name": None, "share": None})
        ops.append(_diag(0, 0, kwargs))
    n_tail = draw(st.integers(0, 2))
    ops += draw(st.lists(_op(), min_size=n_tail, max_size=n_tail))
    # the same network again (it must still be the network the reference sees)
    ops.append(_diag(draw(st.integers(0, 2)), 0, draw(st.sampled_from([{}, {}, kwargs]))))
    return {"nets": nets, "ops": ops}


@st.composite
def _case(draw, tier):
    scenario = draw(st.sampled_from(["random", "random", "random", "reuse", "reuse", "reuse", "implausible", "implausible"]))
    if scenario == "implausible":
        return draw(_implausible_case())
    n_nets = draw(st.sampled_from([1, 1, 2, 2, 3]))
    if scenario == "reuse":
        n_nets = max(n_nets, draw(st.integers(1, 2)))
        # mostly networks without out-of-service elements (netgen's in_service draws leave few supplied buses otherwise)
        nets = [draw(_netspec(draw(st.sampled_from([PROFILE_1L, PROFILE_1L, PROFILE_2L, PROFILE_3L, PROFILE]))))
                for _ in range(n_nets)]
        ops = draw(_reuse_prefix(nets))
        n_tail = draw(st.integers(0, 2))
        ops += draw(st.lists(_op(), min_size=n_tail, max_size=n_tail))
        return {"nets": nets, "ops": ops}
    nets = [draw(_netspec()) for _ in range(n_nets)]
    n_ops = draw(st.integers(3, 8))
    ops = draw(st.lists(_op(), min_size=n_ops, max_size=n_ops))
    clean = draw(st.integers(0, 3)) == 3
    if clean:
        ops = [o for o in ops if o["op"] != "helper"]       # the helper always passes options
    while sum(o["op"] in ("diagnose", "helper") for o in ops) < 2:      # at least two calls
        ops.append(draw(_op(kinds=("diagnose",))))
    if clean:
        # leak-free by construction on the unrepaired tree: options only in the last call, registrations only on
        # instances without default functions
        last = max(i for i, o in enumerate(ops) if o["op"] == "diagnose")
        for i, o in enumerate(ops):
            if o["op"] == "diagnose" and i != last:
                o["kwargs"] = {}
            if o["op"] == "register":
                o["target"] = "own"
    if draw(st.integers(0, 4)) == 4:
        # shape that random op lists reach rarely: instance A diagnoses, instance B diagnoses with other thresholds,
        # then A reports (the report must still belong to A's call)
        k1, k2 = draw(st.sampled_from(REPORT_PAIRS))
        if clean:
            k1 = {}
        a, b = draw(st.integers(0, 1)), draw(st.integers(0, 2))
        mk = lambda kw, j: {"op": "diagnose", "inst": 0 if kw is k1 else 1, "net": j, "kwargs": dict(kw),    # noqa: E731
                            "report_style": None, "warnings_only": False, "return_result_dict": True}
        ops = [{"op": "new", "defaults": True}, {"op": "new", "defaults": True}] + ops[:5] + [
            mk(k1, a), mk(k2, b), {"op": "report", "inst": 0, "compact": draw(st.booleans()), "warnings_only": False}]
    return {"nets": nets, "ops": ops}


def strategy(tier):
    return _case(tier)


# ---------------------------------------------------------------------------------------------------------
# environment: modules, pristine copies, harness-defined functions

_S = {}


def _env():
    """modules under test + pristine deep copies of every module-level mutable container, taken at first use (=import)"""
    if _S:
        return _S
    mods = [importlib.import_module(m) for m in MODULES]
    dfm, dm, dh = mods
    containers = []     # (object, [(module, name), ...], pristine deep copy)
    for m in mods:
        for name, val in list(vars(m).items()):
            if name.startswith("__") or not isinstance(val, (dict, list, set)):
                continue
            for c in containers:
                if c[0] is val:
                    c[1].append((m, name))
                    break
            else:
                containers.append((val, [(m, name)], copy.deepcopy(val)))
    from pandapower.auxiliary import LoadflowNotConverged
    from pandapower.run import runpp

    class Echo(dh.DiagnosticFunction):
        """harness-defined: returns exactly the keyword arguments it was called with"""
        def diagnostic(self, net, **kwargs):
            return {"kwargs": _canon(kwargs), "n_bus": len(net.bus)}

        def report(self, error, results):
            if error is not None:
                self.out.warning("echo failed: %s" % error)
                return
            if results is None:
                self.out.info("PASSED: echo has nothing to report")
                return
            self.out.compact("echo: %s" % json.dumps(results, sort_keys=True))
            self.out.detailed("echo detailed: %s" % json.dumps(results, sort_keys=True))

    class Count(dh.DiagnosticFunction):
        """harness-defined trivial function of the net"""
        def diagnostic(self, net, **kwargs):
            return {"n_bus": len(net.bus), "n_line": len(net.line), "p_load": float(net.load.p_mw.sum())}

        def report(self, error, results):
            self.out.warning("count: %s" % json.dumps(results, sort_keys=True))

    class RunHook:
        """stateless power-flow replacement for kwargs['run']: raises LoadflowNotConverged depending on the net state only"""
        def __init__(self, kind):
            self.kind = kind

        def __call__(self, net, **kw):
            k = self.kind
            if k == "always_fail":
                ok = False
            elif k == "ok_if_load_scaled":
                ok = len(net.load) > 0 and bool((net.load.scaling.values <= 0.5).all())
            elif k == "ok_if_gen_scaled":
                ok = len(net.sgen) + len(net.gen) > 0 and bool((net.sgen.scaling.values <= 0.5).all()) \
                    and bool((net.gen.scaling.values <= 0.5).all())
            elif k == "ok_if_switches_closed":
                ok = bool(net.switch.closed.values.all())
            elif k == "ok_if_no_capacitance":
                ok = bool((net.line.c_nf_per_km.values <= 1.0).all())
            elif k == "ok_if_low_capacitance":
                ok = bool((net.line.c_nf_per_km.values <= 5.0).all())
            else:
                raise KeyError(k)
            if not ok:
                raise LoadflowNotConverged("run hook %s: not converged" % k)
            return runpp(net, **kw)

        def __eq__(self, other):
            return isinstance(other, RunHook) and other.kind == self.kind

        def __hash__(self):
            return hash(self.kind)

        def __repr__(self):
            return "RunHook(%s)" % self.kind

    _S.update(dfm=dfm, dm=dm, dh=dh, containers=containers, Echo=Echo, Count=Count, RunHook=RunHook,
              args_obj=dfm.default_argument_values, funcs_obj=dfm.default_diagnostic_functions,
              logger=logging.getLogger(LOGGER_NAME))
    for obj, where, pristine in containers:
        if obj is _S["args_obj"]:
            _S["P_ARGS"] = pristine
        if obj is _S["funcs_obj"]:
            _S["P_FUNCS"] = pristine
    _S["P_FILTERS"] = list(_S["logger"].filters)
    _S["P_LEVEL"] = _S["logger"].level
    # every DiagnosticFunction class defined in diagnostic_functions.py
    lib = {n: c for n, c in vars(dfm).items() if isinstance(c, type) and issubclass(c, dh.DiagnosticFunction)
           and c.__module__ == dfm.__name__}
    _S["kinds"] = dict(lib, echo=Echo, count=Count)
    _S["uncovered"] = sorted(set(lib) - set(LIB_CLASSES))
    return _S


def _fspec(functions):
    """observable description of a function list: [(name, class, arg names)]"""
    return [(n, type(f), None if a is None else tuple(a)) for n, f, a in functions]


def _fspec_json(spec):
    return [[n, c.__name__, None if a is None else list(a)] for n, c, a in spec]


def _container_equal(cur, pristine):
    if isinstance(pristine, list) and all(isinstance(x, tuple) and len(x) == 3 for x in pristine) and pristine:
        try:
            return _fspec(cur) == _fspec(pristine)
        except Exception:
            return False
    return _canon(cur) == _canon(pristine)


def _set_inplace(obj, content):
    if isinstance(obj, dict):
        obj.clear()
        obj.update(content)
    elif isinstance(obj, list):
        obj[:] = content
    else:
        obj.clear()
        obj.update(content)


@contextlib.contextmanager
def _pristine_module_state():
    """module-level containers and logger filters as at import; the polluted content is put back afterwards"""
    env = _env()
    saved = [(obj, copy.copy(obj)) for obj, _, _ in env["containers"]]
    lg = env["logger"]
    saved_filters, saved_level = list(lg.filters), lg.level
    for obj, _, pristine in env["containers"]:
        _set_inplace(obj, copy.deepcopy(pristine))
    lg.filters[:] = env["P_FILTERS"]
    lg.setLevel(env["P_LEVEL"])
    try:
        yield
    finally:
        for obj, content in saved:
            _set_inplace(obj, content)
        lg.filters[:] = saved_filters
        lg.setLevel(saved_level)


def _reset_everything():
    env = _env()
    for obj, where, pristine in env["containers"]:
        _set_inplace(obj, copy.deepcopy(pristine))
        for m, name in where:
            setattr(m, name, obj)
    env["logger"].filters[:] = env["P_FILTERS"]
    env["logger"].setLevel(env["P_LEVEL"])


@contextlib.contextmanager
def _capture_log():
    lg = _env()["logger"]
    buf = io.StringIO()
    h = logging.StreamHandler(buf)
    h.setLevel(0)
    h.setFormatter(logging.Formatter("%(levelname)s|%(message)s"))
    prev_disable, prev_prop, prev_handlers = logging.root.manager.disable, lg.propagate, list(lg.handlers)
    logging.disable(logging.NOTSET)
    lg.propagate = False
    lg.handlers[:] = [h]
    try:
        yield buf
    finally:
        lg.handlers[:] = prev_handlers
        lg.propagate = prev_prop
        logging.disable(prev_disable)


# ---------------------------------------------------------------------------------------------------------
# canonical (JSON-like) form of results / errors, tolerant comparison

def _canon(x):
    import numpy as np
    import pandas as pd
    if x is None or isinstance(x, (bool, str)):
        return x
    if isinstance(x, (np.bool_,)):
        return bool(x)
    if isinstance(x, (int, np.integer)):
        return int(x)
    if isinstance(x, (float, np.floating)):
        x = float(x)
        return "nan" if math.isnan(x) else x
    if isinstance(x, dict):
        return {"{%s}" % _key(k): _canon(v) for k, v in x.items()}
    if isinstance(x, (list, tuple)):
        return [_canon(v) for v in x]
    if isinstance(x, (set, frozenset)):
        return sorted((_canon(v) for v in x), key=repr)
    if isinstance(x, pd.Series):
        return {"__series__": [[_canon(i), _canon(v)] for i, v in zip(x.index, x.values)]}
    if isinstance(x, pd.DataFrame):
        return {"__frame__": {str(c): _canon(x[c]) for c in x.columns}}
    if isinstance(x, np.ndarray):
        return [_canon(v) for v in x.tolist()]
    if isinstance(x, pd.Index):
        return [_canon(v) for v in x.tolist()]
    if isinstance(x, BaseException):
        return {"__exc__": type(x).__name__, "msg": str(x)}
    return "<%s>" % repr(x)


def _key(k):
    c = _canon(k)
    return c if isinstance(c, str) else repr(c)


def _same(a, b, path=""):
    """None if equal (floats with tolerance), else the path of the first difference"""
    if isinstance(a, float) and isinstance(b, float):
        return None if abs(a - b) <= 1e-12 + 1e-9 * max(abs(a), abs(b)) else path or "/"
    if type(a) is not type(b):
        if isinstance(a, (int, float)) and isinstance(b, (int, float)) and not isinstance(a, bool) and not isinstance(b, bool):
            return None if abs(a - b) <= 1e-12 + 1e-9 * max(abs(a), abs(b)) else path or "/"
        return path or "/"
    if isinstance(a, dict):
        for k in a:
            if k not in b:
                return "%s/%s" % (path, k)
        for k in b:
            if k not in a:
                return "%s/%s" % (path, k)
        for k in a:
            d = _same(a[k], b[k], "%s/%s" % (path, k))
            if d:
                return d
        return None
    if isinstance(a, list):
        if len(a) != len(b):
            return path or "/"
        for i, (x, y) in enumerate(zip(a, b)):
            d = _same(x, y, "%s/%d" % (path, i))
            if d:
                return d
        return None
    return None if a == b else path or "/"


# ---------------------------------------------------------------------------------------------------------
# nets

def _template(spec):
    """deterministic netspec -> net; the template itself is never handed to the code under test"""
    recipe = copy.deepcopy(spec["recipe"])
    stress = spec.get("stress", 1)
    if stress != 1:
        for e in recipe["el"]:
            if e["t"] == "load":
                e["p_mw"] = round(e["p_mw"] * stress, 6)
                e["q_mvar"] = round(e["q_mvar"] * stress, 6)
    if spec.get("zones"):
        for i, b in enumerate(recipe["buses"]):
            b["zone"] = "z%d" % (i % 2)
    net, _ = netgen.build(recipe)
    return net


def _resolve_kwargs(kw):
    env = _env()
    out = {}
    for k, v in kw.items():
        out[k] = env["RunHook"](v) if k == "run" else v
    return out


# ---------------------------------------------------------------------------------------------------------
# references

def _outcome(d, raised, text, rep):
    return {"raised": raised, "results": _canon(d.diag_results) if d is not None else {},
            "errors": _canon(d.diag_errors) if d is not None else {}, "text": text,
            "report_raised": rep[0] if rep else None, "report_text": rep[1] if rep else None}


def _call(d, net, explicit, style, wo, then_report, buf):
    """one diagnose_network call (+ optionally a separate report() afterwards) on instance d; -> outcome"""
    raised = None
    try:
        d.diagnose_network(net, report_style=style, warnings_only=wo, **explicit)
    except Exception as e:
        raised = _canon(e)
    text = buf.getvalue() if style is not None else None
    rep = None
    if then_report is not None:
        buf.seek(0)
        buf.truncate()
        r = None
        try:
            d.report(compact_report=then_report[0], warnings_only=then_report[1])
        except Exception as e:
            r = _canon(e)
        rep = (r, buf.getvalue())
    return _outcome(d, raised, text, rep)


def _fresh_objects(spec, uids):
    """fresh function objects for a function list; entries with the same uid (the user registered ONE object twice on this
    instance) share one fresh object, as in the call that is being judged"""
    objs, out = {}, []
    for k, (name, cls, args) in enumerate(spec):
        uid = uids[k] if uids is not None and k < len(uids) and uids[k] is not None else ("#", k)
        if uid not in objs:
            objs[uid] = cls()
        out.append((name, objs[uid], None if args is None else list(args)))
    return out


def _topology(uids):
    """canonical form of a uid list: position of the first entry with the same uid"""
    return [uids.index(u) for u in uids]


def _reference(template, defaults, regs, explicit, style=None, wo=False, then_report=None, uids=None):
    """What a process that has never run a diagnostic before returns for
    Diagnostic(defaults) + the instance's own registrations + ONE diagnose_network(net, **explicit):
    module state reset in place to the pristine copies (fresh function objects), fresh net copy, new instance."""
    env = _env()
    net = copy.deepcopy(template)
    with _pristine_module_state(), silence(), _capture_log() as buf:
        d = env["dm"].Diagnostic(add_default_functions=defaults)
        for name, obj, args in _fresh_objects(regs, uids):
            d.register_function(obj, args, name)
        return _call(d, net, explicit, style, wo, then_report, buf)


def _reference_helper(template, explicit):
    env = _env()
    net = copy.deepcopy(template)
    out = {"raised": None, "results": {}, "errors": {}, "text": None, "report_raised": None, "report_text": None}
    with _pristine_module_state(), silence():
        try:
            out["results"] = _canon(env["dh"].diagnostic(net, report_style=None, **explicit))
        except Exception as e:
            out["raised"] = _canon(e)
    return out


def _effective(template, eff_spec, eff_kw, module_args, explicit, style=None, wo=False, then_report=None, ids=None):
    """The same call replayed with the EFFECTIVE (possibly polluted) function list / kwargs / module-level default values
    that the instance really used, but with fresh function objects on a fresh net copy: tells whether a difference to
    the reference is fully explained by the observed pollution of kwargs / function list."""
    env = _env()
    net = copy.deepcopy(template)
    saved = dict(env["args_obj"])
    lg = env["logger"]
    saved_filters, saved_level = list(lg.filters), lg.level
    try:
        _set_inplace(env["args_obj"], dict(module_args))
        lg.filters[:] = env["P_FILTERS"]
        with silence(), _capture_log() as buf:
            d = env["dm"].Diagnostic(add_default_functions=False)
            d._functions = _fresh_objects(eff_spec, ids)
            d.kwargs = dict(eff_kw)
            return _call(d, net, explicit, style, wo, then_report, buf)
    finally:
        _set_inplace(env["args_obj"], saved)
        lg.filters[:] = saved_filters
        lg.setLevel(saved_level)


def _spawn_reference(args):
    """target of the fresh process (replay self check): the reference from a process that has never seen the history"""
    import os
    import sys
    import warnings
    sys.stdout = open(os.devnull, "w")
    sys.stderr = sys.stdout
    warnings.filterwarnings("ignore")
    logging.disable(logging.CRITICAL)
    netspec, defaults, regs_json, kw_json, style, wo = args[:6]
    uids = args[6] if len(args) > 6 else None
    env = _env()
    pristine = {"args": _canon(env["P_ARGS"]), "funcs": _fspec_json(_fspec(env["P_FUNCS"]))}
    net = _template(netspec)
    with silence(), _capture_log() as buf:      # no reset of anything: this process is pristine
        d = env["dm"].Diagnostic(add_default_functions=defaults)
        spec = [(name, env["kinds"][kind], a) for name, kind, a in regs_json]
        for name, obj, a in _fresh_objects(spec, uids):
            d.register_function(obj, a, name)
        out = _call(d, net, _resolve_kwargs(kw_json), style, wo, None, buf)
    return out, pristine


def _first_diff(a, b, with_text):
    for part in ("results", "errors"):
        d = _same(a[part], b[part])
        if d:
            return "%s:%s" % (part, d.strip("/").split("/")[0].strip("{}"))
    if _same(a["raised"], b["raised"]):
        return "raised"
    if with_text and a.get("text") != b.get("text"):
        return "text"
    return None


def _outcome_equal(a, b, with_text):
    return _first_diff(a, b, with_text) is None


def _missing_argument(spec, kw):
    """documented dispatch rule: ValueError for the first function whose named argument is not available"""
    for name, _, arg_names in spec:
        for a in arg_names or ():
            if a not in kw:
                return "Diagnostic function '%s' expects argument '%s', which was not provided." % (name, a)
    return None


# ---------------------------------------------------------------------------------------------------------
# check

def check(case):
    env = _env()
    res = Result()
    _reset_everything()
    try:
        _run_history(case, res, env)
    finally:
        _reset_everything()
    return res


def _run_history(case, res, env):
    Diagnostic = env["dm"].Diagnostic
    P_ARGS, P_FUNCS = env["P_ARGS"], env["P_FUNCS"]
    p_spec = _fspec(P_FUNCS)
    kind_of = {cls: k for k, cls in env["kinds"].items()}
    n_nets = len(case["nets"])
    templates, snaps0, nets = [None] * n_nets, [None] * n_nets, [None] * n_nets     # built on first use
    net_used = [0] * n_nets
    insts = []          # {"obj", "defaults", "reg": [(name, cls, args)], "last": None | dict}
    ref_cache = {}
    seen = set()
    kw_history = []     # explicit kwargs of all calls so far: (instance position or None for the helper, kwargs)
    st_ = {"n_instances": 0, "polluting_before": False, "compared_after": False}
    spawn = case.get("ref") == "spawn"
    spawn_jobs = []
    user_objs = []      # function objects created by the user (register ops), in creation order; uid = position
    user_ids = {}       # id(object) -> uid
    obj_calls = {}      # uid -> [(instance position, option names handed to the object, net, result name, result)]
    for name in env["uncovered"]:
        res.label("uncovered-class:" + name)

    def fail(sig, **detail):
        if sig not in seen:
            seen.add(sig)
            res.fail(sig, **detail)

    def regs_json(regs):
        return [[n, kind_of[c], None if a is None else list(a)] for n, c, a in regs]

    def reference(j, inst, kw_json, explicit, style, wo):
        topo = _topology(inst["uids"])
        key = json.dumps([j, inst["defaults"], regs_json(inst["reg"]), topo, kw_json, style, wo], sort_keys=True)
        if key not in ref_cache:
            ref_cache[key] = _reference(templates[j], inst["defaults"], inst["reg"], explicit, style, wo, uids=topo)
            if spawn:
                spawn_jobs.append(((case["nets"][j], inst["defaults"], regs_json(inst["reg"]), kw_json, style, wo, topo),
                                   ref_cache[key]))
        return ref_cache[key]

    def obj_ids(d):
        """identity tokens of the function objects of an instance (same token = same object)"""
        return [id(f) for _, f, _ in d._functions]

    def expected_spec(inst):
        return (p_spec if inst["defaults"] else []) + inst["reg"]

    def new_instance(defaults, step):
        d = Diagnostic(add_default_functions=defaults)
        st_["n_instances"] += 1
        inst = {"obj": d, "defaults": defaults, "reg": [], "uids": [], "last": None}
        insts.append(inst)
        # I2: a new instance has exactly the pristine defaults
        want_kw = P_ARGS if defaults else {}
        if _same(_canon(d.kwargs), _canon(want_kw)):
            fail("shared-defaults/kwargs", observation="new instance does not start with the pristine default values",
                 step=step, kwargs=_canon(d.kwargs), pristine=_canon(want_kw))
        if _fspec(d._functions) != (p_spec if defaults else []):
            fail("shared-defaults/functions", observation="new instance does not start with the pristine function list",
                 step=step, functions=[n for n, _, _ in d._functions][-4:], n_pristine=len(p_spec) if defaults else 0)
        return inst

    def pick_instance(op, step, own=False):
        cand = [i for i in insts if not i["defaults"]] if own else insts
        if not cand:
            return new_instance(not own, step)
        return cand[op.get("inst", 0) % len(cand)]

    def others_state(skip):
        return [(i, _canon(dict(i["obj"].kwargs)), _fspec(i["obj"]._functions)) for i in insts if i is not skip]

    def check_others(before, step, what):
        for inst, kw0, fs0 in before:
            if _same(kw0, _canon(dict(inst["obj"].kwargs))):
                fail("shared-defaults/kwargs", observation="%s changed the kwargs of another live instance" % what, step=step)
            if fs0 != _fspec(inst["obj"]._functions):
                fail("shared-defaults/functions", observation="%s changed the function list of another live instance" % what,
                     step=step)

    def check_module(step):
        for obj, where, pristine in env["containers"]:
            for m, nm in where:
                if getattr(m, nm) is not obj:
                    fail("module-state/rebound/%s" % nm, step=step)
            if not _container_equal(obj, pristine):
                if obj is env["args_obj"]:
                    fail("shared-defaults/kwargs", observation="module-level default_argument_values differs from the "
                         "pristine copy", step=step, now=_canon(obj), pristine=_canon(pristine))
                elif obj is env["funcs_obj"]:
                    fail("shared-defaults/functions", observation="module-level default_diagnostic_functions differs from "
                         "the pristine copy", step=step, now=[n for n, _, _ in obj][-4:], n_pristine=len(pristine))
                else:
                    fail("module-state/%s-mutated" % where[0][1], step=step)

    def classify(inst_pos, exp_kw, eff_kw, exp_spec, eff_spec, module_args):
        """why do the effective kwargs / functions differ from the model: earlier call on the same instance or elsewhere"""
        causes = []
        if eff_spec != exp_spec:
            causes.append("functions-of-other-instance")
        same = False
        # library functions fall back to the module-level default values for options they do not receive
        other = bool(_same(_canon({k: v for k, v in module_args.items() if k not in eff_kw}),
                           _canon({k: v for k, v in P_ARGS.items() if k not in eff_kw})))
        for k in sorted(set(eff_kw) | set(exp_kw), key=str):
            if k in eff_kw and k in exp_kw and not _same(_canon(eff_kw[k]), _canon(exp_kw[k])):
                continue
            from_same = inst_pos is not None and any(
                p == inst_pos and k in kw and (k not in eff_kw or not _same(_canon(kw[k]), _canon(eff_kw[k])))
                for p, kw in kw_history)
            if from_same:
                same = True
            else:
                other = True
        if same:
            causes.append("kwargs-of-earlier-call-same-instance")
        if other:
            causes.append("kwargs-of-other-instance")
        return causes

    def attribute_net_change(j, eff_spec, eff_kw, module_args):
        """which function changes the input tables when run alone on a fresh copy with the same arguments"""
        saved = dict(env["args_obj"])
        try:
            _set_inplace(env["args_obj"], dict(module_args))
            for name, cls, arg_names in eff_spec:
                net = copy.deepcopy(templates[j])
                snap = oracles.snapshot(net)
                args = dict(eff_kw) if arg_names is None else {a: eff_kw[a] for a in arg_names if a in eff_kw}
                with silence():
                    try:
                        cls().diagnostic(net, **args)
                        how = "returned"
                    except Exception as e:
                        how = "raised-" + type(e).__name__
                diffs = oracles.compare_snapshot(snap, net)
                if diffs:
                    return cls.__name__, how, diffs
        finally:
            _set_inplace(env["args_obj"], saved)
        return None, None, None

    def judge(step, op, j, inst_pos, exp, actual, exp_spec, exp_kw, eff_spec, eff_kw, module_args, explicit, style, wo,
              errors_observable=True, ids=None):
        """actual outcome vs reference; if different: is it explained by the observed pollution?"""
        if st_["polluting_before"]:
            st_["compared_after"] = True
        with_text = style is not None
        if not errors_observable:
            actual["errors"] = exp["errors"]
        if _outcome_equal(actual, exp, with_text):
            return True
        causes = classify(inst_pos, exp_kw, eff_kw, exp_spec, eff_spec, module_args)
        where = _first_diff(actual, exp, with_text)
        detail = dict(step=step, op=op, first_difference=where,
                      actual={k: actual[k] for k in ("raised", "results", "errors")},
                      expected={k: exp[k] for k in ("raised", "results", "errors")})
        explained = False
        if causes:
            eff = _effective(templates[j], eff_spec, eff_kw, module_args, explicit, style, wo, ids=ids)
            if not errors_observable:
                eff["errors"] = actual["errors"]
            explained = _outcome_equal(actual, eff, with_text)
            for c in causes:
                fail("result-differs/" + c, causes=causes, **detail)
            if not explained:
                fail("result-differs/unexplained/%s" % where, note="differs also from a replay with the effective (polluted) "
                     "kwargs and function list on a fresh net", causes=causes, **detail)
        else:
            # kwargs and function list are as the model says: the state is carried by a function object (or by the net)
            culprit = where
            if where.startswith(("results:", "errors:")):
                nm = where.split(":", 1)[1]
                cl = [c.__name__ for n, c, _ in eff_spec if n == nm]
                culprit = "%s:%s" % (where.split(":")[0], cl[0]) if cl else where
            shared = inst_pos is not None and any(
                p != inst_pos for f_id in (ids or []) if f_id in user_ids for p, *_ in obj_calls.get(user_ids[f_id], []))
            fail("result-differs/hidden-state/%s" % culprit, function_object_used_by_other_instance_before=bool(shared),
                 **detail)
        return False

    for step, op in enumerate(case["ops"]):
        kind = op["op"]
        if kind == "new":
            new_instance(bool(op.get("defaults", True)), step)
            res.label("new:defaults" if op.get("defaults", True) else "new:empty")

        elif kind == "register":
            inst = pick_instance(op, step, own=op.get("target") == "own")
            cls = env["kinds"][op["fn"]]
            name = op.get("name") or cls.__name__
            used = {n for n, _, _ in expected_spec(inst)} | {n for n, _, _ in inst["obj"]._functions}
            k, base = 1, name
            while name in used:     # result-name collisions are not specified: avoided by construction
                k += 1
                name = "%s_%d" % (base, k)
            args = op.get("args")
            before = others_state(inst)
            share = op.get("share")
            if share is not None and user_objs:
                # the user registers a function object created earlier once more (on this or on another instance)
                uid = share % len(user_objs)
                fobj = user_objs[uid]
                cls = type(fobj)
                if not op.get("name"):
                    name = cls.__name__
                    k = 1
                    while name in used:
                        k += 1
                        name = "%s_%d" % (cls.__name__, k)
                where = [i for i in insts if uid in i["uids"]]
                res.label("register:shared-object/other-instance" if any(i is not inst for i in where)
                          else "register:shared-object/same-instance")
            else:
                fobj = cls()
                uid = len(user_objs)
                user_objs.append(fobj)
                user_ids[id(fobj)] = uid
            inst["obj"].register_function(fobj, None if args is None else list(args), name)
            inst["reg"] = inst["reg"] + [(name, cls, None if args is None else tuple(args))]
            inst["uids"] = inst["uids"] + [uid]
            check_others(before, step, "register_function")
            if _fspec(inst["obj"]._functions)[-1:] != inst["reg"][-1:]:
                fail("register/not-appended", step=step, op=op)
            st_["polluting_before"] = True
            res.label("register:default-inst" if inst["defaults"] else "register:own-inst")
            res.label("register:" + kind_of[cls])

        elif kind in ("diagnose", "helper"):
            j = op.get("net", 0) % n_nets
            if templates[j] is None:
                try:
                    with silence():
                        templates[j] = _template(case["nets"][j])
                except Exception as e:      # the recipes come from netgen: building must work
                    res.skipped = "build:" + exc_sig(e)
                    return
                snaps0[j] = oracles.snapshot(templates[j])
                nets[j] = copy.deepcopy(templates[j])
            net = nets[j]
            if net_used[j]:
                res.label("net-reused")
            net_used[j] += 1
            kw_json = dict(op.get("kwargs") or {})
            explicit = _resolve_kwargs(kw_json)
            snap = oracles.snapshot(net)
            if kind == "diagnose":
                inst = pick_instance(op, step)
                inst_pos = insts.index(inst)
                d = inst["obj"]
                style = op.get("report_style")
                wo = bool(op.get("warnings_only", False))
                rrd = bool(op.get("return_result_dict", True))
                exp_spec = expected_spec(inst)
                exp_kw = dict(P_ARGS if inst["defaults"] else {})
                exp_kw.update(explicit)
                before = others_state(inst)
                ids = obj_ids(d)
                # user-created function objects that got an option in an earlier call and do not get it now
                handed = []
                for (fname, fobj, arg_names) in d._functions:
                    if id(fobj) not in user_ids:
                        continue
                    uid = user_ids[id(fobj)]
                    keys = set(exp_kw) if arg_names is None else {a for a in arg_names if a in exp_kw}
                    nondefault = {k for k in keys if k not in P_ARGS or _same(_canon(exp_kw[k]), _canon(P_ARGS[k]))}
                    if any(j0 != j for _, _, j0, _, _ in obj_calls.get(uid, [])):
                        res.label("user-function-object/called-on-another-network-before")
                    for p0, keys0, j0, _, _ in obj_calls.get(uid, []):
                        if keys0 - nondefault:
                            res.label("%s-function-instance/explicit-then-default" % ("reused" if p0 == inst_pos else "shared"))
                            res.label("explicit-then-default:" + type(fobj).__name__)
                    handed.append((uid, nondefault, fname, fobj))
                ret, raised = None, None
                with silence(), _capture_log() as buf:
                    try:
                        ret = d.diagnose_network(net, report_style=style, warnings_only=wo, return_result_dict=rrd, **explicit)
                    except Exception as e:
                        raised = _canon(e)
                    actual = _outcome(d, raised, buf.getvalue() if style is not None else None, None)
                if raised is None:
                    if rrd and ret is not d.diag_results:
                        fail("return/not-the-result-dict", step=step)
                    if not rrd and ret is not None:
                        fail("return/not-None-with-return_result_dict-False", step=step)
                eff_spec = _fspec(d._functions)
                eff_kw = dict(d.kwargs)
                eff_kw.update(explicit)         # (an implementation need not store the options of a call)
                module_args = dict(env["args_obj"])
                check_others(before, step, "diagnose_network with options")
                exp = reference(j, inst, kw_json, explicit, style, wo)
                # documented dispatch rule, checked on the reference itself
                msg = _missing_argument(exp_spec, exp_kw)
                got = exp["raised"]["msg"] if exp["raised"] and exp["raised"]["__exc__"] == "ValueError" else None
                if msg != got:
                    fail("dispatch/missing-argument-rule", step=step, op=op, model=msg, reference=exp["raised"])
                if msg:
                    res.label("missing-named-argument")
                ok = judge(step, op, j, inst_pos, exp, actual, exp_spec, exp_kw, eff_spec, eff_kw, module_args, explicit,
                           style, wo, ids=ids)
                inst["last"] = {"net": j, "spec": eff_spec, "kw": eff_kw, "module_args": module_args, "explicit": explicit,
                                "raised": raised, "results": actual["results"], "errors": actual["errors"], "clean": ok,
                                "ids": ids}
                for uid, nondefault, fname, fobj in handed:
                    mine = _canon([exp["results"].get("{%s}" % fname), exp["errors"].get("{%s}" % fname)])
                    for p0, keys0, j0, _, r0 in obj_calls.get(uid, []):
                        if keys0 - nondefault and j0 == j and _same(r0, mine):
                            # the dropped option changes what the function returns for this network
                            res.label("explicit-then-default/option-matters")
                            res.label("option-matters:" + type(fobj).__name__)
                    obj_calls.setdefault(uid, []).append((inst_pos, nondefault, j, fname, mine))
                kw_history.append((inst_pos, explicit))
                res.label("diagnose:defaults" if inst["defaults"] else "diagnose:own-functions-only")
                if style is not None:
                    res.label("diagnose:with-report")
                if raised is not None:
                    res.label("raised:" + raised["__exc__"])
            else:
                st_["n_instances"] += 1
                full = dict(HELPER_DEFAULTS)
                full.update(explicit)
                exp_kw = dict(P_ARGS)
                exp_kw.update(full)
                before = others_state(None)
                actual = _outcome(None, None, None, None)
                with silence():
                    try:
                        actual["results"] = _canon(env["dh"].diagnostic(net, report_style=None, **explicit))
                    except Exception as e:
                        actual["raised"] = _canon(e)
                eff_spec = _fspec(env["funcs_obj"])
                module_args = dict(env["args_obj"])
                eff_kw = dict(module_args)
                eff_kw.update(full)
                check_others(before, step, "helper diagnostic()")
                key = json.dumps(["helper", j, kw_json], sort_keys=True)
                if key not in ref_cache:
                    ref_cache[key] = _reference_helper(templates[j], explicit)
                # the helper's instance is not accessible: returned results (and a raised exception) only
                judge(step, op, j, None, ref_cache[key], actual, p_spec, exp_kw, eff_spec, eff_kw, module_args, full,
                      None, False, errors_observable=False)
                kw_history.append((None, full))
                res.label("helper")
            # labels about the path taken
            polluting_now = kind == "helper"     # the helper always passes its four documented options
            if kw_json:
                res.label("call-with-options")
                for k in kw_json:
                    if k in ("run", "max_iteration"):
                        res.label("opt:" + k)
                if any(k not in P_ARGS or kw_json[k] != P_ARGS[k] for k in kw_json):
                    polluting_now = True
            r = actual["results"]
            if isinstance(r, dict) and ("{overload}" in r or "{wrong_switch_configuration}" in r
                                        or "{optimistic_powerflow}" in r or "{wrong_line_capacitance}" in r):
                res.label("inner-pf-failed")
            if isinstance(r, dict) and "{implausible_impedance_values}" in r:
                res.label("implausible-impedance")
                v = r["{implausible_impedance_values}"]
                if isinstance(v, list) and len(v) > 1:
                    res.label("switch-replacement-tried")
            # which element types were flagged, and did the base power flow fail (=> the replace step ran on the net)
            for nm, c, _ in eff_spec:
                v = r.get("{%s}" % nm) if isinstance(r, dict) and c.__name__ == "ImplausibleImpedanceValues" else None
                if isinstance(v, list) and v and isinstance(v[0], dict):
                    flagged = sorted(k.strip("{}") for k in v[0])
                    trigger = any(k in ("line", "impedance", "xward") for k in flagged)
                    how = "base-pf-fails" if len(v) > 1 else "base-pf-converges" if trigger else "no-replace-trigger"
                    for k in flagged:
                        res.label("implausible-%s+%s" % (k, how))
            # I5: input tables unchanged
            diffs = oracles.compare_snapshot(snap, net)
            if diffs:
                culprit, how, d2 = attribute_net_change(j, eff_spec, eff_kw, module_args)
                if culprit:
                    fail("net-changed/%s/%s" % (culprit, how), step=step, op=op, diffs=diffs[:6], alone=d2[:6])
                else:
                    fail("net-changed/unattributed/%s" % diffs[0].split(":")[0], step=step, op=op, diffs=diffs[:6])
                nets[j] = copy.deepcopy(templates[j])     # continue with a clean net
                res.label("net-changed")
            if polluting_now:
                st_["polluting_before"] = True

        elif kind == "report":
            if not insts:
                new_instance(True, step)
            cand = [i for i in insts if i["last"] is not None] or insts      # prefer instances that have diagnosed
            inst = cand[op.get("inst", 0) % len(cand)]
            d = inst["obj"]
            compact, wo = bool(op.get("compact", True)), bool(op.get("warnings_only", False))
            raised = None
            with silence(), _capture_log() as buf:
                try:
                    d.report(compact_report=compact, warnings_only=wo)
                except Exception as e:
                    raised = _canon(e)
                text = buf.getvalue()
            last = inst["last"]
            if last is None:
                # documented: RuntimeError when no diagnostic results are available
                if raised is None or raised["__exc__"] != "RuntimeError":
                    fail("report/no-RuntimeError-before-diagnose", step=step, raised=raised)
                res.label("report:before-diagnose")
            elif last["raised"] is not None:
                res.label("report:after-raised-call")       # partial results: not specified, not judged
            elif _fspec(d._functions) != last["spec"]:
                # a function was registered after the last call: it has no result yet, its report is not specified
                res.label("report:after-later-registration")
            elif any(id(f) in user_ids and obj_calls.get(user_ids[id(f)]) and obj_calls[user_ids[id(f)]][-1][0] != insts.index(inst)
                     for _, f, _ in d._functions):
                # a function object the user shares between instances was run by another instance in the meantime: the
                # object keeps what it needs for its report (documented design), whose report this is is not specified
                res.label("report:shared-object-used-by-other-instance")
            else:
                # the report belongs to the instance's last call: same text as a report made right after that call
                # (replayed with the kwargs / functions that call really used, fresh function objects, fresh net)
                ref = _effective(templates[last["net"]], last["spec"], last["kw"], last["module_args"], last["explicit"],
                                 None, False, then_report=(compact, wo), ids=last.get("ids"))
                if _same(ref["results"], last["results"]) or _same(ref["errors"], last["errors"]):
                    res.label("report:replay-differs")      # judged at the diagnose step already
                else:
                    if st_["polluting_before"]:
                        st_["compared_after"] = True
                    if _same(raised, ref["report_raised"]) or text != ref["report_text"]:
                        n_diag = len([i for i in insts if i["last"] is not None])
                        fail("report-differs/state-of-shared-function-objects" if n_diag > 1 or "helper" in res.labels
                             else "report-differs/single-instance", step=step, op=op, raised=raised,
                             reference_raised=ref["report_raised"], first_difference=_first_text_diff(text, ref["report_text"]))
                    res.label("report:after-diagnose")
                    if len([i for i in insts if i["last"] is not None]) > 1:
                        res.label("report:other-instance-diagnosed-too")
        else:
            raise ValueError("unknown op %r" % (op,))

        # I1 after every step
        check_module(step)

    # templates must never change (they are the reference inputs)
    for t, s in zip(templates, snaps0):
        if t is not None and oracles.compare_snapshot(s, t):
            raise RuntimeError("harness: template net was modified")

    if spawn and spawn_jobs:
        _spawn_compare(spawn_jobs, fail, env)

    if st_["n_instances"] >= 2:
        res.label("instances>=2")
    res.label("option-or-registration-seen" if st_["polluting_before"] else "history-without-options")
    if not seen:
        res.label("no-failure")
    twice = any(sum(1 for p, _ in kw_history if p == k) >= 2 for k in range(len(insts)))
    if twice:
        res.label("instance-called-twice")
    res.nontrivial = bool((st_["n_instances"] >= 2 or twice) and st_["compared_after"])


def _first_text_diff(a, b):
    la, lb = (a or "").splitlines(), (b or "").splitlines()
    for i in range(max(len(la), len(lb))):
        x = la[i] if i < len(la) else "<missing>"
        y = lb[i] if i < len(lb) else "<missing>"
        if x != y:
            return {"line": i, "actual": x[:200], "reference": y[:200]}
    return None


def _spawn_compare(jobs, fail, env):
    """self check of the reference construction: the same references from really fresh processes (one per call)"""
    import multiprocessing as mp
    from concurrent.futures import ProcessPoolExecutor
    ctx = mp.get_context("spawn")
    with ProcessPoolExecutor(max_workers=min(4, len(jobs)), mp_context=ctx, max_tasks_per_child=1) as ex:
        outs = list(ex.map(_spawn_reference, [j[0] for j in jobs]))
    mine = {"args": _canon(env["P_ARGS"]), "funcs": _fspec_json(_fspec(env["P_FUNCS"]))}
    for (args, exp), (ref, pristine) in zip(jobs, outs):
        if _same(pristine, mine):
            fail("harness/pristine-copies-differ-from-fresh-process", call=args[1:])
        if not _outcome_equal(exp, ref, args[4] is not None):
            fail("harness/reference-disagreement", call=args[1:], first_difference=_first_diff(exp, ref, args[4] is not None))
