"""C13 - Controller loop terminates with converged controllers and fresh results (DESIGN.md sec. 2, C13)."""
import copy
import math

from hypothesis import strategies as st

from pbt import netgen, oracles
from pbt.core import Result, pf_tol, silence, exc_sig

ID = "C13"
LEVEL = "exploration"
EXAMPLES = {"quick": 480, "thorough": 9000}
SHRINK_S = {"quick": 12, "thorough": 60}
DEADLINE_S = {"quick": 420, "thorough": 3000}
RULE = ("Hypothesis draws a 2-3 voltage level network recipe (<= 9 buses, 2W and 3W transformers) and 1-5 controllers: "
        "DiscreteTapControl (band given or from_tap_step_percent, band 0.3-3 tap steps wide) and ContinuousTapControl on 2W/3W "
        "transformers whose tap changer is redrawn (tap side hv/mv/lv, controlled side hv/mv/lv, range up to +-9, random start "
        "position, step 0.5-2.5 %, tap_step_degree 0-180 deg, tap_at_star_point), ConstControl and CharacteristicControl (Q(V) on "
        "sgen/load), each with random level (also a list of levels), order, in_service; then 1-2 calls of run_control or "
        "runpp(run_control=True) with drawn max_iter (loads rescaled before the second call). Every controller object sits behind "
        "a thin recording proxy that logs level_reset / is_converged / control_step and the tap position after every step. "
        "Oracle per call: the call raises ControllerNotConverged / NetCalculationNotConverged / LoadflowNotConverged, or on return "
        "(1) every in-service controller reports is_converged (evaluated on a deep copy), (2) the result tables equal a fresh runpp "
        "of a stripped deep copy of the final tables, (4) own final-state rule per tap controller with the needed tap direction "
        "derived from tap side / controlled side / sign(cos(tap_step_degree)); always (also after a raise) (3) no tap of a "
        "tap-controlled transformer left [tap_min, tap_max] after any control_step, (5) the logged calls form blocks of ascending "
        "level, and every sweep of a block asks each controller of the level once in non-decreasing order, control_step only "
        "directly after a False is_converged. Non-trivial = a call returned with >= 2 in-service controllers and >= 1 tap moved; "
        "distinct by case hash.")
TECHNIQUE = ("property-based testing: Hypothesis network recipe + controller set + call history; oracle = own convergence / band / "
             "direction rules, call-order protocol from a recording proxy, differential comparison with a fresh power flow")
ASSUMPTIONS = ["power flows use tolerance_mva = 1e-10 scaled with sn_mva; results compared with 1e-6 MVA / 1e-7 relative, angles 1e-5 deg",
               "discrete band closed [vm_lower, vm_upper]; from_tap_step_percent band = vm_set +- (tap_step_percent/200 + tol); "
               "continuous: |vm - vm_set| <= tol * max(vm, vm_set) or tap at tap_min/tap_max",
               "final-state rule not applied to a controller whose transformer is out of service, whose controlled bus is an "
               "in-service ext_grid bus or has no voltage (the controller documents these as nothing to do)",
               "needed direction: tap changer in the controlled winding -> higher tap raises the voltage, in any other winding -> "
               "lowers it; times sign(cos(tap_step_degree))",
               "a transformer never gets a DiscreteTapControl and a ContinuousTapControl at the same time (the discrete controller "
               "presumes the documented integer tap_pos; from a fractional position its +-1 step can pass tap_min/tap_max)",
               "tap_step_degree 90 deg is not generated for controlled transformers (ratio independent of the tap direction)",
               "check_tap_bounds=False and check_each_level=False / continue_on_divergence=True are not generated (documented "
               "switches that waive parts of the property)"]

PROFILE = netgen.profile(
    level_sets=[[110.0, 20.0, 0.4], [110.0, 20.0], [220.0, 110.0, 10.0], [20.0, 0.4], [380.0, 110.0, 20.0], [110.0, 10.0],
                [110.0, 20.0, 0.4], [10.0, 0.4], [220.0, 110.0, 10.0], [220.0, 110.0], [380.0, 110.0, 20.0]],
    nb_level=(1, 4), nb_max=9, max_per_bus=2, dcline=False, oos=0, open_prob=0.0, second_slack=8, noslack_island=False,
    custom_index=True, extra_branches=(0, 2), shifts=(0.0, 0.0, 30.0, 150.0), tap_types=(None, "Ratio", "Symmetrical"),
    bus_kinds={"load": 6, "sgen": 4, "gen": 1, "storage": 1, "shunt": 1, "ward": 0, "xward": 0, "motor": 0,
               "asymmetric_load": 0, "asymmetric_sgen": 0})

TAP_KEYS = ("tap_changer_type", "tap_side", "tap_neutral", "tap_min", "tap_max", "tap_pos", "tap_step_percent", "tap_step_degree")
NOT_CONVERGED = ("ControllerNotConverged", "NetCalculationNotConverged", "LoadflowNotConverged")
F16_SIG = "converged-at-end-of-own-level/disturbed-by-later-level"


# ---------------------------------------------------------------------------------------------------------
# generator

@st.composite
def _tap(draw, et):
    tmin = -draw(st.sampled_from([9, 6, 4, 3, 2, 1, 0]))
    tmax = draw(st.sampled_from([9, 6, 4, 3, 2, 1, 0]))
    if tmin == tmax:
        tmax += draw(st.integers(1, 4))
    neutral = draw(st.integers(tmin, tmax)) if draw(st.integers(0, 3)) == 0 else 0
    d = {"tap_changer_type": draw(st.sampled_from(["Ratio", "Ratio", "Symmetrical"])),
         "tap_side": draw(st.sampled_from(["hv", "lv"] if et == "trafo" else ["hv", "mv", "lv"])),
         "tap_neutral": neutral, "tap_min": tmin, "tap_max": tmax, "tap_pos": draw(st.integers(tmin, tmax)),
         "tap_step_percent": draw(netgen.q(0.5, 2.5, nd=2))}
    if d["tap_changer_type"] == "Ratio" and draw(st.integers(0, 1)):
        d["tap_step_degree"] = draw(st.sampled_from([180.0, 0.0, 150.0, 30.0, 120.0, 60.0]))
    return d


@st.composite
def _level_order(draw, base_level):
    if base_level is None:
        lv = draw(st.sampled_from([-1, 0, 0, 1, 1, 2]))
    else:
        lv = base_level
    if draw(st.integers(0, 11)) == 0:
        lv = sorted({lv, draw(st.sampled_from([-1, 0, 1, 2, 3]))})
        if len(lv) == 1:
            lv = lv[0]
    order = draw(st.sampled_from([-1, 0, 0, 1, 1, 2, 3, 0.5]))
    return lv, order


@st.composite
def _case(draw, tier):
    recipe = draw(netgen.grid(PROFILE))
    el = recipe["el"]
    trafos = [(e["t"], k) for t in ("trafo", "trafo3w") for k, e in enumerate(x for x in el if x["t"] == t)]
    by_ord = {(t, k): e for t in ("trafo", "trafo3w") for k, e in enumerate(x for x in el if x["t"] == t)}
    n = draw(st.sampled_from([2, 3, 1, 2, 3, 4, 5]))
    # the profile switches netgen's own out-of-service / open-switch draws off (they leave most tap controllers with nothing
    # to do); a minority of the cases gets one or two dead elements / open switches here
    for e in el:
        if e["t"] == "switch":
            e["closed"] = True
    if draw(st.integers(0, 5)) == 0:
        cand = [e for e in el if e["t"] in ("line", "trafo", "trafo3w", "switch", "load", "sgen")]
        for _ in range(draw(st.integers(1, 2))):
            e = draw(st.sampled_from(cand))
            e["closed" if e["t"] == "switch" else "in_service"] = False
    split = draw(st.integers(0, 9)) < 3          # tap controllers on different levels (shape of finding F16) in a minority
    tap_level = draw(st.sampled_from([0, 0, 1, -1, 2]))
    ctrls = []
    free = list(trafos)
    retapped = set()
    kind_on = {}
    char_free = {t: list(range(sum(1 for e in el if e["t"] == t))) for t in ("sgen", "load")}   # distinct Q(V) targets
    for i in range(n):
        kind = draw(st.sampled_from(["discrete", "continuous", "discrete", "const", "continuous", "discrete", "char", "const",
                                     "discrete", "continuous"])) if i else \
            draw(st.sampled_from(["discrete", "discrete", "continuous"]))
        if kind in ("discrete", "continuous") and not free and draw(st.integers(0, 5)):
            kind = draw(st.sampled_from(["const", "const", "char"]))     # two tap controllers on one transformer only in a minority
        c = {"kind": kind, "in_service": draw(st.integers(0, 9)) != 0}
        if kind in ("discrete", "continuous"):
            if free:
                f3 = [x for x in free if x[0] == "trafo3w"]
                pick = f3[0] if f3 and draw(st.integers(0, 2)) else free[draw(st.integers(0, len(free) - 1))]
                free.remove(pick)
                et, k = pick
            else:
                et, k = draw(st.sampled_from(trafos))
                # a second controller on one transformer is of the same kind: DiscreteTapControl works on the documented integer
                # tap positions, a ContinuousTapControl on the same transformer would hand it fractional ones
                kind = c["kind"] = kind_on[(et, k)]
            kind_on[(et, k)] = kind
            e = by_ord[(et, k)]
            if (et, k) not in retapped:
                retapped.add((et, k))
                for key in TAP_KEYS:
                    e.pop(key, None)
                e.update(draw(_tap(et)))
                if et == "trafo3w":
                    e["tap_at_star_point"] = draw(st.integers(0, 3)) == 0
                if draw(st.integers(0, 5)):
                    e.pop("in_service", None)
            sides = ["lv", "lv", "lv", "lv", "hv"] if et == "trafo" else ["mv", "lv", "mv", "lv", "mv", "lv", "hv"]
            c.update(et=et, k=k, side=draw(st.sampled_from(sides)))
            lv, order = draw(_level_order(None if split else tap_level))
            step = e["tap_step_percent"] / 100.0
            if kind == "discrete":
                c["tol"] = draw(st.sampled_from([1e-3, 1e-3, 1e-4, 5e-3]))
                if draw(st.integers(0, 3)) == 0:
                    c["vm_set_pu"] = draw(netgen.q(0.96, 1.06, nd=3))
                else:
                    width = round(step * draw(st.sampled_from([0.3, 0.6, 0.9, 1.1, 1.5, 2.0, 3.0])), 6)
                    lo = draw(netgen.q(0.96, 1.04, nd=3))
                    c.update(vm_lower_pu=lo, vm_upper_pu=round(lo + width, 6))
            else:
                c.update(vm_set_pu=draw(netgen.q(0.96, 1.05, nd=3)), tol=draw(st.sampled_from([1e-3, 1e-3, 1e-4, 1e-5, 1e-2])))
        elif kind == "const":
            c.update(element=draw(st.sampled_from(["load", "sgen", "gen", "ext_grid"])), sel=draw(st.integers(0, 20)),
                     multi=draw(st.integers(0, 3)) == 0)
            lv, order = draw(_level_order(None))
        else:
            tabs = [t for t in ("sgen", "sgen", "load") if char_free[t]] or ["sgen", "load"]
            tab = draw(st.sampled_from(tabs))
            sel = char_free[tab].pop(draw(st.integers(0, len(char_free[tab]) - 1))) if char_free[tab] else draw(st.integers(0, 20))
            c.update(element=tab, sel=sel,
                     stabilising=draw(st.integers(0, 4)) != 0, qmax=draw(netgen.q(0.05, 0.5, nd=2)),
                     dead=draw(st.sampled_from([0.0, 0.02, 0.05])), slope=draw(st.sampled_from([0.02, 0.04, 0.08])),
                     tol_rel=draw(st.sampled_from([0.001, 0.01, 0.05])))
            lv, order = draw(_level_order(None))
        c.update(level=lv, order=order)
        ctrls.append(c)
    calls = []
    for j in range(1 if draw(st.integers(0, 3)) else 2):
        calls.append({"how": draw(st.sampled_from(["run_control", "runpp", "run_control"] if j == 0 else ["runpp", "run_control"])),
                      "max_iter": draw(st.sampled_from([30, 30, 50, 10, 30, 3, 1])),
                      "load_scale": draw(st.sampled_from([0.4, 0.7, 1.5, 2.0])) if j else None})
    # numba only in the thorough tier: its compilation costs every worker process 15-60 s, the controller loop does not depend on it
    opt = {"calculate_voltage_angles": draw(st.sampled_from([True, True, False])),
           "numba": False if tier == "quick" else draw(st.sampled_from([False, True, True]))}
    netgen.normalize(recipe)      # switches were closed after netgen's own normalisation: one setpoint per electrical node
    return {"recipe": recipe, "ctrl": ctrls, "calls": calls, "opt": opt}


def strategy(tier):
    return _case(tier)


# ---------------------------------------------------------------------------------------------------------
# recording proxy

class Recorder:
    def __init__(self):
        self.events = []        # ("reset", idx) | ("conv", idx, bool) | ("step", idx)
        self.range_viol = []    # (idx, tap_pos, tap_min, tap_max)
        self.writes = []        # (event position, idx, before, after): an is_converged call that changed its watched output cells


class RecordingProxy:
    """stands in net.controller.object for the real controller; forwards everything, logs the three loop calls"""

    def __init__(self, inner, rec, watch=None):
        object.__setattr__(self, "_inner", inner)
        object.__setattr__(self, "_rec", rec)
        object.__setattr__(self, "_watch", watch)     # (table, index) of a tap-controlled transformer or (table, idx list, column)

    def __getattr__(self, name):
        return getattr(object.__getattribute__(self, "_inner"), name)

    def __setattr__(self, name, value):
        setattr(self._inner, name, value)

    def __delattr__(self, name):
        delattr(self._inner, name)

    def level_reset(self, net):
        self._rec.events.append(("reset", int(self._inner.index)))
        return self._inner.level_reset(net)

    def is_converged(self, net):
        w = self._watch
        before = None
        if w is not None and len(w) == 3:
            before = [float(net[w[0]].at[i, w[2]]) for i in w[1]]
        r = bool(self._inner.is_converged(net))
        if before is not None:
            after = [float(net[w[0]].at[i, w[2]]) for i in w[1]]
            if after != before:
                self._rec.writes.append((len(self._rec.events), int(self._inner.index), before, after))
        self._rec.events.append(("conv", int(self._inner.index), r))
        return r

    def control_step(self, net):
        self._rec.events.append(("step", int(self._inner.index)))
        out = self._inner.control_step(net)
        w = self._watch
        if w is not None and len(w) == 2:
            t = net[w[0]]
            tp, lo, hi = float(t.at[w[1], "tap_pos"]), float(t.at[w[1], "tap_min"]), float(t.at[w[1], "tap_max"])
            if not (lo <= tp <= hi):
                self._rec.range_viol.append((int(self._inner.index), tp, lo, hi))
        return out


# ---------------------------------------------------------------------------------------------------------
# building the controllers

def _levels_of(level):
    return list(level) if isinstance(level, (list, tuple)) else [level]


def attach(net, maps, specs):
    """creates the controllers of the case; returns list of dicts (spec + resolved facts), index = controller index"""
    import pandapower.control as ct
    out = []
    for c in specs:
        kind = c["kind"]
        common = dict(in_service=c["in_service"], level=c["level"], order=c["order"])
        info = dict(c)
        if kind in ("discrete", "continuous"):
            et, side = c["et"], c["side"]
            if not maps.get(et):                   # hand-edited / reduced case: fall back to the transformer kind that exists
                et = "trafo" if et == "trafo3w" else "trafo3w"
                side = "lv" if (et == "trafo" and side == "mv") else side
            tid = maps[et][c["k"] % len(maps[et])]
            info.update(tid=tid, et=et, side=side)
            c = dict(c, et=et, side=side)
            if kind == "discrete":
                if "vm_lower_pu" in c:
                    obj = ct.DiscreteTapControl(net, tid, c["vm_lower_pu"], c["vm_upper_pu"], side=c["side"], element=c["et"],
                                                tol=c["tol"], **common)
                else:
                    obj = ct.DiscreteTapControl.from_tap_step_percent(net, tid, c["vm_set_pu"], side=c["side"], element=c["et"],
                                                                      tol=c["tol"], **common)
            else:
                obj = ct.ContinuousTapControl(net, tid, c["vm_set_pu"], tol=c["tol"], side=c["side"], element=c["et"], **common)
        elif kind == "const":
            tab = c["element"] if len(net[c["element"]]) else ("ext_grid" if len(net.ext_grid) else "gen")
            var = {"load": "p_mw", "sgen": "p_mw", "gen": "vm_pu", "ext_grid": "vm_pu"}[tab]
            idx = net[tab].index[c["sel"] % len(net[tab])]
            if c["multi"]:
                idx = [int(i) for i in net[tab].index[:3]]
            else:
                idx = int(idx)
            info.update(table=tab, variable=var)
            obj = ct.ConstControl(net, tab, var, idx, **common)
        else:
            tab = c["element"] if len(net[c["element"]]) else ("sgen" if len(net.sgen) else ("load" if len(net.load) else None))
            if tab is None:      # nothing to steer: degrade to a const control on the first slack element
                stab = "ext_grid" if len(net.ext_grid) else "gen"
                info.update(kind="const", table=stab, variable="vm_pu")
                obj = ct.ConstControl(net, stab, "vm_pu", int(net[stab].index[0]), **common)
            else:
                idx = int(net[tab].index[c["sel"] % len(net[tab])])
                bus = int(net[tab].at[idx, "bus"])
                s = netgen.LEVELS[float(net.bus.at[bus, "vn_kv"])]["s"]
                qm = round(s * c["qmax"], 8)
                sign = 1.0 if (tab == "sgen") == c["stabilising"] else -1.0    # sgen: low voltage -> inject q ; load: consume less
                d, sl = c["dead"], c["slope"]
                xs = [1.0 - d - sl, 1.0 - d, 1.0 + d, 1.0 + d + sl] if d else [1.0 - sl, 1.0, 1.0 + sl]
                ys = [sign * qm, 0.0, 0.0, -sign * qm] if d else [sign * qm, 0.0, -sign * qm]
                ch = ct.Characteristic(net, xs, ys)
                tol = round(qm * c["tol_rel"], 10)
                info.update(table=tab, eidx=idx, bus=bus, tol=tol)
                obj = ct.CharacteristicControl(net, tab, "q_mvar", idx, "res_bus", "vm_pu", bus, ch.index, tol=tol, **common)
        info["index"] = int(obj.index)
        info["obj"] = obj
        out.append(info)
    return out


# ---------------------------------------------------------------------------------------------------------
# oracle pieces

def needed_direction(net, info):
    """+1: a higher tap position raises the controlled voltage, -1: lowers it.
    Own derivation: the winding with the tap changer gets (1 + (pos - neutral) * step * cos(phi)) turns to first order and
    terminal voltages are proportional to turns. Tap changer in the controlled winding: more turns = more voltage there. Tap
    changer in another winding: more turns there = fewer volts per turn when that winding feeds the transformer (and no
    first-order effect when it does not), i.e. never a rise of the controlled voltage."""
    t = net[info["et"]]
    tid = info["tid"]
    tap_side = t.at[tid, "tap_side"]
    step = float(t.at[tid, "tap_step_percent"])
    deg = t.at[tid, "tap_step_degree"] if "tap_step_degree" in t.columns else float("nan")
    deg = 0.0 if deg is None or (isinstance(deg, float) and math.isnan(deg)) else float(deg)
    s = math.cos(math.radians(deg))
    turns = (1 if step > 0 else -1) * (1 if s > 1e-9 else (-1 if s < -1e-9 else 0))
    return turns if tap_side == info["side"] else -turns


def discrete_band(net, info):
    if "vm_lower_pu" in info:
        return info["vm_lower_pu"], info["vm_upper_pu"]
    step = float(net[info["et"]].at[info["tid"], "tap_step_percent"])
    delta = step / 100.0 * 0.5 + info["tol"]
    return info["vm_set_pu"] - delta, info["vm_set_pu"] + delta


def exempt(net, info):
    t = net[info["et"]]
    tid = info["tid"]
    if not bool(t.at[tid, "in_service"]):
        return "trafo-oos"
    bus = t.at[tid, info["side"] + "_bus"]
    if len(net.ext_grid) and bus in set(net.ext_grid.bus[net.ext_grid.in_service].values):
        return "ext-grid-bus"
    if bus not in net.res_bus.index or math.isnan(float(net.res_bus.at[bus, "vm_pu"])):
        return "no-voltage"
    return None


def parse_blocks(events):
    """splits the log into level blocks: [{"members": [idx...] (reset order), "sweeps": [[(idx, converged, stepped)...]...]}]"""
    blocks = []
    cur = None
    last = None
    problems = []
    for pos, ev in enumerate(events):
        if ev[0] == "reset":
            if last != "reset":
                cur = {"members": [], "calls": [], "pos": []}
                blocks.append(cur)
            cur["members"].append(ev[1])
        elif cur is None:
            problems.append("call-before-level-reset")
            cur = {"members": [], "calls": [], "pos": []}
            blocks.append(cur)
            cur["calls"].append(ev)
            cur["pos"].append(pos)
        else:
            cur["calls"].append(ev)
            cur["pos"].append(pos)
        last = ev[0]
    return blocks, problems


def last_power_flow_pos(blocks):
    """event position after which the last power flow of the loop ran: the loop runs one after every sweep (= one
    is_converged per member of the level) that contained a control_step; -1 = only the initial power flow"""
    last = -1
    for b in blocks:
        n = len(b["members"])
        asked = 0
        stepped = False
        for pos, ev in zip(b["pos"], b["calls"]):
            if ev[0] == "conv":
                if asked == n:          # new sweep
                    asked, stepped = 0, False
                asked += 1
            elif ev[0] == "step":
                stepped = True
            if asked == n and stepped:
                last = max(last, pos)
    return last


def check_order(blocks, infos, partial=False):
    """clause (5): returns list of (signature suffix, detail); partial = the loop was left by an exception, so only a
    prefix of the level blocks exists"""
    bad = []
    by_idx = {i["index"]: i for i in infos}
    levels = sorted({l for i in infos for l in _levels_of(i["level"])})
    expected = []
    for l in levels:
        mem = [i["index"] for i in infos if i["in_service"] and l in _levels_of(i["level"])]
        if mem:
            expected.append((l, mem))
    if partial and len(blocks) <= len(expected):
        expected = expected[:len(blocks)]
    if len(blocks) != len(expected) or any(sorted(b["members"]) != sorted(m) for b, (l, m) in zip(blocks, expected)):
        bad.append(("level-sequence", {"expected": expected, "observed": [b["members"] for b in blocks]}))
        return bad
    for b, (l, mem) in zip(blocks, expected):
        okey = [by_idx[i]["order"] for i in b["members"]]
        if any(x > y for x, y in zip(okey, okey[1:])):
            bad.append(("within-level", {"level": l, "members": b["members"], "orders": okey}))
        # sweeps: every sweep asks every member once, in the same (non-decreasing order) sequence
        calls = b["calls"]
        pos = 0
        n = len(mem)
        while pos < len(calls):
            asked = []
            while pos < len(calls) and len(asked) < n:
                ev = calls[pos]
                if ev[0] != "conv":
                    bad.append(("protocol", {"level": l, "what": "control_step without a preceding is_converged", "event": list(ev)}))
                    return bad
                asked.append(ev[1])
                pos += 1
                if pos < len(calls) and calls[pos][0] == "step":
                    if calls[pos][1] != ev[1] or ev[2]:
                        bad.append(("protocol", {"level": l, "what": "control_step of a converged / other controller", "event": list(calls[pos])}))
                        return bad
                    pos += 1
                elif not ev[2]:
                    bad.append(("protocol", {"level": l, "what": "not converged but no control_step", "event": list(ev)}))
                    return bad
            if sorted(asked) != sorted(mem):
                bad.append(("protocol", {"level": l, "what": "sweep does not ask every controller of the level once", "asked": asked}))
                return bad
            ok = [by_idx[i]["order"] for i in asked]
            if any(x > y for x, y in zip(ok, ok[1:])):
                bad.append(("within-level", {"level": l, "asked": asked, "orders": ok}))
                return bad
    return bad


def disturbed_by_later_level(blocks, idx):
    """True iff the controller's last is_converged inside its last own level block was True and a later block contains a
    control_step (i.e. a later level changed the net after this controller's level had been left as converged)"""
    last_b = None
    for k, b in enumerate(blocks):
        if idx in b["members"]:
            last_b = k
    if last_b is None:
        return False
    conv = [ev for ev in blocks[last_b]["calls"] if ev[0] == "conv" and ev[1] == idx]
    if not conv or not conv[-1][2]:
        return False
    return any(ev[0] == "step" for b in blocks[last_b + 1:] for ev in b["calls"])


# ---------------------------------------------------------------------------------------------------------

def check(case):
    import pandapower as pp
    import pandapower.control as ct
    res = Result()
    recipe, opt = case["recipe"], case["opt"]
    sn = recipe.get("sn_mva", 1.0)
    net, maps = netgen.build(recipe)
    with silence():
        infos = attach(net, maps, case["ctrl"])
    pfkw = dict(opt, tolerance_mva=pf_tol(sn), max_iteration=30)
    tapinfos = [i for i in infos if i["kind"] in ("discrete", "continuous")]
    for i in infos:
        res.label("ctrl:" + i["kind"])
    res.label("n-ctrl:%d" % len(infos))
    if any(not i["in_service"] for i in infos):
        res.label("ctrl-out-of-service")
    tl = {tuple(_levels_of(i["level"])) for i in tapinfos if i["in_service"]}
    if len(tl) > 1:
        res.label("tap-ctrl-on-different-levels")
    if any(isinstance(i["level"], list) for i in infos):
        res.label("multi-level-controller")
    for i in tapinfos:
        w = "3w" if i["et"] == "trafo3w" else "2w"
        res.label("%s:%s" % (i["kind"], w), "%s:tap-%s/ctrl-%s" % (w, net[i["et"]].at[i["tid"], "tap_side"], i["side"]))
        deg = net[i["et"]].at[i["tid"], "tap_step_degree"]
        if deg == deg and deg is not None and math.cos(math.radians(float(deg))) < 0:
            res.label("tap-sign-negative")
        if i["kind"] == "discrete":
            lo, hi = discrete_band(net, i)
            res.label("band-narrower-than-step" if hi - lo < float(net[i["et"]].at[i["tid"], "tap_step_percent"]) / 100.0 else "band-wider-than-step")
    if len({(i["et"], i["tid"]) for i in tapinfos}) < len(tapinfos):
        res.label("two-ctrl-one-trafo")

    nontrivial = False
    for cno, call in enumerate(case["calls"]):
        if call.get("load_scale") is not None and len(net.load):
            net.load["scaling"] = net.load["scaling"] * call["load_scale"]
        rec = Recorder()
        # proxies in, real objects out again afterwards
        for i in infos:
            watch = None
            if i["kind"] in ("discrete", "continuous"):
                watch = (i["et"], i["tid"])
            elif i["kind"] == "char":
                watch = (i["table"], [i["eidx"]], "q_mvar")
            net.controller.at[i["index"], "object"] = RecordingProxy(i["obj"], rec, watch)
        tap0 = {(i["et"], i["tid"]): float(net[i["et"]].at[i["tid"], "tap_pos"]) for i in tapinfos}
        raised = None
        crash = None
        try:
            with silence():
                if call["how"] == "run_control":
                    ct.run_control(net, max_iter=call["max_iter"], **pfkw)
                else:
                    pp.runpp(net, run_control=True, max_iter=call["max_iter"], **pfkw)
        except Exception as e:   # classified below
            if type(e).__name__ in NOT_CONVERGED:
                raised = type(e).__name__
            elif isinstance(e, (UserWarning, NotImplementedError)):
                raised = "rejected:" + exc_sig(e)
            else:
                crash = e
        finally:
            for i in infos:
                net.controller.at[i["index"], "object"] = i["obj"]
        tag = "call%d:%s" % (cno, call["how"])
        res.label(tag)
        if crash is not None:
            res.fail("crash/" + exc_sig(crash), error=repr(crash)[:300], call=call)
            return res
        res.label("outcome:" + (raised.split(":")[0] if raised else "returned"))

        n_steps = sum(1 for ev in rec.events if ev[0] == "step")
        # (3) taps stay in range - after every control_step, and at the end (also after a raise)
        for idx, tp, lo, hi in rec.range_viol:
            kind = next(i["kind"] for i in infos if i["index"] == idx)
            res.fail("tap-out-of-range/%s/during-loop" % kind, controller=idx, tap_pos=tp, tap_min=lo, tap_max=hi, call=call)
        for i in tapinfos:
            t = net[i["et"]]
            tp, lo, hi = float(t.at[i["tid"], "tap_pos"]), float(t.at[i["tid"], "tap_min"]), float(t.at[i["tid"], "tap_max"])
            if not (lo <= tp <= hi):
                res.fail("tap-out-of-range/%s/%s" % (i["kind"], "after-raise" if raised else "at-return"), trafo=[i["et"], int(i["tid"])],
                         tap_pos=tp, tap_min=lo, tap_max=hi, call=call)

        # (5) order of the calls
        blocks, problems = parse_blocks(rec.events)
        for p in problems:
            res.fail("order/" + p, call=call)
        for what, detail in check_order(blocks, infos, partial=bool(raised)):
            res.fail("order/" + what, call=call, **detail)
        if len(blocks) > 1:
            res.label("levels-run:>=2")
        if raised:
            if raised.startswith("rejected"):
                res.skipped = raised
                return res
            if raised == "ControllerNotConverged" and cno < len(case["calls"]) - 1:
                continue     # the net stays usable: the next call follows
            if not nontrivial:
                res.skipped = "not-converged"
            break

        # ---- returned normally
        if not (net["converged"] or net.get("OPF_converged", False)):
            res.fail("returned-with-net-not-converged", call=call)
        moved = [k for k, v in tap0.items() if float(net[k[0]].at[k[1], "tap_pos"]) != v]
        if moved:
            res.label("tap-moved")
        # (2) results = fresh power flow of the final tables
        fresh = oracles.strip_results(net)
        ins = net.controller.in_service.values.astype(bool)
        # no in-service controller asked for an initial run and none was stepped: the call returned without any power flow
        no_pf = bool(ins.any()) and n_steps == 0 and not net.controller.initial_run.values[ins].astype(bool).any()
        try:
            with silence():
                pp.runpp(fresh, run_control=False, **pfkw)
            fresh_ok = True
        except Exception as e:
            fresh_ok = False
            res.fail("stale-results/fresh-run-fails" + ("/call-ran-no-power-flow" if no_pf else ""), error=repr(e)[:200], call=call)
        if fresh_ok:
            atol = 1e-6 * max(1.0, sn / 100.0)
            diffs = oracles.compare_results(net, fresh, atol=atol, rtol=1e-7)
            if diffs:
                # root cause from the log: did an is_converged call change element data after the last power flow of the loop,
                # and does undoing exactly these writes explain the whole difference?
                lpf = last_power_flow_pos(blocks)
                late = [w for w in rec.writes if w[0] > lpf]
                cause = "other"
                if no_pf:
                    cause = "call-ran-no-power-flow/all-controllers-initial_run-false-and-converged"
                elif late:
                    undo = oracles.strip_results(net)
                    by_idx = {i["index"]: i for i in infos}
                    for pos, idx, before, after in reversed(late):
                        undo[by_idx[idx]["table"]].at[by_idx[idx]["eidx"], "q_mvar"] = before[0]
                    try:
                        with silence():
                            pp.runpp(undo, run_control=False, **pfkw)
                        if not oracles.compare_results(net, undo, atol=atol, rtol=1e-7):
                            cause = "characteristic-control-writes-in-is_converged-after-last-power-flow"
                    except Exception:
                        pass
                res.fail("stale-results/" + cause, diffs=diffs[:6], n_diffs=len(diffs),
                         late_writes=[[w[1], w[2][0], w[3][0]] for w in late][:5], call=call)

        # (1) every in-service controller reports convergence (on a copy: is_converged may write to the net)
        disturbed = set()
        shared = None
        for i in infos:
            if not i["in_service"]:
                continue
            if i["kind"] == "char" or shared is None:     # CharacteristicControl.is_converged writes to the net: own copy
                probe = copy.deepcopy(net)
                if i["kind"] != "char":
                    shared = probe
            else:
                probe = shared
            with silence():
                ok = bool(probe.controller.object.at[i["index"]].is_converged(probe))
            if not ok:
                if disturbed_by_later_level(blocks, i["index"]):
                    disturbed.add(i["index"])
                    res.fail(F16_SIG, controller=int(i["index"]), kind=i["kind"], level=i["level"],
                             blocks=[b["members"] for b in blocks], call=call)
                else:
                    res.fail("not-converged-at-return/%s/own-level-is-last-or-left-unconverged" % i["kind"], controller=int(i["index"]),
                             level=i["level"], blocks=[b["members"] for b in blocks], call=call)

        # (4) own final-state rule per tap controller
        for i in tapinfos:
            if not i["in_service"]:
                continue
            ex = exempt(net, i)
            if ex:
                res.label("exempt:" + ex)
                continue
            t = net[i["et"]]
            tid = i["tid"]
            bus = t.at[tid, i["side"] + "_bus"]
            vm = float(net.res_bus.at[bus, "vm_pu"])
            tp, lo_t, hi_t = float(t.at[tid, "tap_pos"]), float(t.at[tid, "tap_min"]), float(t.at[tid, "tap_max"])
            d = needed_direction(net, i)
            sig = None
            if i["kind"] == "discrete":
                lo, hi = discrete_band(net, i)
                if lo <= vm <= hi:
                    res.label("final:in-band")
                else:
                    need_up = vm < lo       # voltage must rise
                    want = hi_t if (need_up == (d > 0)) else lo_t
                    if d != 0 and tp == want:
                        res.label("final:at-limit")
                    else:
                        sig = "final-state/discrete/outside-band-and-not-at-the-needed-limit"
                        if i["et"] == "trafo3w" and tp in (lo_t, hi_t) and t.at[tid, "tap_side"] != i["side"] \
                                and "hv" not in (t.at[tid, "tap_side"], i["side"]):
                            sig = "final-state/discrete/at-the-opposite-limit/3w-tap-changer-and-controlled-side-on-different-non-hv-windings"
                        detail = dict(vm=vm, band=[lo, hi], tap_pos=tp, tap_min=lo_t, tap_max=hi_t, direction=d)
            else:
                if abs(vm - i["vm_set_pu"]) <= i["tol"] * max(vm, i["vm_set_pu"]) + 1e-12:
                    res.label("final:at-setpoint")
                elif tp in (lo_t, hi_t):
                    res.label("final:at-limit")
                else:
                    sig = "final-state/continuous/off-setpoint-and-not-at-a-limit"
                    detail = dict(vm=vm, vm_set=i["vm_set_pu"], tol=i["tol"], tap_pos=tp, tap_min=lo_t, tap_max=hi_t)
            if sig:
                if i["index"] in disturbed:
                    continue      # same root cause, already reported under the F16 signature
                res.fail(sig, controller=int(i["index"]), trafo=[i["et"], int(tid)], tap_side=t.at[tid, "tap_side"], side=i["side"], call=call, **detail)
        n_in = sum(1 for i in infos if i["in_service"])
        if n_in >= 2 and moved:
            nontrivial = True
        if n_steps == 0:
            res.label("no-control-step")
    res.nontrivial = nontrivial
    return res
