"""C14 - Contingency analysis reports the true extremes over all N-1 cases (DESIGN.md sec. 2, C14)."""
import copy
import math

import numpy as np

from pbt import c14_conting as cg
from pbt.core import Result, silence, exc_sig, pf_outcome

ID = "C14"
LEVEL = "exploration"
EXAMPLES = {"quick": 640, "thorough": 12000}
DEADLINE_S = {"quick": 600, "thorough": 3000}
# Hypothesis needs minutes to shrink a network recipe + case list (each attempt re-draws the grid); the quick tier
# reports the smallest failing case found instead (hand-reduced witnesses are in replays/)
NO_SHRINK = {"quick": True, "thorough": False}
RULE = ("Hypothesis draws a meshed network recipe (netgen.grid with 1-4 extra branches per level, 1-3 voltage levels, "
        "second slack in half of the cases, out-of-service parts, open switches, a slack-less island), per-branch "
        "max_loading_percent (or max_loading_percent_nminus1) values incl. NaN, optional custom/descending index labels "
        "of the branch tables, a load stress factor, the N-1 case dict as an ORDERED subset of lines/trafos/trafo3w "
        "(element type order and index order drawn), and the options (runpp or rundcpp as evaluation function; options "
        "as kwargs, pf_options dicts or user_pf_options; write_to_net). Oracle = own brute force: per listed in-service "
        "element a deep copy with that element out of service and a plain power flow; a case that raises is left out. "
        "Checked: N-0 values = plain power flow; max/min per bus and branch = extremes over the converged cases without "
        "the element's own outage; cause_element/cause_index of every branch with a finite maximum names another "
        "converged case whose loading of that branch equals the reported maximum; causes_overloading <=> the case "
        "overloads some branch (strictly above its limit); res_* columns equal the returned dict (absent with "
        "write_to_net=False); every in_service flag as before. "
        "Non-trivial = N-0 converged, >= 3 converged N-1 cases and >= 1 element that is both an executed case and "
        "monitored with a finite maximum; distinct by case hash.")
ASSUMPTIONS = ["vm tolerance 1e-8 p.u., loading tolerance 1e-6 relative + 1e-7 absolute; loadings within that tolerance of "
               "the limit make causes_overloading undecidable (not checked)",
               "min/max of elements that are out of service in the input are not constrained (no result to aggregate)",
               "any exception inside an N-1 case counts as 'not converged' (run_contingency swallows all exceptions)",
               "no converged N-1 case => max_*/min_* keys absent by construction (trivial, not a violation)",
               "temperature (tdpf) extremes and the undocumented raise_errors switch are not generated"]
TECHNIQUE = "property-based testing: generated meshed networks and ordered N-1 case lists + brute-force reference model"


def strategy(tier):
    return cg.contingency_case()


def check(case):
    from pandapower.contingency import run_contingency
    res = Result()
    net, maps, nm1, flat = cg.prepare(case)
    opt = case["opt"]
    res.label("fn:" + opt["fn"], "style:" + opt["style"], "write_to_net:%s" % opt["write_to_net"])
    if case.get("nm1_col"):
        res.label("limit-column:nminus1")
    if case.get("relabel"):
        res.label("custom-branch-index")
    net0 = copy.deepcopy(net)
    flags0 = cg.in_service_flags(net0)

    # ---- reference: plain N-0 power flow and own N-1 loop
    ref = copy.deepcopy(net0)
    n0_error = None
    try:
        cg.plain_pf(ref, case)
        n0 = cg.observed(ref)
    except Exception as e:
        kind, what = pf_outcome(e)
        n0_error = (kind, what)
        n0 = None
    bf = cg.brute_force(net0, flat, case)
    exp, over = cg.expected(net0, bf)
    bf_ok = [r for r in bf if r["status"] == "ok"]
    for l in cg.shape_labels(net0, flat, bf, over, n0):
        res.label(l)
    crashed = sorted({r["sig"] for r in bf if r["status"] == "failed" and r["error"] not in
                      ("LoadflowNotConverged", "UserWarning", "NotImplementedError")})
    if crashed:
        res.label("case-crash")

    # ---- code under test
    try:
        with silence():
            rc = run_contingency(net, nm1, **cg.call_kwargs(case))
    except Exception as e:
        # the N-0 power flow is not guarded by run_contingency: its failure propagates (legal), flags must be restored
        if cg.in_service_flags(net) != flags0:
            res.fail("in_service/not-restored-after-exception", error=repr(e)[:200])
        if n0_error is not None:
            res.skipped = "n0-" + n0_error[1]
        else:
            kind, what = pf_outcome(e)
            if kind == "skip" and what == "not-converged":
                res.fail("n0/raised-but-plain-pf-converges", error=repr(e)[:300])
            else:
                res.fail("crash/" + exc_sig(e), error=repr(e)[:300])
        return res
    if n0_error is not None:
        res.fail("n0/no-error-but-plain-pf-fails", plain_pf=n0_error[1])
        return res

    # ---- 6. in_service flags restored
    flags1 = cg.in_service_flags(net)
    if flags1 != flags0:
        bad = [k for k in flags0 if flags0[k] != flags1.get(k)]
        res.fail("in_service/not-restored", tables=bad)

    tables = [t for t in ("bus",) + cg.BRANCH if len(net0[t])]
    if sorted(rc.keys()) != sorted(tables):
        res.fail("keys/tables", got=sorted(rc.keys()), expected=sorted(tables))
        return res
    monitored_case = 0
    for t in tables:
        index = list(net0[t].index)
        var = "vm_pu" if t == "bus" else "loading_percent"
        rel, ab = cg.tol_of(t)
        if list(rc[t]["index"]) != index:
            res.fail("keys/index/" + t, got=list(rc[t]["index"]), expected=index)
            continue
        # ---- 1. N-0 values = plain power flow
        if var not in rc[t]:
            res.fail("n0/missing/" + var)
        else:
            okm = cg.close_arr(rc[t][var], n0[t], rel, ab)
            if not okm.all():
                k = int(np.argmin(okm))
                res.fail("n0/value/" + ("bus" if t == "bus" else "branch"), table=t, index=index[k],
                         reported=float(rc[t][var][k]), plain_pf=float(n0[t][k]))
        # ---- 2. extremes
        ins = net0[t].in_service.values.astype(bool)
        for mm in ("max", "min"):
            key = "%s_%s" % (mm, var)
            if key not in rc[t]:
                if bf_ok:
                    res.fail("extremes/missing-key", key=key, table=t, converged_cases=len(bf_ok))
                continue
            got = np.asarray(rc[t][key], dtype=float)
            okm = cg.close_arr(got, exp[t][mm], rel, ab) | ~ins
            if not okm.all():
                k = int(np.argmin(okm))
                own = (t, index[k]) in [r["case"] for r in bf_ok]
                with_own = np.nan
                if own:   # what the extreme would be if the element's own outage were counted
                    allv = [r["vals"][t][k] for r in bf_ok]
                    with_own = (np.nanmax if mm == "max" else np.nanmin)(allv) if not np.all(np.isnan(allv)) else np.nan
                if own and cg.close_arr([got[k]], [with_own], rel, ab)[0]:
                    why = "own-outage-counted"
                elif math.isnan(got[k]):
                    why = "missing"
                else:
                    why = "value"
                res.fail("extremes/%s/%s/%s" % (key, "bus" if t == "bus" else "branch", why), table=t, index=index[k],
                         reported=float(got[k]), expected=float(exp[t][mm][k]),
                         per_case=[[list(r["case"]), float(r["vals"][t][k])] for r in bf_ok])
        if t == "bus":
            continue
        # ---- 3. cause attribution
        cg.check_cause(res, rc, t, index, bf_ok)
        if "max_loading_percent" in rc[t]:
            for pos, idx in enumerate(index):
                if (t, idx) in [r["case"] for r in bf_ok] and not math.isnan(rc[t]["max_loading_percent"][pos]):
                    monitored_case += 1
        # ---- 4. causes_overloading
        co = rc[t].get("causes_overloading")
        if co is None:
            res.fail("causes_overloading/missing", table=t)
        else:
            for pos, idx in enumerate(index):
                want = over.get((t, idx), False)
                if want is None:
                    continue
                if bool(co[pos]) != want:
                    res.fail("causes_overloading/%s" % ("false-positive" if co[pos] else "false-negative"),
                             case=[t, idx], reported=bool(co[pos]), listed=(t, idx) in flat)
    # ---- 5. result tables
    for t in tables:
        cg.check_written(res, net, rc, t, list(net0[t].index), opt["write_to_net"])
    # the standard result columns after the analysis are those of the N-0 power flow
    for t in tables:
        var = "vm_pu" if t == "bus" else "loading_percent"
        rel, ab = cg.tol_of(t)
        if not cg.close_arr(net["res_" + t][var].values.astype(float), n0[t], rel, ab).all():
            res.fail("n0/res-table/" + ("bus" if t == "bus" else "branch"), table=t)

    if flat and not bf_ok:
        res.skipped = "no-case-converged"
    res.nontrivial = len(bf_ok) >= 3 and monitored_case >= 1
    if monitored_case:
        res.label("case-element-monitored")
    return res
