"""C22 helper: (1) `enrich` adds to a netgen network everything that can hold a reference (switches of all four
kinds, measurements, costs, groups, controllers, characteristic / tap tables, FACTS elements, result tables);
(2) `apply_op` interprets one JSON operation of a history against the current net. Selectors are integers that are
resolved against the *current* tables (`k % len(table)`), so every history stays applicable while it is shrunk."""
import numpy as np
import pandas as pd

BUS_ELEMS = ["load", "sgen", "gen", "ext_grid", "storage", "shunt", "ward", "xward", "motor",
             "asymmetric_load", "asymmetric_sgen"]
BRANCHES = ["line", "trafo", "trafo3w", "impedance", "dcline"]
FACTS = ["svc", "ssc", "tcsc"]
COST_ETS = ["gen", "sgen", "ext_grid", "load", "storage", "dcline"]
MEAS_ETS = ["bus", "line", "trafo", "trafo3w", "load", "sgen", "gen", "ext_grid", "shunt", "ward", "xward"]
BRANCH_BUSCOLS = {"line": ("from_bus", "to_bus"), "trafo": ("hv_bus", "lv_bus"),
                  "trafo3w": ("hv_bus", "mv_bus", "lv_bus"), "impedance": ("from_bus", "to_bus"),
                  "dcline": ("from_bus", "to_bus"), "tcsc": ("from_bus", "to_bus")}
SW_TABLE = {"l": "line", "t": "trafo", "t3": "trafo3w", "b": "bus"}
SIDE_NAMES = {"line": ("from", "to"), "trafo": ("hv", "lv"), "trafo3w": ("hv", "mv", "lv")}
REINDEXABLE = BUS_ELEMS + BRANCHES + FACTS + ["switch", "measurement", "poly_cost", "pwl_cost", "bus", "group"]
DROPPABLE = BUS_ELEMS + BRANCHES + FACTS + ["switch", "measurement", "bus"]


# operation -> operation family used in failure signatures (one family per group of functions that share their
# clean-up code)
FAMILY = {
    "drop_measurements_at_elements": "drop_references", "drop_controllers_at_elements": "drop_references",
    "drop_controllers_at_buses": "drop_references",
    "drop_buses": "drop_buses", "drop_elements_at_buses": "drop_elements_at_buses",
    "drop_switches_at_buses": "drop_buses",
    "drop_lines": "drop_branches", "drop_trafos": "drop_branches", "drop_inner_branches": "drop_branches",
    "drop_elements_simple": "drop_elements",
    "drop_out_of_service_elements": "drop_out_of_service", "drop_inactive_elements": "drop_out_of_service",
    "reindex_buses": "reindex_buses", "create_continuous_bus_index": "reindex_buses",
    "reindex_elements": "reindex_elements",
    "replace_line_by_impedance": "replace_branch", "replace_impedance_by_line": "replace_branch",
    "replace_zero_branches_with_switches": "replace_branch", "create_replacement_switch_for_branch": "replace_branch",
    "replace_ext_grid_by_gen": "replace_gen_like", "replace_gen_by_ext_grid": "replace_gen_like",
    "replace_gen_by_sgen": "replace_gen_like", "replace_sgen_by_gen": "replace_gen_like",
    "replace_ward_by_internal_elements": "replace_ward_like", "replace_xward_by_internal_elements": "replace_ward_like",
    "replace_xward_by_ward": "replace_ward_like",
}


def drop_family(et):
    if et == "bus":
        return "drop_buses"
    if et in ("line", "trafo", "trafo3w"):
        return "drop_branches"
    return "drop_elements"


class NoOp(Exception):
    """the operation is not applicable in the current state (empty table, ...): legal no-op"""


def ix(net, t):
    if t in net and isinstance(net[t], pd.DataFrame):
        return [_i(v) for v in net[t].index.tolist()]
    return []


def _i(v):
    return int(v) if isinstance(v, (np.integer,)) else v


def pick(lst, k):
    if not lst:
        raise NoOp("empty")
    return lst[k % len(lst)]


def picks(lst, ks, allow_empty=False):
    if not lst:
        raise NoOp("empty")
    out = []
    for k in ks:
        v = lst[k % len(lst)]
        if v not in out:
            out.append(v)
    if not out and not allow_empty:
        raise NoOp("nothing selected")
    return out


class Ctx:
    """interpreter state besides the net"""
    def __init__(self):
        self.names = 0

    def name(self, t):
        self.names += 1
        return "%s~%d" % (t, self.names)


# ---------------------------------------------------------------------------------------------------------------
# enrichment

def enrich(net, extras, ctx, pp):
    """returns a list of labels describing what the net contains"""
    from pandapower.control import ConstControl, DiscreteTapControl, ContinuousTapControl
    info = []
    # unique names (reference column of groups)
    for t in ["bus"] + BUS_ELEMS + BRANCHES + ["switch"]:
        if len(net[t]):
            net[t]["name"] = [ctx.name(t) for _ in range(len(net[t]))]
    buses = ix(net, "bus")
    for f in extras.get("facts", []):
        b = pick(buses, f["a"])
        b2 = pick(buses, f["b"])
        if f["t"] == "svc":
            pp.create_svc(net, b, x_l_ohm=1.0, x_cvar_ohm=-10.0, set_vm_pu=1.0, thyristor_firing_angle_degree=120.,
                          in_service=f.get("ins", False), name=ctx.name("svc"))
        elif f["t"] == "ssc":
            pp.create_ssc(net, b, r_ohm=0.1, x_ohm=1.0, set_vm_pu=1.0, in_service=f.get("ins", False),
                          name=ctx.name("ssc"))
        elif f["t"] == "tcsc" and b != b2:
            pp.create_tcsc(net, b, b2, x_l_ohm=1.0, x_cvar_ohm=-10.0, set_p_to_mw=0.1, thyristor_firing_angle_degree=140.,
                           in_service=f.get("ins", False), name=ctx.name("tcsc"))
    t3 = extras.get("add_t3")
    if t3 and not len(net.trafo3w):
        try:
            _create_trafo3w(net, t3, ctx, pp)
        except NoOp:
            pass
    for s in extras.get("switches", []):
        try:
            _create_switch(net, s, ctx, pp)
        except NoOp:
            pass
    for m in extras.get("meas", []):
        try:
            _create_meas(net, m, ctx, pp)
        except NoOp:
            pass
    for c in extras.get("costs", []):
        try:
            _create_cost(net, c, pp)
        except (NoOp, UserWarning):
            pass
    _tap_tables(net, extras, pp)
    run = extras.get("run")
    if run:
        info.append(run_pf(net, run, pp))
    for g in extras.get("groups", []):
        try:
            _create_group(net, g, ctx, pp)
        except NoOp:
            pass
    for c in extras.get("ctrl", []):
        try:
            _create_ctrl(net, c, pp)
        except NoOp:
            pass
    return info


def run_pf(net, mode, pp):
    try:
        if mode == "dc":
            pp.rundcpp(net)
            return "results:dc"
        pp.runpp(net, max_iteration=25)
        return "results:ac"
    except Exception:
        try:
            pp.rundcpp(net)
            return "results:dc-fallback"
        except Exception:
            return "results:none"


def _create_trafo3w(net, op, ctx, pp):
    buses = ix(net, "bus")
    sel = sorted({pick(buses, op["a"]), pick(buses, op["b"]), pick(buses, op["c"])},
                 key=lambda x: (-net.bus.vn_kv.at[x], x))
    if len(sel) < 3:
        raise NoOp("need three buses")
    h, m, l = sel
    return pp.create_transformer3w_from_parameters(
        net, h, m, l, vn_hv_kv=float(net.bus.vn_kv.at[h]), vn_mv_kv=float(net.bus.vn_kv.at[m]),
        vn_lv_kv=float(net.bus.vn_kv.at[l]), sn_hv_mva=20., sn_mv_mva=10., sn_lv_mva=10., vk_hv_percent=10.,
        vk_mv_percent=10., vk_lv_percent=10., vkr_hv_percent=0.3, vkr_mv_percent=0.3, vkr_lv_percent=0.3,
        pfe_kw=1.0, i0_percent=0.1, tap_side="hv", tap_neutral=0, tap_min=-2, tap_max=2, tap_pos=0,
        tap_step_percent=1.5, tap_changer_type="Ratio", name=ctx.name("trafo3w"))


def _create_switch(net, s, ctx, pp):
    et = s["et"]
    if et == "b":
        buses = ix(net, "bus")
        a, b = pick(buses, s["k"]), pick(buses, s["side"])
        if a == b:
            raise NoOp("same bus")
        return pp.create_switch(net, a, b, "b", closed=s.get("closed", True), name=ctx.name("switch"))
    tab = SW_TABLE[et]
    e = pick(ix(net, tab), s["k"])
    cols = BRANCH_BUSCOLS[tab]
    bus = net[tab].at[e, cols[s["side"] % len(cols)]]
    return pp.create_switch(net, _i(bus), e, et, closed=s.get("closed", True), name=ctx.name("switch"))


def _create_meas(net, m, ctx, pp):
    et = m["et"]
    e = pick(ix(net, et), m["k"])
    mt = m["mt"]
    side = None
    if et in SIDE_NAMES:
        names = SIDE_NAMES[et]
        p = m.get("side", 0) % len(names)
        side = names[p]
        if m.get("side_as_bus"):
            side = _i(net[et].at[e, BRANCH_BUSCOLS[et][p]])
        if mt == "v":
            mt = "p"
    elif et == "bus":
        if mt == "i":
            mt = "v"
    else:
        if mt in ("v", "i"):
            mt = "p"
    return pp.create_measurement(net, mt, et, 1.0, 0.01, e, side=side, name=ctx.name("measurement"))


def _create_cost(net, c, pp):
    et = c["et"]
    e = pick(ix(net, et), c["k"])
    if c.get("pwl"):
        return pp.create_pwl_cost(net, e, et, [[0, 10, 1.0], [10, 1000, 2.0]])
    return pp.create_poly_cost(net, e, et, cp1_eur_per_mw=1.0 + (c["k"] % 5))


def _create_group(net, g, ctx, pp):
    ets, idxs = [], []
    ref = g.get("ref")
    for mem in g["members"]:
        et = mem["et"]
        if et in ets or not len(net[et]):
            continue
        sel = picks(ix(net, et), mem["ks"])
        if ref:
            if ref not in net[et].columns or net[et][ref].isnull().any():
                continue
            sel = net[et].loc[sel, ref].tolist()
        ets.append(et)
        idxs.append(sel)
    if not ets:
        raise NoOp("no members")
    return pp.create_group(net, ets, idxs, name=ctx.name("group"), reference_columns=ref)


def _create_ctrl(net, c, pp):
    from pandapower.control import ConstControl, DiscreteTapControl, ContinuousTapControl
    if c["kind"] == "const":
        et = c["et"]
        sel = picks(ix(net, et), c["ks"])
        if c.get("single"):
            sel = sel[0]
        return ConstControl(net, element=et, variable=c.get("var", "p_mw"), element_index=sel)
    tab = c.get("table", "trafo")
    if tab == "trafo3w" and not len(net.trafo3w):
        tab = "trafo"
    cand = [i for i in ix(net, tab) if net[tab].at[i, "tap_side"] in ("hv", "mv", "lv")
            and pd.notna(net[tab].at[i, "tap_pos"]) and pd.notna(net[tab].at[i, "tap_min"])]
    e = pick(cand, c["k"])
    side = "lv"
    if c["kind"] == "dtap":
        return DiscreteTapControl(net, element_index=e, vm_lower_pu=0.98, vm_upper_pu=1.03, side=side, element=tab)
    return ContinuousTapControl(net, element_index=e, vm_set_pu=1.0, side=side, element=tab)


def _tap_tables(net, extras, pp):
    rows = []
    next_id = extras.get("char_id0", 0)
    for tab, key in (("trafo", "tap_table"), ("trafo3w", "tap_table3")):
        if key not in extras or not len(net[tab]):
            continue
        if "tap_dependency_table" not in net[tab].columns:
            net[tab]["tap_dependency_table"] = False
        cand = [i for i in ix(net, tab) if pd.notna(net[tab].at[i, "tap_min"]) and pd.notna(net[tab].at[i, "tap_max"])
                and net[tab].at[i, "tap_changer_type"] in ("Ratio", "Symmetrical", "Ideal")]
        if not cand:
            continue
        for e in picks(cand, extras[key]):
            r = net[tab].loc[e]
            cid = next_id
            next_id += 1
            for step in range(int(r.tap_min), int(r.tap_max) + 1):
                d = {"id_characteristic": cid, "step": step, "voltage_ratio": 1.0 + 0.01 * (step - int(r.tap_neutral)),
                     "angle_deg": 0.0}
                if tab == "trafo":
                    d.update(vk_percent=float(r.vk_percent), vkr_percent=float(r.vkr_percent))
                else:
                    for s in ("hv", "mv", "lv"):
                        d["vk_%s_percent" % s] = float(r["vk_%s_percent" % s])
                        d["vkr_%s_percent" % s] = float(r["vkr_%s_percent" % s])
                rows.append(d)
            net[tab].at[e, "tap_dependency_table"] = True
            net[tab]["id_characteristic_table"] = net[tab]["id_characteristic_table"].astype("Int64")
            net[tab].at[e, "id_characteristic_table"] = cid
    if rows:
        cols = ["id_characteristic", "step", "voltage_ratio", "angle_deg", "vk_percent", "vkr_percent",
                "vk_hv_percent", "vkr_hv_percent", "vk_mv_percent", "vkr_mv_percent", "vk_lv_percent", "vkr_lv_percent"]
        net["trafo_characteristic_table"] = pd.DataFrame(rows, columns=cols)
        if extras.get("spline"):
            from pandapower.control.util.auxiliary import create_trafo_characteristic_object
            try:
                create_trafo_characteristic_object(net)
            except Exception:
                pass
    if "shunt_table" in extras and len(net.shunt):
        srows = []
        sid = extras.get("char_id0", 0)
        if "step_dependency_table" not in net.shunt.columns:
            net.shunt["step_dependency_table"] = False
        for e in picks(ix(net, "shunt"), extras["shunt_table"]):
            ms = int(net.shunt.at[e, "max_step"]) if pd.notna(net.shunt.at[e, "max_step"]) else 1
            for step in range(0, max(ms, 1) + 1):
                srows.append({"id_characteristic": sid, "step": step, "q_mvar": float(net.shunt.at[e, "q_mvar"]) * step,
                              "p_mw": float(net.shunt.at[e, "p_mw"]) * step})
            net.shunt.at[e, "step_dependency_table"] = True
            net.shunt["id_characteristic_table"] = net.shunt["id_characteristic_table"].astype("Int64")
            net.shunt.at[e, "id_characteristic_table"] = sid
            sid += 1
        net["shunt_characteristic_table"] = pd.DataFrame(srows)


# ---------------------------------------------------------------------------------------------------------------
# operations

def _new_lookup(old_all, mode, sel, off):
    """old -> new mapping that is a valid re-labelling (no collision with rows that keep their label)"""
    old_all = list(old_all)
    if not old_all:
        raise NoOp("empty")
    if mode == "offset":
        return {o: o + off for o in old_all}
    if mode == "reverse":
        s = sorted(old_all)
        return dict(zip(s, reversed(s)))
    if mode == "swap":
        a, b = pick(old_all, sel[0]), pick(old_all, sel[-1] + 1)
        if a == b:
            raise NoOp("one row")
        return {a: b, b: a}
    # sub: a subset gets fresh labels above the maximum
    chosen = picks(old_all, sel)
    top = max(old_all) + 1 + off
    return {o: top + i for i, o in enumerate(chosen)}


def apply_op(net, op, ctx, pp, aux):
    """executes one operation; returns (net, info) where info = dict(family=..., target=table or None, rows=...,
    edit=bool). Raises NoOp when not applicable. Exceptions of pandapower propagate to the caller."""
    tb = pp.toolbox
    o = op["op"]
    info = {"family": FAMILY.get(o, o), "target": None, "rows": None, "edit": True}
    aux["last_info"] = info

    def tgt(**kw):
        info.update(kw)
        if aux.get("pre"):
            aux["pre"](net, info)

    # ------------------------------------------------------------------ creation
    if o == "create_bus":
        buses = ix(net, "bus")
        vn = float(net.bus.vn_kv.at[pick(buses, op["k"])]) if buses else 20.0
        pp.create_bus(net, vn_kv=vn, name=ctx.name("bus"))
        info["edit"] = False
    elif o == "create_buses":
        buses = ix(net, "bus")
        vn = float(net.bus.vn_kv.at[pick(buses, op["k"])]) if buses else 20.0
        pp.create_buses(net, op["n"], vn_kv=vn, name=[ctx.name("bus") for _ in range(op["n"])])
        info["edit"] = False
    elif o == "create_bus_element":
        et = op["et"]
        b = pick(ix(net, "bus"), op["k"])
        nm = ctx.name(et)
        kw = {"load": dict(p_mw=0.1, q_mvar=0.02), "sgen": dict(p_mw=0.05, q_mvar=0.0), "gen": dict(p_mw=0.05, vm_pu=1.0),
              "ext_grid": dict(vm_pu=1.0), "storage": dict(p_mw=0.01, max_e_mwh=1.0), "shunt": dict(q_mvar=0.01),
              "ward": dict(ps_mw=0.01, qs_mvar=0.0, pz_mw=0.01, qz_mvar=0.0),
              "xward": dict(ps_mw=0.01, qs_mvar=0.0, pz_mw=0.01, qz_mvar=0.0, r_ohm=0.1, x_ohm=1.0, vm_pu=1.0),
              "motor": dict(pn_mech_mw=0.01, cos_phi=0.9)}[et]
        getattr(pp, "create_" + et)(net, b, name=nm, **kw)
        info["edit"] = False
    elif o == "create_loads":
        bs = picks(ix(net, "bus"), op["ks"])
        pp.create_loads(net, bs, p_mw=0.1, q_mvar=0.0, name=[ctx.name("load") for _ in bs])
        info["edit"] = False
    elif o == "create_line":
        buses = ix(net, "bus")
        a, b = pick(buses, op["a"]), pick(buses, op["b"])
        if a == b:
            raise NoOp("same bus")
        pp.create_line_from_parameters(net, a, b, length_km=1.0, r_ohm_per_km=0.2, x_ohm_per_km=0.3, c_nf_per_km=10.0,
                                       max_i_ka=0.3, name=ctx.name("line"), parallel=op.get("parallel", 1))
        info["edit"] = False
    elif o == "create_lines":
        buses = ix(net, "bus")
        fb = picks(buses, op["a"])
        pairs = [(a, pick(buses, k)) for a, k in zip(fb, op["b"])]
        pairs = [(a, b) for a, b in pairs if a != b]
        if not pairs:
            raise NoOp("no pair")
        pp.create_lines_from_parameters(net, [p[0] for p in pairs], [p[1] for p in pairs], length_km=1.0,
                                        r_ohm_per_km=0.2, x_ohm_per_km=0.3, c_nf_per_km=0.0, max_i_ka=0.3,
                                        name=[ctx.name("line") for _ in pairs])
        info["edit"] = False
    elif o == "create_impedance":
        buses = ix(net, "bus")
        a, b = pick(buses, op["a"]), pick(buses, op["b"])
        if a == b:
            raise NoOp("same bus")
        pp.create_impedance(net, a, b, rft_pu=0.01, xft_pu=0.05, sn_mva=10.0, name=ctx.name("impedance"))
        info["edit"] = False
    elif o == "create_trafo":
        buses = ix(net, "bus")
        a, b = pick(buses, op["a"]), pick(buses, op["b"])
        if a == b:
            raise NoOp("same bus")
        if net.bus.vn_kv.at[a] < net.bus.vn_kv.at[b]:
            a, b = b, a
        pp.create_transformer_from_parameters(
            net, a, b, sn_mva=10.0, vn_hv_kv=float(net.bus.vn_kv.at[a]), vn_lv_kv=float(net.bus.vn_kv.at[b]),
            vkr_percent=0.5, vk_percent=8.0, pfe_kw=1.0, i0_percent=0.1, tap_side="hv", tap_neutral=0, tap_min=-2,
            tap_max=2, tap_pos=0, tap_step_percent=1.5, tap_changer_type="Ratio", name=ctx.name("trafo"))
        info["edit"] = False
    elif o == "create_trafo3w":
        _create_trafo3w(net, op, ctx, pp)
        info["edit"] = False
    elif o == "create_switch":
        _create_switch(net, op, ctx, pp)
        info["edit"] = False
    elif o == "create_measurement":
        _create_meas(net, op, ctx, pp)
        info["edit"] = False
    elif o == "create_cost":
        try:
            _create_cost(net, op, pp)
        except UserWarning:
            raise NoOp("cost exists")
        info["edit"] = False
    elif o == "create_group":
        _create_group(net, op, ctx, pp)
        info["edit"] = False
    elif o == "create_ctrl":
        _create_ctrl(net, op, pp)
        info["edit"] = False
    elif o == "runpp":
        info["pf"] = run_pf(net, op.get("mode", "pp"), pp)
        info["edit"] = False

    # ------------------------------------------------------------------ drops
    elif o == "drop_buses":
        sel = picks(ix(net, "bus"), op["ks"])
        tgt(target="bus", rows=sel)
        if op.get("via_drop_elements"):
            tb.drop_elements(net, "bus", sel)
        else:
            tb.drop_buses(net, sel)
    elif o == "drop_lines":
        sel = picks(ix(net, "line"), op["ks"])
        tgt(target="line", rows=sel)
        tb.drop_lines(net, sel)
    elif o == "drop_trafos":
        tab = op.get("table", "trafo")
        sel = picks(ix(net, tab), op["ks"])
        tgt(target=tab, rows=sel)
        tb.drop_trafos(net, sel, table=tab)
    elif o == "drop_elements":
        et = toward(net, op.get("toward"), op["ks"][0]) or fallback(net, op["et"])
        sel = picks(ix(net, et), op["ks"])
        tgt(target=et, rows=sel, family=drop_family(et))
        tb.drop_elements(net, et, sel)
    elif o == "drop_elements_simple":
        et = op["et"]
        sel = picks(ix(net, et), op["ks"])
        tgt(target=et, rows=sel, family="drop_elements")
        tb.drop_elements_simple(net, et, sel)
    elif o == "drop_elements_at_buses":
        sel = picks(ix(net, "bus"), op["ks"])
        tgt(target="bus", rows=sel)
        tb.drop_elements_at_buses(net, sel, bus_elements=op.get("bus_elements", True),
                                  branch_elements=op.get("branch_elements", True),
                                  drop_measurements=op.get("drop_measurements", True))
    elif o == "drop_switches_at_buses":
        sel = picks(ix(net, "bus"), op["ks"])
        tgt(target="bus", rows=sel)
        tb.drop_switches_at_buses(net, sel)
    elif o == "drop_measurements_at_elements":
        et = op["et"]
        sel = None if op.get("all") else picks(ix(net, et), op["ks"])
        tgt(target=et, rows=sel, edit=False)
        tb.drop_measurements_at_elements(net, et, idx=sel)
    elif o == "drop_controllers_at_elements":
        et = op["et"]
        sel = None if op.get("all") else picks(ix(net, et), op["ks"])
        tgt(target=et, rows=sel, edit=False)
        tb.drop_controllers_at_elements(net, et, idx=sel)
    elif o == "drop_controllers_at_buses":
        sel = picks(ix(net, "bus"), op["ks"])
        tgt(target="bus", rows=sel, edit=False)
        tb.drop_controllers_at_buses(net, sel)
    elif o == "drop_inner_branches":
        sel = picks(ix(net, "bus"), op["ks"])
        tgt(target="bus", rows=sel)
        tb.drop_inner_branches(net, sel, branch_elements=op.get("branch_elements"))
    elif o == "drop_out_of_service_elements":
        _set_oos(net, op)
        tgt(target="*")
        tb.drop_out_of_service_elements(net)
    elif o == "drop_inactive_elements":
        _set_oos(net, op)
        tgt(target="*")
        tb.drop_inactive_elements(net, respect_switches=op.get("respect_switches", True))
    elif o == "set_isolated_areas_out_of_service":
        _set_oos(net, op)
        tgt(target="*")
        tb.set_isolated_areas_out_of_service(net, respect_switches=op.get("respect_switches", True))

    # ------------------------------------------------------------------ fuse / select / merge
    elif o == "fuse_buses":
        buses = ix(net, "bus")
        b1 = pick(buses, op["b1"])
        b2 = [b for b in picks(buses, op["b2"]) if b != b1]
        if not b2:
            raise NoOp("nothing to fuse")
        tgt(target="bus", rows=b2)
        if op.get("single") and len(b2) == 1:
            b2 = b2[0]
        tb.fuse_buses(net, b1, b2, drop=op.get("drop", True), fuse_bus_measurements=True)
    elif o == "select_subnet":
        buses = ix(net, "bus")
        out = set(picks(buses, op["drop"]))
        keep = [b for b in buses if b not in out]
        if not keep:
            raise NoOp("empty subnet")
        tgt(target="bus", rows=sorted(out))
        if op.get("keep_everything_else"):
            info["family"] = "select_subnet:keep_everything_else"
        net = tb.select_subnet(net, keep, include_switch_buses=op.get("include_switch_buses", False),
                               include_results=op.get("include_results", False),
                               keep_everything_else=op.get("keep_everything_else", False))
    elif o == "merge_nets":
        net2 = aux["net2"]()
        if net2 is None:
            raise NoOp("no second net")
        tgt(target="*")
        if op.get("swap"):
            net, net2 = net2, net
        net = tb.merge_nets(net, net2, validate=False, merge_results=op.get("merge_results", True),
                            std_prio_on_net1=True)

    # ------------------------------------------------------------------ re-indexing
    elif o == "reindex_buses":
        buses = ix(net, "bus")
        lk = _new_lookup(buses, op["mode"], op.get("ks", [0]), op.get("off", 1))
        tgt(target="bus", rows=list(lk.keys()))
        if op.get("via_reindex_elements"):
            tb.reindex_elements(net, "bus", lookup=lk)
        else:
            tb.reindex_buses(net, lk)
    elif o == "reindex_elements":
        et = toward(net, op.get("toward"), op["ks"][0]) or fallback(net, op["et"])
        old = ix(net, et)
        if et == "group":
            old = sorted(set(old))
        lk = _new_lookup(old, op["mode"], op.get("ks", [0]), op.get("off", 1))
        tgt(target=et, rows=list(lk.keys()), family="reindex_buses" if et == "bus" else "reindex_elements")
        if op.get("via") == "new":
            if op["mode"] in ("offset", "reverse") and et != "group":
                tb.reindex_elements(net, et, new_indices=[lk[i] for i in old])
            else:
                keys = list(lk.keys())
                tb.reindex_elements(net, et, new_indices=[lk[i] for i in keys], old_indices=pd.Index(keys))
        else:
            tb.reindex_elements(net, et, lookup=lk)
    elif o == "create_continuous_bus_index":
        tgt(target="bus", rows=ix(net, "bus"))
        tb.create_continuous_bus_index(net, start=op.get("start", 0), store_old_index=op.get("store", False))
    elif o == "create_continuous_elements_index":
        tgt(target="*")
        tb.create_continuous_elements_index(net, start=op.get("start", 0))

    # ------------------------------------------------------------------ replacements
    elif o == "replace_line_by_impedance":
        sel = None if op.get("all") else picks(ix(net, "line"), op["ks"])
        if not len(net.line):
            raise NoOp("empty")
        tgt(target="line", rows=sel if sel is not None else ix(net, "line"))
        tb.replace_line_by_impedance(net, index=sel, only_valid_replace=op.get("only_valid", False))
    elif o == "replace_impedance_by_line":
        sel = None if op.get("all") else picks(ix(net, "impedance"), op["ks"])
        if not len(net.impedance):
            raise NoOp("empty")
        tgt(target="impedance", rows=sel if sel is not None else ix(net, "impedance"))
        tb.replace_impedance_by_line(net, index=sel, only_valid_replace=op.get("only_valid", False), max_i_ka=0.5)
    elif o in ("replace_ext_grid_by_gen", "replace_gen_by_ext_grid", "replace_gen_by_sgen", "replace_sgen_by_gen"):
        src = o.split("_")[1] if not o.startswith("replace_ext_grid") else "ext_grid"
        if not len(net[src]):
            raise NoOp("empty")
        sel = None if op.get("all") else picks(ix(net, src), op["ks"])
        tgt(target=src, rows=sel if sel is not None else ix(net, src))
        kw = {"slack": op.get("slack", False)} if o == "replace_ext_grid_by_gen" else {}
        getattr(tb, o)(net, sel, **kw)
    elif o == "replace_pq_elmtype":
        old, new = op["old"], op["new"]
        if old == new or not len(net[old]):
            raise NoOp("empty")
        sel = None if op.get("all") else picks(ix(net, old), op["ks"])
        tgt(target=old, rows=sel if sel is not None else ix(net, old))
        tb.replace_pq_elmtype(net, old, new, old_indices=sel)
    elif o == "replace_ward_by_internal_elements":
        if not len(net.ward):
            raise NoOp("empty")
        sel = None if op.get("all") else picks(ix(net, "ward"), op["ks"])
        tgt(target="ward", rows=sel if sel is not None else ix(net, "ward"))
        tb.replace_ward_by_internal_elements(net, sel)
    elif o == "replace_xward_by_internal_elements":
        if not len(net.xward):
            raise NoOp("empty")
        sel = None if op.get("all") else picks(ix(net, "xward"), op["ks"])
        tgt(target="xward", rows=sel if sel is not None else ix(net, "xward"))
        tb.replace_xward_by_internal_elements(net, sel)
    elif o == "replace_xward_by_ward":
        if not len(net.xward):
            raise NoOp("empty")
        sel = None if op.get("all") else picks(ix(net, "xward"), op["ks"])
        tgt(target="xward", rows=sel if sel is not None else ix(net, "xward"))
        tb.replace_xward_by_ward(net, index=sel, drop=op.get("drop", True))
    elif o == "replace_zero_branches_with_switches":
        if len(net.line):
            for l in picks(ix(net, "line"), op["ks"]):
                net.line.at[l, "length_km"] = 0.0
        tgt(target="line")
        tb.replace_zero_branches_with_switches(net, elements=("line", "impedance"), zero_length=True,
                                               zero_impedance=True, in_service_only=op.get("in_service_only", True),
                                               drop_affected=op.get("drop_affected", False))
    elif o == "create_replacement_switch_for_branch":
        et = op.get("et", "line")
        e = pick(ix(net, et), op["k"])
        tgt(target=et, rows=[e], edit=False)
        tb.create_replacement_switch_for_branch(net, et, e)
    elif o == "merge_parallel_line":
        e = pick(ix(net, "line"), op["k"])
        tgt(target="line", rows=[e])
        net = tb.merge_parallel_line(net, e)
    elif o == "merge_same_bus_generation_plants":
        tgt(target="gen")
        tb.merge_same_bus_generation_plants(net, add_info=op.get("add_info", True), error=False)
    else:
        raise KeyError("unknown op %r" % o)
    return net, info


FALLBACK = ["trafo3w", "trafo", "line", "sgen", "load", "gen", "ext_grid"]


def fallback(net, et):
    """an operation drawn for an empty table is applied to the first non-empty table of a fixed preference list
    (keeps histories applicable; the drawn table is used whenever it has rows)"""
    if et in net and len(net[et]):
        return et
    for t in FALLBACK:
        if len(net[t]):
            return t
    raise NoOp("empty")


def toward(net, kind, k):
    """table that is currently referenced by a controller / cost / measurement (None if there is none): lets a drawn
    operation aim at rows that carry such references"""
    if kind == "controller" and len(net.controller):
        ets = [getattr(o, "element", None) for o in net.controller["object"].values]
    elif kind == "cost":
        ets = net.poly_cost.et.tolist() + net.pwl_cost.et.tolist()
    elif kind == "measurement":
        ets = [e for e in net.measurement.element_type.tolist() if e != "bus"]
    elif kind == "t3":
        ets = ["trafo3w"] if (net.switch.et == "t3").any() else []
    else:
        return None
    ets = [e for e in ets if isinstance(e, str) and e in net and len(net[e])]
    return ets[k % len(ets)] if ets else None


def _cls(et):
    if et in BUS_ELEMS:
        return "bus_element"
    if et in FACTS:
        return "facts"
    if et in ("impedance", "dcline"):
        return "other_branch"
    return et


def _set_oos(net, op):
    """optional preparation of the drop_out_of_service / isolated-area operations: switch some rows off"""
    for t, ks in (op.get("oos") or {}).items():
        if t in net and len(net[t]) and "in_service" in net[t].columns:
            for e in picks(ix(net, t), ks):
                net[t].at[e, "in_service"] = False
    for k in op.get("open", []):
        if len(net.switch):
            net.switch.at[pick(ix(net, "switch"), k), "closed"] = False
