"""Calibrated reactive limits (used by C01 and C04): limits that become binding one after the other.

The factors are part of the generated case; the limits are a deterministic function of the case and of an unconstrained run of
the code under test: for PV gen i with unconstrained reactive power q_i the binding side gets the limit f_i * q_i, so f_i < 1
binds in the first enforcement round and f_i slightly above 1 binds only after other generators have been limited."""
import math

FACTORS = [0.3, 0.6, 0.9, 0.97, 1.02, 1.05, 1.15, 1.5, None]


def factors():
    """strategy: the first generator is limited well below its unconstrained q, the others mostly just above theirs"""
    from hypothesis import strategies as st
    return st.tuples(st.sampled_from([0.3, 0.6, 0.9]),
                     st.lists(st.sampled_from([1.005, 1.01, 1.02, 1.05, 1.15, 0.9, 1.5, None]), min_size=3, max_size=3)
                     ).map(lambda t: [t[0]] + t[1])


def apply(net, factors, run_free, run_enf=None):
    """run_free(net) runs the power flow without enforcement, run_enf(net) with enforcement.
    Stage 1: unconstrained run, the first PV gen gets the limit f_0 * q (f_0 < 1: binds in the first round).
    Stage 2 (if run_enf is given): run with only that limit enforced; every other gen whose |q| grew gets its limit between
    its unconstrained and its new value (inside the limit at first, violated once the first gen is limited: second round);
    the remaining gens get f_i * q_free. Returns {gen index: factor (2.0 = stage-2 limit)} of the calibrated gens, or None."""
    if not factors or not len(net.gen):
        return None
    try:
        run_free(net)
    except Exception:
        return None
    gens = [idx for idx in net.gen.index if net.gen.at[idx, "in_service"] and not bool(net.gen.at[idx, "slack"])]
    qfree = {idx: float(net.res_gen.at[idx, "q_mvar"]) for idx in gens}
    gens = [i for i in gens if not math.isnan(qfree[i]) and abs(qfree[i]) >= 1e-6]
    if not gens:
        return None
    if "min_q_mvar" not in net.gen.columns:
        net.gen["min_q_mvar"] = float("nan")
        net.gen["max_q_mvar"] = float("nan")

    def setlim(idx, lim):
        qf = qfree[idx]
        wide = round(3.0 * abs(qf) + 1e-3, 6)
        if qf > 0:
            net.gen.at[idx, "max_q_mvar"], net.gen.at[idx, "min_q_mvar"] = round(lim, 6), -wide
        else:
            net.gen.at[idx, "min_q_mvar"], net.gen.at[idx, "max_q_mvar"] = round(lim, 6), wide
    out = {}
    first = gens[0]
    f0 = factors[0] if factors[0] is not None else 0.6
    for idx in gens[1:]:                 # wide open for stage 2
        setlim(idx, 3.0 * qfree[idx])
    setlim(first, f0 * qfree[first])
    out[int(first)] = f0
    q2 = None
    if run_enf is not None and len(gens) > 1:
        try:
            run_enf(net)
            q2 = {idx: float(net.res_gen.at[idx, "q_mvar"]) for idx in gens}
        except Exception:
            q2 = None
    for k, idx in enumerate(gens[1:], start=1):
        f = factors[k % len(factors)]
        qf = qfree[idx]
        if q2 is not None and not math.isnan(q2[idx]) and q2[idx] * qf > 0 and abs(q2[idx]) > abs(qf) * (1 + 1e-3) + 1e-5 \
                and f is not None and f >= 1.0:
            setlim(idx, qf + 0.5 * (q2[idx] - qf))
            out[int(idx)] = 2.0
        elif f is None:
            net.gen.at[idx, "min_q_mvar"], net.gen.at[idx, "max_q_mvar"] = float("nan"), float("nan")
        else:
            setlim(idx, f * qf)
            out[int(idx)] = f
    return out


def limited_later(net, cal, qtol):
    """calibrated gens whose unconstrained q was inside the limit (f > 1) but that end on it: limited in a later round"""
    n = 0
    for idx, f in (cal or {}).items():
        if f > 1.0:
            qv = net.res_gen.at[idx, "q_mvar"]
            if abs(qv - net.gen.at[idx, "max_q_mvar"]) <= qtol or abs(qv - net.gen.at[idx, "min_q_mvar"]) <= qtol:
                n += 1
    return n
