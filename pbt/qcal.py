"""Calibrated reactive limits (used by C01 and C04): limits that become binding one after the other.

The factors are part of the generated case; the limits are a deterministic function of the case and of an unconstrained run of
the code under test: for PV gen i with unconstrained reactive power q_i the binding side gets the limit f_i * q_i, so f_i < 1
binds in the first enforcement round and f_i slightly above 1 binds only after other generators have been limited."""
import math

FACTORS = [0.3, 0.6, 0.9, 0.97, 1.02, 1.05, 1.15, 1.5, None]


def apply(net, factors, run_free):
    """run_free(net) runs the power flow without enforcement. Returns {gen index: factor} of the calibrated gens, or None."""
    if not factors or not len(net.gen):
        return None
    try:
        run_free(net)
    except Exception:
        return None
    out = {}
    k = 0
    for idx in net.gen.index:
        if not net.gen.at[idx, "in_service"] or bool(net.gen.at[idx, "slack"]):
            continue
        f = factors[k % len(factors)]
        k += 1
        qf = float(net.res_gen.at[idx, "q_mvar"])
        if f is None or math.isnan(qf) or abs(qf) < 1e-6:
            continue
        wide = round(3.0 * abs(qf) + 1e-3, 6)
        if qf > 0:
            net.gen.at[idx, "max_q_mvar"] = round(f * qf, 6)
            net.gen.at[idx, "min_q_mvar"] = -wide
        else:
            net.gen.at[idx, "min_q_mvar"] = round(f * qf, 6)
            net.gen.at[idx, "max_q_mvar"] = wide
        out[int(idx)] = f
    return out


def limited_later(net, cal, qtol):
    """calibrated gens whose unconstrained q was inside the limit (f > 1) but that end on it: limited in a later round"""
    n = 0
    for idx, f in (cal or {}).items():
        if f > 1.0:
            qv = net.res_gen.at[idx, "q_mvar"]
            if abs(qv - net.gen.at[idx, "max_q_mvar"]) <= qtol or abs(qv - net.gen.at[idx, "min_q_mvar"]) <= qtol:
                n += 1
    return n
